
type nat =
| O
| S of nat

(** val fst : ('a1 * 'a2) -> 'a1 **)

let fst = function
| (x, _) -> x

(** val snd : ('a1 * 'a2) -> 'a2 **)

let snd = function
| (_, y) -> y

(** val length : 'a1 list -> nat **)

let rec length = function
| [] -> O
| _ :: l' -> S (length l')

(** val app : 'a1 list -> 'a1 list -> 'a1 list **)

let rec app l m =
  match l with
  | [] -> m
  | a :: l1 -> a :: (app l1 m)

type comparison =
| Eq
| Lt
| Gt

(** val compOpp : comparison -> comparison **)

let compOpp = function
| Eq -> Eq
| Lt -> Gt
| Gt -> Lt

module Coq__1 = struct
 (** val add : nat -> nat -> nat **)
 let rec add n0 m =
   match n0 with
   | O -> m
   | S p -> S (add p m)
end
include Coq__1

module Nat =
 struct
  (** val eqb : nat -> nat -> bool **)

  let rec eqb n0 m =
    match n0 with
    | O -> (match m with
            | O -> true
            | S _ -> false)
    | S n' -> (match m with
               | O -> false
               | S m' -> eqb n' m')
 end

(** val list_eq_dec : ('a1 -> 'a1 -> bool) -> 'a1 list -> 'a1 list -> bool **)

let rec list_eq_dec eq_dec0 l l' =
  match l with
  | [] -> (match l' with
           | [] -> true
           | _ :: _ -> false)
  | y :: l0 ->
    (match l' with
     | [] -> false
     | a :: l1 -> if eq_dec0 y a then list_eq_dec eq_dec0 l0 l1 else false)

(** val map : ('a1 -> 'a2) -> 'a1 list -> 'a2 list **)

let rec map f = function
| [] -> []
| a :: t -> (f a) :: (map f t)

(** val existsb : ('a1 -> bool) -> 'a1 list -> bool **)

let rec existsb f = function
| [] -> false
| a :: l0 -> (||) (f a) (existsb f l0)

(** val forallb : ('a1 -> bool) -> 'a1 list -> bool **)

let rec forallb f = function
| [] -> true
| a :: l0 -> (&&) (f a) (forallb f l0)

(** val filter : ('a1 -> bool) -> 'a1 list -> 'a1 list **)

let rec filter f = function
| [] -> []
| x :: l0 -> if f x then x :: (filter f l0) else filter f l0

(** val firstn : nat -> 'a1 list -> 'a1 list **)

let rec firstn n0 l =
  match n0 with
  | O -> []
  | S n1 -> (match l with
             | [] -> []
             | a :: l0 -> a :: (firstn n1 l0))

(** val skipn : nat -> 'a1 list -> 'a1 list **)

let rec skipn n0 l =
  match n0 with
  | O -> l
  | S n1 -> (match l with
             | [] -> []
             | _ :: l0 -> skipn n1 l0)

(** val seq : nat -> nat -> nat list **)

let rec seq start = function
| O -> []
| S len0 -> start :: (seq (S start) len0)

type positive =
| XI of positive
| XO of positive
| XH

type n =
| N0
| Npos of positive

type z =
| Z0
| Zpos of positive
| Zneg of positive

module Pos =
 struct
  type mask =
  | IsNul
  | IsPos of positive
  | IsNeg
 end

module Coq_Pos =
 struct
  (** val succ : positive -> positive **)

  let rec succ = function
  | XI p -> XO (succ p)
  | XO p -> XI p
  | XH -> XO XH

  (** val add : positive -> positive -> positive **)

  let rec add x y =
    match x with
    | XI p ->
      (match y with
       | XI q -> XO (add_carry p q)
       | XO q -> XI (add p q)
       | XH -> XO (succ p))
    | XO p ->
      (match y with
       | XI q -> XI (add p q)
       | XO q -> XO (add p q)
       | XH -> XI p)
    | XH -> (match y with
             | XI q -> XO (succ q)
             | XO q -> XI q
             | XH -> XO XH)

  (** val add_carry : positive -> positive -> positive **)

  and add_carry x y =
    match x with
    | XI p ->
      (match y with
       | XI q -> XI (add_carry p q)
       | XO q -> XO (add_carry p q)
       | XH -> XI (succ p))
    | XO p ->
      (match y with
       | XI q -> XO (add_carry p q)
       | XO q -> XI (add p q)
       | XH -> XO (succ p))
    | XH ->
      (match y with
       | XI q -> XI (succ q)
       | XO q -> XO (succ q)
       | XH -> XI XH)

  (** val pred_double : positive -> positive **)

  let rec pred_double = function
  | XI p -> XI (XO p)
  | XO p -> XI (pred_double p)
  | XH -> XH

  type mask = Pos.mask =
  | IsNul
  | IsPos of positive
  | IsNeg

  (** val succ_double_mask : mask -> mask **)

  let succ_double_mask = function
  | IsNul -> IsPos XH
  | IsPos p -> IsPos (XI p)
  | IsNeg -> IsNeg

  (** val double_mask : mask -> mask **)

  let double_mask = function
  | IsPos p -> IsPos (XO p)
  | x0 -> x0

  (** val double_pred_mask : positive -> mask **)

  let double_pred_mask = function
  | XI p -> IsPos (XO (XO p))
  | XO p -> IsPos (XO (pred_double p))
  | XH -> IsNul

  (** val sub_mask : positive -> positive -> mask **)

  let rec sub_mask x y =
    match x with
    | XI p ->
      (match y with
       | XI q -> double_mask (sub_mask p q)
       | XO q -> succ_double_mask (sub_mask p q)
       | XH -> IsPos (XO p))
    | XO p ->
      (match y with
       | XI q -> succ_double_mask (sub_mask_carry p q)
       | XO q -> double_mask (sub_mask p q)
       | XH -> IsPos (pred_double p))
    | XH -> (match y with
             | XH -> IsNul
             | _ -> IsNeg)

  (** val sub_mask_carry : positive -> positive -> mask **)

  and sub_mask_carry x y =
    match x with
    | XI p ->
      (match y with
       | XI q -> succ_double_mask (sub_mask_carry p q)
       | XO q -> double_mask (sub_mask p q)
       | XH -> IsPos (pred_double p))
    | XO p ->
      (match y with
       | XI q -> double_mask (sub_mask_carry p q)
       | XO q -> succ_double_mask (sub_mask_carry p q)
       | XH -> double_pred_mask p)
    | XH -> IsNeg

  (** val mul : positive -> positive -> positive **)

  let rec mul x y =
    match x with
    | XI p -> add y (XO (mul p y))
    | XO p -> XO (mul p y)
    | XH -> y

  (** val iter : ('a1 -> 'a1) -> 'a1 -> positive -> 'a1 **)

  let rec iter f x = function
  | XI n' -> f (iter f (iter f x n') n')
  | XO n' -> iter f (iter f x n') n'
  | XH -> f x

  (** val pow : positive -> positive -> positive **)

  let pow x =
    iter (mul x) XH

  (** val compare_cont : comparison -> positive -> positive -> comparison **)

  let rec compare_cont r x y =
    match x with
    | XI p ->
      (match y with
       | XI q -> compare_cont r p q
       | XO q -> compare_cont Gt p q
       | XH -> Gt)
    | XO p ->
      (match y with
       | XI q -> compare_cont Lt p q
       | XO q -> compare_cont r p q
       | XH -> Gt)
    | XH -> (match y with
             | XH -> r
             | _ -> Lt)

  (** val compare : positive -> positive -> comparison **)

  let compare =
    compare_cont Eq

  (** val eqb : positive -> positive -> bool **)

  let rec eqb p q =
    match p with
    | XI p0 -> (match q with
                | XI q0 -> eqb p0 q0
                | _ -> false)
    | XO p0 -> (match q with
                | XO q0 -> eqb p0 q0
                | _ -> false)
    | XH -> (match q with
             | XH -> true
             | _ -> false)

  (** val iter_op : ('a1 -> 'a1 -> 'a1) -> positive -> 'a1 -> 'a1 **)

  let rec iter_op op p a =
    match p with
    | XI p0 -> op a (iter_op op p0 (op a a))
    | XO p0 -> iter_op op p0 (op a a)
    | XH -> a

  (** val to_nat : positive -> nat **)

  let to_nat x =
    iter_op Coq__1.add x (S O)

  (** val eq_dec : positive -> positive -> bool **)

  let rec eq_dec p x0 =
    match p with
    | XI p0 -> (match x0 with
                | XI p1 -> eq_dec p0 p1
                | _ -> false)
    | XO p0 -> (match x0 with
                | XO p1 -> eq_dec p0 p1
                | _ -> false)
    | XH -> (match x0 with
             | XH -> true
             | _ -> false)
 end

module N =
 struct
  (** val succ_double : n -> n **)

  let succ_double = function
  | N0 -> Npos XH
  | Npos p -> Npos (XI p)

  (** val double : n -> n **)

  let double = function
  | N0 -> N0
  | Npos p -> Npos (XO p)

  (** val succ : n -> n **)

  let succ = function
  | N0 -> Npos XH
  | Npos p -> Npos (Coq_Pos.succ p)

  (** val add : n -> n -> n **)

  let add n0 m =
    match n0 with
    | N0 -> m
    | Npos p -> (match m with
                 | N0 -> n0
                 | Npos q -> Npos (Coq_Pos.add p q))

  (** val sub : n -> n -> n **)

  let sub n0 m =
    match n0 with
    | N0 -> N0
    | Npos n' ->
      (match m with
       | N0 -> n0
       | Npos m' ->
         (match Coq_Pos.sub_mask n' m' with
          | Coq_Pos.IsPos p -> Npos p
          | _ -> N0))

  (** val mul : n -> n -> n **)

  let mul n0 m =
    match n0 with
    | N0 -> N0
    | Npos p -> (match m with
                 | N0 -> N0
                 | Npos q -> Npos (Coq_Pos.mul p q))

  (** val compare : n -> n -> comparison **)

  let compare n0 m =
    match n0 with
    | N0 -> (match m with
             | N0 -> Eq
             | Npos _ -> Lt)
    | Npos n' -> (match m with
                  | N0 -> Gt
                  | Npos m' -> Coq_Pos.compare n' m')

  (** val eqb : n -> n -> bool **)

  let eqb n0 m =
    match n0 with
    | N0 -> (match m with
             | N0 -> true
             | Npos _ -> false)
    | Npos p -> (match m with
                 | N0 -> false
                 | Npos q -> Coq_Pos.eqb p q)

  (** val leb : n -> n -> bool **)

  let leb x y =
    match compare x y with
    | Gt -> false
    | _ -> true

  (** val ltb : n -> n -> bool **)

  let ltb x y =
    match compare x y with
    | Lt -> true
    | _ -> false

  (** val pow : n -> n -> n **)

  let pow n0 = function
  | N0 -> Npos XH
  | Npos p0 -> (match n0 with
                | N0 -> N0
                | Npos q -> Npos (Coq_Pos.pow q p0))

  (** val pos_div_eucl : positive -> n -> n * n **)

  let rec pos_div_eucl a b =
    match a with
    | XI a' ->
      let (q, r) = pos_div_eucl a' b in
      let r' = succ_double r in
      if leb b r' then ((succ_double q), (sub r' b)) else ((double q), r')
    | XO a' ->
      let (q, r) = pos_div_eucl a' b in
      let r' = double r in
      if leb b r' then ((succ_double q), (sub r' b)) else ((double q), r')
    | XH ->
      (match b with
       | N0 -> (N0, (Npos XH))
       | Npos p -> (match p with
                    | XH -> ((Npos XH), N0)
                    | _ -> (N0, (Npos XH))))

  (** val div_eucl : n -> n -> n * n **)

  let div_eucl a b =
    match a with
    | N0 -> (N0, N0)
    | Npos na -> (match b with
                  | N0 -> (N0, a)
                  | Npos _ -> pos_div_eucl na b)

  (** val div : n -> n -> n **)

  let div a b =
    fst (div_eucl a b)

  (** val modulo : n -> n -> n **)

  let modulo a b =
    snd (div_eucl a b)

  (** val to_nat : n -> nat **)

  let to_nat = function
  | N0 -> O
  | Npos p -> Coq_Pos.to_nat p

  (** val eq_dec : n -> n -> bool **)

  let eq_dec n0 m =
    match n0 with
    | N0 -> (match m with
             | N0 -> true
             | Npos _ -> false)
    | Npos p -> (match m with
                 | N0 -> false
                 | Npos p0 -> Coq_Pos.eq_dec p p0)
 end

module Z =
 struct
  (** val double : z -> z **)

  let double = function
  | Z0 -> Z0
  | Zpos p -> Zpos (XO p)
  | Zneg p -> Zneg (XO p)

  (** val succ_double : z -> z **)

  let succ_double = function
  | Z0 -> Zpos XH
  | Zpos p -> Zpos (XI p)
  | Zneg p -> Zneg (Coq_Pos.pred_double p)

  (** val pred_double : z -> z **)

  let pred_double = function
  | Z0 -> Zneg XH
  | Zpos p -> Zpos (Coq_Pos.pred_double p)
  | Zneg p -> Zneg (XI p)

  (** val pos_sub : positive -> positive -> z **)

  let rec pos_sub x y =
    match x with
    | XI p ->
      (match y with
       | XI q -> double (pos_sub p q)
       | XO q -> succ_double (pos_sub p q)
       | XH -> Zpos (XO p))
    | XO p ->
      (match y with
       | XI q -> pred_double (pos_sub p q)
       | XO q -> double (pos_sub p q)
       | XH -> Zpos (Coq_Pos.pred_double p))
    | XH ->
      (match y with
       | XI q -> Zneg (XO q)
       | XO q -> Zneg (Coq_Pos.pred_double q)
       | XH -> Z0)

  (** val add : z -> z -> z **)

  let add x y =
    match x with
    | Z0 -> y
    | Zpos x' ->
      (match y with
       | Z0 -> x
       | Zpos y' -> Zpos (Coq_Pos.add x' y')
       | Zneg y' -> pos_sub x' y')
    | Zneg x' ->
      (match y with
       | Z0 -> x
       | Zpos y' -> pos_sub y' x'
       | Zneg y' -> Zneg (Coq_Pos.add x' y'))

  (** val opp : z -> z **)

  let opp = function
  | Z0 -> Z0
  | Zpos x0 -> Zneg x0
  | Zneg x0 -> Zpos x0

  (** val sub : z -> z -> z **)

  let sub m n0 =
    add m (opp n0)

  (** val mul : z -> z -> z **)

  let mul x y =
    match x with
    | Z0 -> Z0
    | Zpos x' ->
      (match y with
       | Z0 -> Z0
       | Zpos y' -> Zpos (Coq_Pos.mul x' y')
       | Zneg y' -> Zneg (Coq_Pos.mul x' y'))
    | Zneg x' ->
      (match y with
       | Z0 -> Z0
       | Zpos y' -> Zneg (Coq_Pos.mul x' y')
       | Zneg y' -> Zpos (Coq_Pos.mul x' y'))

  (** val pow_pos : z -> positive -> z **)

  let pow_pos z0 =
    Coq_Pos.iter (mul z0) (Zpos XH)

  (** val pow : z -> z -> z **)

  let pow x = function
  | Z0 -> Zpos XH
  | Zpos p -> pow_pos x p
  | Zneg _ -> Z0

  (** val compare : z -> z -> comparison **)

  let compare x y =
    match x with
    | Z0 -> (match y with
             | Z0 -> Eq
             | Zpos _ -> Lt
             | Zneg _ -> Gt)
    | Zpos x' -> (match y with
                  | Zpos y' -> Coq_Pos.compare x' y'
                  | _ -> Gt)
    | Zneg x' ->
      (match y with
       | Zneg y' -> compOpp (Coq_Pos.compare x' y')
       | _ -> Lt)

  (** val leb : z -> z -> bool **)

  let leb x y =
    match compare x y with
    | Gt -> false
    | _ -> true

  (** val ltb : z -> z -> bool **)

  let ltb x y =
    match compare x y with
    | Lt -> true
    | _ -> false

  (** val to_N : z -> n **)

  let to_N = function
  | Zpos p -> Npos p
  | _ -> N0

  (** val of_N : n -> z **)

  let of_N = function
  | N0 -> Z0
  | Npos p -> Zpos p

  (** val pos_div_eucl : positive -> z -> z * z **)

  let rec pos_div_eucl a b =
    match a with
    | XI a' ->
      let (q, r) = pos_div_eucl a' b in
      let r' = add (mul (Zpos (XO XH)) r) (Zpos XH) in
      if ltb r' b
      then ((mul (Zpos (XO XH)) q), r')
      else ((add (mul (Zpos (XO XH)) q) (Zpos XH)), (sub r' b))
    | XO a' ->
      let (q, r) = pos_div_eucl a' b in
      let r' = mul (Zpos (XO XH)) r in
      if ltb r' b
      then ((mul (Zpos (XO XH)) q), r')
      else ((add (mul (Zpos (XO XH)) q) (Zpos XH)), (sub r' b))
    | XH -> if leb (Zpos (XO XH)) b then (Z0, (Zpos XH)) else ((Zpos XH), Z0)

  (** val div_eucl : z -> z -> z * z **)

  let div_eucl a b =
    match a with
    | Z0 -> (Z0, Z0)
    | Zpos a' ->
      (match b with
       | Z0 -> (Z0, a)
       | Zpos _ -> pos_div_eucl a' b
       | Zneg b' ->
         let (q, r) = pos_div_eucl a' (Zpos b') in
         (match r with
          | Z0 -> ((opp q), Z0)
          | _ -> ((opp (add q (Zpos XH))), (add b r))))
    | Zneg a' ->
      (match b with
       | Z0 -> (Z0, a)
       | Zpos _ ->
         let (q, r) = pos_div_eucl a' b in
         (match r with
          | Z0 -> ((opp q), Z0)
          | _ -> ((opp (add q (Zpos XH))), (sub b r)))
       | Zneg b' -> let (q, r) = pos_div_eucl a' (Zpos b') in (q, (opp r)))

  (** val div : z -> z -> z **)

  let div a b =
    let (q, _) = div_eucl a b in q

  (** val modulo : z -> z -> z **)

  let modulo a b =
    let (_, r) = div_eucl a b in r
 end

(** val n_of_digits : bool list -> n **)

let rec n_of_digits = function
| [] -> N0
| b :: l' ->
  N.add (if b then Npos XH else N0) (N.mul (Npos (XO XH)) (n_of_digits l'))

(** val n_of_ascii : char -> n **)

let n_of_ascii a =
  (* If this appears, you're using Ascii internals. Please don't *)
 (fun f c ->
  let n = Char.code c in
  let h i = (n land (1 lsl i)) <> 0 in
  f (h 0) (h 1) (h 2) (h 3) (h 4) (h 5) (h 6) (h 7))
    (fun a0 a1 a2 a3 a4 a5 a6 a7 ->
    n_of_digits
      (a0 :: (a1 :: (a2 :: (a3 :: (a4 :: (a5 :: (a6 :: (a7 :: [])))))))))
    a

type ('e, 'a) result =
| Ok of 'a
| Err of 'e

(** val nrange : n -> nat -> n list **)

let rec nrange lo = function
| O -> []
| S k -> lo :: (nrange (N.succ lo) k)

(** val two64 : n **)

let two64 =
  N.pow (Npos (XO XH)) (Npos (XO (XO (XO (XO (XO (XO XH)))))))

(** val u16_max : n **)

let u16_max =
  Npos (XI (XI (XI (XI (XI (XI (XI (XI (XI (XI (XI (XI (XI (XI (XI
    XH)))))))))))))))

(** val i64_as_u64 : z -> n **)

let i64_as_u64 t =
  Z.to_N
    (Z.modulo t
      (Z.pow (Zpos (XO XH)) (Zpos (XO (XO (XO (XO (XO (XO XH)))))))))

(** val wrapping_add_bias : n -> n **)

let wrapping_add_bias x =
  N.modulo
    (N.add x (N.pow (Npos (XO XH)) (Npos (XI (XI (XI (XI (XI XH)))))))) two64

(** val shl64 : n -> n -> n **)

let shl64 x k =
  N.modulo (N.mul x (N.pow (Npos (XO XH)) k)) two64

(** val shard_of : n -> n -> z -> n **)

let shard_of n0 msb t =
  N.div (N.mul (shl64 (wrapping_add_bias (i64_as_u64 t)) msb) n0) two64

(** val shard_of_source_port : n -> n -> n **)

let shard_of_source_port n0 port =
  N.modulo port n0

(** val spec_shard_of : n -> n -> z -> n **)

let spec_shard_of n0 msb t =
  Z.to_N
    (Z.div
      (Z.mul
        (Z.modulo
          (Z.mul
            (Z.add t
              (Z.pow (Zpos (XO XH)) (Zpos (XI (XI (XI (XI (XI XH))))))))
            (Z.pow (Zpos (XO XH)) (Z.of_N msb)))
          (Z.pow (Zpos (XO XH)) (Zpos (XO (XO (XO (XO (XO (XO XH)))))))))
        (Z.of_N n0))
      (Z.pow (Zpos (XO XH)) (Zpos (XO (XO (XO (XO (XO (XO XH)))))))))

(** val lowest_port : n -> n -> n -> n -> n option **)

let lowest_port n0 s lo hi =
  let shard_for_first_port = N.modulo lo n0 in
  let offset = N.modulo (N.add (N.sub n0 shard_for_first_port) s) n0 in
  let first = N.add lo offset in
  if N.ltb u16_max first
  then None
  else if N.leb first hi then Some first else None

(** val step_ports : n -> n -> n -> n list **)

let step_ports first hi n0 =
  map (fun i -> N.add first (N.mul i n0))
    (nrange N0 (N.to_nat (N.add (N.div (N.sub hi first) n0) (Npos XH))))

(** val ports_for_shard : n -> n -> n -> n -> n list **)

let ports_for_shard n0 s lo hi =
  match lowest_port n0 s lo hi with
  | Some first -> step_ports first hi n0
  | None -> []

(** val spec_ports : n -> n -> n -> n -> n list **)

let spec_ports n0 s lo hi =
  filter (fun p -> N.eqb (N.modulo p n0) s)
    (nrange lo (N.to_nat (N.sub (N.add hi (Npos XH)) lo)))

(** val accept_iter : n -> n -> n -> n -> n list -> bool **)

let accept_iter n0 s lo hi observed =
  let l = ports_for_shard n0 s lo hi in
  (match l with
   | [] -> (match observed with
            | [] -> true
            | _ :: _ -> false)
   | _ :: _ ->
     existsb (fun k ->
       if list_eq_dec N.eq_dec observed (app (skipn k l) (firstn k l))
       then true
       else false) (seq O (length l)))

(** val accept_draw : n -> n -> n -> n -> n option -> bool **)

let accept_draw n0 s lo hi = function
| Some p ->
  (match ports_for_shard n0 s lo hi with
   | [] -> false
   | n1 :: l0 -> existsb (N.eqb p) (n1 :: l0))
| None -> (match ports_for_shard n0 s lo hi with
           | [] -> true
           | _ :: _ -> false)

(** val prop_iter_ok : n -> n -> n -> n -> n list -> bool **)

let prop_iter_ok n0 s lo hi observed =
  let sp = spec_ports n0 s lo hi in
  (&&)
    ((&&) (Nat.eqb (length observed) (length sp))
      (forallb (fun p -> existsb (N.eqb p) observed) sp))
    (forallb (fun p -> existsb (N.eqb p) sp) observed)

(** val prop_draw_ok : n -> n -> n -> n -> n option -> bool **)

let prop_draw_ok n0 s lo hi = function
| Some p -> (&&) ((&&) (N.leb lo p) (N.leb p hi)) (N.eqb (N.modulo p n0) s)
| None -> (match spec_ports n0 s lo hi with
           | [] -> true
           | _ :: _ -> false)

type shard_err =
| NoShardInfo
| MissingSomeShardInfoParameters
| MissingShardInfoParameterValues
| ZeroShards
| ShardIdOutOfRange
| ParseIntError

(** val digit_of : char -> n option **)

let digit_of c =
  let k = n_of_ascii c in
  if (&&) (N.leb (Npos (XO (XO (XO (XO (XI XH)))))) k)
       (N.leb k (Npos (XI (XO (XO (XI (XI XH)))))))
  then Some (N.sub k (Npos (XO (XO (XO (XO (XI XH)))))))
  else None

(** val parse_digits : n -> n -> char list -> n option **)

let rec parse_digits max acc = function
| [] -> Some acc
| c::r ->
  (match digit_of c with
   | Some d ->
     let acc' = N.add (N.mul acc (Npos (XO (XI (XO XH))))) d in
     if N.ltb max acc' then None else parse_digits max acc' r
   | None -> None)

(** val parse_unsigned : n -> char list -> n option **)

let parse_unsigned max s = match s with
| [] -> None
| c::r ->
  if (=) c '+'
  then (match r with
        | [] -> None
        | _::_ -> parse_digits max N0 r)
  else parse_digits max N0 s

(** val parse_shard_info :
    char list list option -> char list list option -> char list list option
    -> (shard_err, (n * n) * n) result **)

let parse_shard_info shard_e nr_e msb_e =
  match shard_e with
  | Some se ->
    (match nr_e with
     | Some ne ->
       (match msb_e with
        | Some me ->
          (match se with
           | [] -> Err MissingShardInfoParameterValues
           | s :: _ ->
             (match ne with
              | [] -> Err MissingShardInfoParameterValues
              | n0 :: _ ->
                (match me with
                 | [] -> Err MissingShardInfoParameterValues
                 | m :: _ ->
                   (match parse_unsigned (Npos (XI (XI (XI (XI (XI (XI (XI
                            (XI (XI (XI (XI (XI (XI (XI (XI
                            XH)))))))))))))))) s with
                    | Some shard ->
                      (match parse_unsigned (Npos (XI (XI (XI (XI (XI (XI (XI
                               (XI (XI (XI (XI (XI (XI (XI (XI
                               XH)))))))))))))))) n0 with
                       | Some nr ->
                         if N.eqb nr N0
                         then Err ZeroShards
                         else (match parse_unsigned (Npos (XI (XI (XI (XI (XI
                                       (XI (XI XH)))))))) m with
                               | Some msb ->
                                 if N.leb nr shard
                                 then Err ShardIdOutOfRange
                                 else Ok ((shard, nr), msb)
                               | None -> Err ParseIntError)
                       | None -> Err ParseIntError)
                    | None -> Err ParseIntError))))
        | None -> Err MissingSomeShardInfoParameters)
     | None -> Err MissingSomeShardInfoParameters)
  | None ->
    (match nr_e with
     | Some _ -> Err MissingSomeShardInfoParameters
     | None ->
       (match msb_e with
        | Some _ -> Err MissingSomeShardInfoParameters
        | None -> Err NoShardInfo))
