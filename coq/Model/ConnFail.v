(* Model of one CQL connection under failure  (property C10).
   Executable definitions only; proofs are in Proofs/ConnFail_proofs.v.

   Code modelled (scylla/src/network/connection.rs unless stated otherwise):
     RouterHandle::send_request 136-175        -> labels [Reserve], [Push] (the two halves of
                                                  `submit_channel.send(task).await`), [Drop];
                                                  completion through [c_done]
     Connection::router 1541-1619              -> [fault], [TdStep] (teardown as of /repo bbe7c96:
                                                  handlers, then receiver.close(), then drain), [c_err_sent]
     Connection::reader 1608-1672              -> [Recv], [drain], [dispatch]
     frame::read_response_frame (scylla-cql/src/frame/mod.rs 141-188) -> [parse_frame], [Eof]
     Connection::writer 1693-1747 / alloc_stream_id 1674-1691 -> [WriterTake]
     Connection::orphaner 1753-1786, ResponseHandlerMap::orphan/lookup 2375-2412 -> [Drop], [OrphanProc], [dispatch]
     Connection::keepaliver 1788-1865          -> [KaTick], [KaTimeout], keepalive part of [complete]
     PoolRefiller::run / remove_connection / update_shared_conns (connection_pool.rs 632-741, 1128-1153,
       1218-1275)                              -> the pool machine at the end of the file

   Types: bytes are N (no bound assumed: the parser is total on any list), stream ids are the raw
   u16 of the header (i16 s is s mod 2^16: negative ids are >= 32768, -1 is 65535), request ids N.

   Abstractions (all over-approximations of the code, stated again in docs/C10.md):
     * the stream-id allocator is an oracle: [WriterTake (Some s)] is enabled for ANY id that is
       free (not in the handler map, not orphaned); C02 (Model/Streams.v) proves that the real
       bitmap allocator returns such an id.  [WriterTake None] (allocation failure) needs all
       32768 ids to be taken.
     * the submit channel (tokio mpsc, 1024 slots) is modelled with its two-phase send: [Reserve]
       = the sender obtained a slot (fails with ChannelError once the receiver is closed), [Push] =
       it puts the task into the slot (always possible, also after close()).  The bound itself is
       not modelled: a sender still waiting for a slot is a sender that has not done [Reserve] yet.
       After close(), `recv()` returns None only when no slot is reserved any more: the last
       [TdStep] needs [c_reserved] = [].
     * io errors of the socket other than end-of-stream, the orphan-count check and event
       handling errors are the environment label [EnvFault e]; TCP delivers any byte chunking
       ([Recv] carries an arbitrary chunk).
     * the order in which the teardown walks the handler HashMap is the list order. *)
From SV Require Import Base.Prelude Base.Bytes.
Open Scope N_scope.

(* ---------------------------------------------------------------- frames and the header parser *)

(* a response frame as read from the wire: the 9 raw header bytes and the body *)
Record frame := mk_frame { f_hdr : list N; f_body : list N }.

Definition f_raw (f : frame) : list N := f_hdr f ++ f_body f.
Definition f_version (f : frame) : N := nth 0 (f_hdr f) 0.
Definition f_flags (f : frame) : N := nth 1 (f_hdr f) 0.
(* `buf.get_i16()` as the raw u16 *)
Definition f_stream (f : frame) : N := nth 2 (f_hdr f) 0 * 256 + nth 3 (f_hdr f) 0.
Definition f_opcode (f : frame) : N := nth 4 (f_hdr f) 0.
(* `buf.get_u32()` *)
Definition f_len (f : frame) : N := be_dec (skipn 5 (f_hdr f)).

Inductive hdr_err :=
| FrameFromClient                     (* version & 0x80 != 0x80 *)
| VersionNotSupported (v : N)         (* version & 0x7f != 4 *)
| UnknownOpcode (o : N).              (* ResponseOpcode::try_from failed *)

(* ResponseOpcode::try_from: Error, Ready, Authenticate, Supported, Result, Event,
   AuthChallenge, AuthSuccess *)
Definition valid_opcode (o : N) : bool := existsb (N.eqb o) [0; 2; 3; 6; 8; 12; 14; 16].

(* take exactly n elements, n : N (a length field may be 2^32-1: never converted to nat) *)
Fixpoint ntake (n : N) (b : list N) : option (list N * list N) :=
  if n =? 0 then Some ([], b)
  else match b with
       | [] => None
       | x :: r => match ntake (n - 1) r with
                   | Some (a, r') => Some (x :: a, r')
                   | None => None
                   end
       end.

Inductive parse_res :=
| NeedMore                                  (* read_exact / read_buf still pending *)
| Bad (e : hdr_err)
| Got (f : frame) (rest : list N).

(* read_response_frame on the bytes buffered so far.  The header is validated only once all 9
   bytes are there (read_exact), the body is handed over only once `length` bytes arrived. *)
Definition parse_frame (buf : list N) : parse_res :=
  match ntake 9 buf with
  | None => NeedMore
  | Some (h, rest) =>
      let f0 := mk_frame h [] in
      if negb (N.land (f_version f0) 128 =? 128) then Bad FrameFromClient
      else if negb (N.land (f_version f0) 127 =? 4) then Bad (VersionNotSupported (N.land (f_version f0) 127))
      else if negb (valid_opcode (f_opcode f0)) then Bad (UnknownOpcode (f_opcode f0))
      else match ntake (f_len f0) rest with
           | None => NeedMore
           | Some (body, rest') => Got (mk_frame h body) rest'
           end
  end.

(* ---------------------------------------------------------------- the connection *)

Inductive err_kind :=
| EHeaderIo                (* FrameHeaderParseError::HeaderIoError: end of stream inside (or before) a header *)
| EClosedInBody            (* FrameHeaderParseError::ConnectionClosed: end of stream inside a body *)
| EHeader (e : hdr_err)    (* FrameHeaderParseError::{FrameFromClient,VersionNotSupported,UnknownResponseOpcode} *)
| EUnexpectedStream (s : N)(* BrokenConnectionErrorKind::UnexpectedStreamId *)
| EKeepaliveTimeout
| EKeepaliveRequest        (* the keepalive request itself failed *)
| EEnv (k : N).            (* WriteError, BodyChunkIoError/HeaderIoError(reset), TooManyOrphanedStreamIds,
                              CqlEventHandlingError: decided by the environment *)

Inductive outcome :=
| Resp (f : frame)           (* Ok(TaskResponse) *)
| FailBroken (e : err_kind)  (* the router sent Err(error) to the handler *)
| FailChannel                (* BrokenConnectionErrorKind::ChannelError: submit refused (receiver closed) *)
| FailAlloc.                 (* InternalRequestError::UnableToAllocStreamId *)

(* errors of the BrokenConnectionError class *)
Definition broken_class (o : outcome) : bool :=
  match o with FailBroken _ | FailChannel => true | _ => false end.

Inductive status :=
| Open
| TearingDown (e : err_kind)   (* try_join returned Err(e): reader/writer/orphaner/keepaliver are gone, the
                                  registered handlers are being failed; the task channel is still open *)
| Draining (e : err_kind)      (* receiver.close() done: submits are refused, delivered tasks are being failed *)
| Broken (e : err_kind).       (* router finished; error sent to error_sender *)

Record conn := mk_conn {
  c_status : status;
  c_rbuf : list N;
  c_handlers : list (N * N);
  c_orphans : list N;
  c_queue : list N;
  c_reserved : list N;
  c_notices : list N;
  c_ka : option N;
  c_done : list (N * outcome);
  c_submitted : list N;
  c_cancelled : list N;
  c_written : list (N * N);
  c_received : list N;
  c_consumed : list frame;
  c_events : list frame;
  c_control : bool;
  c_err_sent : bool
}.

Definition set_status (x : status) (st : conn) : conn :=
  mk_conn x (c_rbuf st) (c_handlers st) (c_orphans st) (c_queue st) (c_reserved st) (c_notices st) (c_ka st) (c_done st) (c_submitted st) (c_cancelled st) (c_written st) (c_received st) (c_consumed st) (c_events st) (c_control st) (c_err_sent st).
Definition set_rbuf (x : list N) (st : conn) : conn :=
  mk_conn (c_status st) x (c_handlers st) (c_orphans st) (c_queue st) (c_reserved st) (c_notices st) (c_ka st) (c_done st) (c_submitted st) (c_cancelled st) (c_written st) (c_received st) (c_consumed st) (c_events st) (c_control st) (c_err_sent st).
Definition set_handlers (x : list (N * N)) (st : conn) : conn :=
  mk_conn (c_status st) (c_rbuf st) x (c_orphans st) (c_queue st) (c_reserved st) (c_notices st) (c_ka st) (c_done st) (c_submitted st) (c_cancelled st) (c_written st) (c_received st) (c_consumed st) (c_events st) (c_control st) (c_err_sent st).
Definition set_orphans (x : list N) (st : conn) : conn :=
  mk_conn (c_status st) (c_rbuf st) (c_handlers st) x (c_queue st) (c_reserved st) (c_notices st) (c_ka st) (c_done st) (c_submitted st) (c_cancelled st) (c_written st) (c_received st) (c_consumed st) (c_events st) (c_control st) (c_err_sent st).
Definition set_queue (x : list N) (st : conn) : conn :=
  mk_conn (c_status st) (c_rbuf st) (c_handlers st) (c_orphans st) x (c_reserved st) (c_notices st) (c_ka st) (c_done st) (c_submitted st) (c_cancelled st) (c_written st) (c_received st) (c_consumed st) (c_events st) (c_control st) (c_err_sent st).
Definition set_reserved (x : list N) (st : conn) : conn :=
  mk_conn (c_status st) (c_rbuf st) (c_handlers st) (c_orphans st) (c_queue st) x (c_notices st) (c_ka st) (c_done st) (c_submitted st) (c_cancelled st) (c_written st) (c_received st) (c_consumed st) (c_events st) (c_control st) (c_err_sent st).
Definition set_notices (x : list N) (st : conn) : conn :=
  mk_conn (c_status st) (c_rbuf st) (c_handlers st) (c_orphans st) (c_queue st) (c_reserved st) x (c_ka st) (c_done st) (c_submitted st) (c_cancelled st) (c_written st) (c_received st) (c_consumed st) (c_events st) (c_control st) (c_err_sent st).
Definition set_ka (x : option N) (st : conn) : conn :=
  mk_conn (c_status st) (c_rbuf st) (c_handlers st) (c_orphans st) (c_queue st) (c_reserved st) (c_notices st) x (c_done st) (c_submitted st) (c_cancelled st) (c_written st) (c_received st) (c_consumed st) (c_events st) (c_control st) (c_err_sent st).
Definition set_done (x : list (N * outcome)) (st : conn) : conn :=
  mk_conn (c_status st) (c_rbuf st) (c_handlers st) (c_orphans st) (c_queue st) (c_reserved st) (c_notices st) (c_ka st) x (c_submitted st) (c_cancelled st) (c_written st) (c_received st) (c_consumed st) (c_events st) (c_control st) (c_err_sent st).
Definition set_submitted (x : list N) (st : conn) : conn :=
  mk_conn (c_status st) (c_rbuf st) (c_handlers st) (c_orphans st) (c_queue st) (c_reserved st) (c_notices st) (c_ka st) (c_done st) x (c_cancelled st) (c_written st) (c_received st) (c_consumed st) (c_events st) (c_control st) (c_err_sent st).
Definition set_cancelled (x : list N) (st : conn) : conn :=
  mk_conn (c_status st) (c_rbuf st) (c_handlers st) (c_orphans st) (c_queue st) (c_reserved st) (c_notices st) (c_ka st) (c_done st) (c_submitted st) x (c_written st) (c_received st) (c_consumed st) (c_events st) (c_control st) (c_err_sent st).
Definition set_written (x : list (N * N)) (st : conn) : conn :=
  mk_conn (c_status st) (c_rbuf st) (c_handlers st) (c_orphans st) (c_queue st) (c_reserved st) (c_notices st) (c_ka st) (c_done st) (c_submitted st) (c_cancelled st) x (c_received st) (c_consumed st) (c_events st) (c_control st) (c_err_sent st).
Definition set_received (x : list N) (st : conn) : conn :=
  mk_conn (c_status st) (c_rbuf st) (c_handlers st) (c_orphans st) (c_queue st) (c_reserved st) (c_notices st) (c_ka st) (c_done st) (c_submitted st) (c_cancelled st) (c_written st) x (c_consumed st) (c_events st) (c_control st) (c_err_sent st).
Definition set_consumed (x : list frame) (st : conn) : conn :=
  mk_conn (c_status st) (c_rbuf st) (c_handlers st) (c_orphans st) (c_queue st) (c_reserved st) (c_notices st) (c_ka st) (c_done st) (c_submitted st) (c_cancelled st) (c_written st) (c_received st) x (c_events st) (c_control st) (c_err_sent st).
Definition set_events (x : list frame) (st : conn) : conn :=
  mk_conn (c_status st) (c_rbuf st) (c_handlers st) (c_orphans st) (c_queue st) (c_reserved st) (c_notices st) (c_ka st) (c_done st) (c_submitted st) (c_cancelled st) (c_written st) (c_received st) (c_consumed st) x (c_control st) (c_err_sent st).
Definition set_control (x : bool) (st : conn) : conn :=
  mk_conn (c_status st) (c_rbuf st) (c_handlers st) (c_orphans st) (c_queue st) (c_reserved st) (c_notices st) (c_ka st) (c_done st) (c_submitted st) (c_cancelled st) (c_written st) (c_received st) (c_consumed st) (c_events st) x (c_err_sent st).
Definition set_err_sent (x : bool) (st : conn) : conn :=
  mk_conn (c_status st) (c_rbuf st) (c_handlers st) (c_orphans st) (c_queue st) (c_reserved st) (c_notices st) (c_ka st) (c_done st) (c_submitted st) (c_cancelled st) (c_written st) (c_received st) (c_consumed st) (c_events st) (c_control st) x.

Definition conn_init (control : bool) : conn :=
  mk_conn Open [] [] [] [] [] [] None [] [] [] [] [] [] [] control false.

Definition is_open (st : conn) : bool := match c_status st with Open => true | _ => false end.
(* receiver.close() has been called (or the router is gone) *)
Definition chan_closed (st : conn) : bool :=
  match c_status st with Draining _ | Broken _ => true | _ => false end.

(* handler map helpers: (stream id, request id) *)
Fixpoint find_stream (s : N) (h : list (N * N)) : option N :=
  match h with [] => None | (s', r) :: t => if s' =? s then Some r else find_stream s t end.
Fixpoint remove_stream (s : N) (h : list (N * N)) : list (N * N) :=
  match h with [] => [] | (s', r) :: t => if s' =? s then t else (s', r) :: remove_stream s t end.
Fixpoint find_rid (r : N) (h : list (N * N)) : option N :=
  match h with [] => None | (s, r') :: t => if r' =? r then Some s else find_rid r t end.
Definition nmem (x : N) (l : list N) : bool := existsb (N.eqb x) l.
Fixpoint nremove (x : N) (l : list N) : list N :=
  match l with [] => [] | y :: t => if y =? x then t else y :: nremove x t end.

(* try_join! returned Err(e): nothing of r/w/o/k runs any more *)
Definition fault (e : err_kind) (st : conn) : conn :=
  match c_status st with Open => set_status (TearingDown e) st | _ => st end.

(* a value is put into the oneshot of request r.  If r is the outstanding keepalive, the
   keepaliver sees it: a frame ends the wait, an error is returned by the keepaliver (fault). *)
Definition complete (r : N) (o : outcome) (st : conn) : conn :=
  let st1 := set_done (c_done st ++ [(r, o)]) st in
  match c_ka st1 with
  | Some k =>
      if k =? r then
        match o with
        | Resp _ => set_ka None st1
        | _ => fault EKeepaliveRequest (set_ka None st1)
        end
      else st1
  | None => st1
  end.

(* reader: what happens to one complete frame *)
Definition dispatch (f : frame) (st : conn) : conn :=
  let st := set_consumed (c_consumed st ++ [f]) st in
  let s := f_stream f in
  if 32768 <=? s then
    if s =? 65535 then
      (* stream -1: event.  Pool connections have no event sender: ignored.  On the control
         connection a non-EVENT frame is CqlEventHandlingError::UnexpectedResponse. *)
      if c_control st then
        if f_opcode f =? 12 then set_events (c_events st ++ [f]) st
        else fault (EEnv 3) st
      else st
    else st                              (* other negative streams: ignored *)
  else
    (* ResponseHandlerMap::lookup *)
    if nmem s (c_orphans st) then set_orphans (nremove s (c_orphans st)) st
    else match find_stream s (c_handlers st) with
         | Some r => complete r (Resp f) (set_handlers (remove_stream s (c_handlers st)) st)
         | None => fault (EUnexpectedStream s) st
         end.

(* reader loop on the buffered bytes; every frame takes at least 9 bytes, so
   fuel = S (length buffer) is enough (proved: drain_fuel_enough) *)
Fixpoint drain (fuel : nat) (st : conn) : conn :=
  match fuel with
  | O => st
  | S k =>
      if is_open st then
        match parse_frame (c_rbuf st) with
        | NeedMore => st
        | Bad e => fault (EHeader e) st
        | Got f rest => drain k (dispatch f (set_rbuf rest st))
        end
      else st
  end.

Inductive label :=
| Reserve (r : N)             (* a caller runs send_request with fresh request id r and gets a channel slot *)
| Push (r : N)                (* ... and puts its task into the slot *)
| KaTick (r : N)              (* the keepaliver issues OPTIONS with request id r *)
| WriterTake (s : option N)   (* writer takes the next task; Some s: allocated stream id; None: no id left *)
| Recv (bs : list N)          (* the socket hands a chunk to the reader *)
| Eof                         (* read returned 0 *)
| EnvFault (k : N)            (* io error on read/write, too many orphans, event handling error *)
| KaTimeout                   (* keepalive_timeout elapsed with the keepalive unanswered *)
| Drop (r : N)                (* the caller of r drops its future (OrphanhoodNotifier::drop) *)
| OrphanProc                  (* orphaner handles the next notification *)
| TdStep.                     (* one step of the end of router(): drop a queued task / fail a handler / finish *)

Definition step (st : conn) (l : label) : option conn :=
  match l with
  | Reserve r =>
      if nmem r (c_submitted st) then None
      else
        let st := set_submitted (c_submitted st ++ [r]) st in
        if chan_closed st then Some (complete r FailChannel st)   (* submit_channel.send fails *)
        else Some (set_reserved (c_reserved st ++ [r]) st)
  | Push r =>
      if nmem r (c_reserved st)
      then Some (set_queue (c_queue st ++ [r]) (set_reserved (nremove r (c_reserved st)) st))
      else None
  | KaTick r =>
      if nmem r (c_submitted st) then None
      else if negb (is_open st) then None
      else match c_ka st with
           | Some _ => None
           | None =>
               let st := set_submitted (c_submitted st ++ [r]) st in
               Some (set_ka (Some r) (set_queue (c_queue st ++ [r]) st))
           end
  | WriterTake so =>
      if negb (is_open st) then None
      else match c_queue st with
           | [] => None
           | r :: q =>
               match so with
               | Some s =>
                   if (s <? 32768) && negb (nmem s (map fst (c_handlers st))) && negb (nmem s (c_orphans st))
                   then Some (set_written (c_written st ++ [(s, r)])
                                (set_handlers (c_handlers st ++ [(s, r)]) (set_queue q st)))
                   else None
               | None =>
                   if 32768 <=? N.of_nat (List.length (c_handlers st) + List.length (c_orphans st))
                   then Some (complete r FailAlloc (set_queue q st))
                   else None
               end
           end
  | Recv bs =>
      if is_open st then
        let st := set_received (c_received st ++ bs) (set_rbuf (c_rbuf st ++ bs) st) in
        Some (drain (S (List.length (c_rbuf st))) st)
      else Some st
  | Eof =>
      if is_open st then
        Some (fault (if (List.length (c_rbuf st) <? 9)%nat then EHeaderIo else EClosedInBody) st)
      else None
  | EnvFault k => if is_open st then Some (fault (EEnv k) st) else None
  | KaTimeout =>
      if is_open st then
        match c_ka st with Some _ => Some (fault EKeepaliveTimeout st) | None => None end
      else None
  | Drop r =>
      if nmem r (c_submitted st) && negb (nmem r (map fst (c_done st))) && negb (nmem r (c_cancelled st))
      then Some (set_notices (c_notices st ++ [r]) (set_cancelled (c_cancelled st ++ [r]) st))
      else None
  | OrphanProc =>
      if negb (is_open st) then None
      else match c_notices st with
           | [] => None
           | r :: n =>
               let st := set_notices n st in
               match find_rid r (c_handlers st) with
               | Some s => Some (set_orphans (c_orphans st ++ [s])
                                   (set_handlers (remove_stream s (c_handlers st)) st))
               | None => Some st
               end
           end
  | TdStep =>
      match c_status st with
      | TearingDown e =>
          (* `for (_, handler) in response_handlers { handler.response_sender.send(Err(error)) }`,
             then `receiver.close()` *)
          match c_handlers st with
          | (s, r) :: h => Some (complete r (FailBroken e) (set_handlers h st))
          | [] => Some (set_status (Draining e) st)
          end
      | Draining e =>
          (* `while let Some(task) = receiver.recv().await { ...send(Err(error)) }`: a delivered task
             is failed; with nothing delivered, recv() ends the loop only when no slot is reserved,
             otherwise it waits (no step) for the [Push] of a reserved sender *)
          match c_queue st with
          | r :: q => Some (complete r (FailBroken e) (set_queue q st))
          | [] =>
              match c_reserved st with
              | [] => Some (set_err_sent true (set_status (Broken e) st))
              | _ :: _ => None
              end
          end
      | _ => None
      end
  end.

Fixpoint run (st : conn) (ls : list label) : option conn :=
  match ls with
  | [] => Some st
  | l :: r => match step st l with Some st' => run st' r | None => None end
  end.

Definition reachable (ctl : bool) (st : conn) : Prop := exists ls, run (conn_init ctl) ls = Some st.

(* requests a caller may still be waiting for *)
Definition pending_rids (st : conn) : list N :=
  map snd (c_handlers st) ++ c_queue st ++ c_reserved st.

(* number of teardown steps left *)
Definition td_measure (st : conn) : nat :=
  match c_status st with
  | TearingDown _ =>
      S (S (List.length (c_handlers st) + List.length (c_queue st) + 2 * List.length (c_reserved st)))
  | Draining _ => S (List.length (c_queue st) + 2 * List.length (c_reserved st))
  | _ => O
  end.

Fixpoint outcome_of (r : N) (d : list (N * outcome)) : option outcome :=
  match d with [] => None | (r', o) :: t => if r' =? r then Some o else outcome_of r t end.

(* ---------------------------------------------------------------- the router before /repo bbe7c96 *)
(* Until commit bbe7c96 ("fix: fail requests stranded in the submit channel when a connection's
   router ends") the end of router() dropped the receiver together with the writer future (which
   closes the channel and drops the tasks delivered so far) and then failed the handlers, without
   waiting for senders that already held a slot.  [old_finish] is that whole teardown in one go;
   it is NOT part of [step]; Props/C10.v uses it to show what the fix repaired. *)
Fixpoint complete_all (rs : list N) (o : outcome) (st : conn) : conn :=
  match rs with [] => st | r :: t => complete_all t o (complete r o st) end.

Definition old_finish (e : err_kind) (st : conn) : conn :=
  let st1 := complete_all (c_queue st) FailChannel (set_queue [] (set_status (Draining e) st)) in
  let st2 := complete_all (map snd (c_handlers st1)) (FailBroken e) (set_handlers [] st1) in
  set_err_sent true (set_status (Broken e) st2).

(* ---------------------------------------------------------------- the pool *)
(* PoolRefiller: conns (the refiller's own list), shared_conns (the snapshot handed to callers),
   connection_errors (error events not yet processed).  Connection ids are fresh numbers. *)
Record pool := mk_pool {
  p_conns : list N;        (* connections the refiller holds *)
  p_shared : list N;       (* what connection_for_shard / random_connection can return *)
  p_events : list N;       (* broken connections whose error event is not processed yet *)
  p_broken : list N;       (* ghost: every connection that broke *)
  p_seen : list N          (* ghost: every id ever added *)
}.
Definition pool_init : pool := mk_pool [] [] [] [] [].

Inductive plabel :=
| PAdd (c : N)        (* handle_ready_connection accepts a new connection: push + update_shared_conns *)
| PBreak (c : N)      (* the router of c ends with an error: error_sender fires *)
| PProcess (c : N)    (* run(): SOME ready connection_errors event (FuturesUnordered: any order)
                         -> remove_connection + update_shared_conns *)
| PGet (c : N).       (* a request picks connection c from the shared snapshot *)

Definition pstep (p : pool) (l : plabel) : option pool :=
  match l with
  | PAdd c =>
      if nmem c (p_seen p) then None
      else Some (mk_pool (p_conns p ++ [c]) (p_conns p ++ [c]) (p_events p) (p_broken p) (p_seen p ++ [c]))
  | PBreak c =>
      if nmem c (p_seen p) && negb (nmem c (p_broken p))
      then Some (mk_pool (p_conns p) (p_shared p) (p_events p ++ [c]) (p_broken p ++ [c]) (p_seen p))
      else None
  | PProcess c =>
      if nmem c (p_events p) then
        (* remove_connection: swap_remove from the bucket, then update_shared_conns *)
        let conns := filter (fun x => negb (x =? c)) (p_conns p) in
        Some (mk_pool conns conns (filter (fun x => negb (x =? c)) (p_events p)) (p_broken p) (p_seen p))
      else None
  | PGet c => if nmem c (p_shared p) then Some p else None
  end.

Fixpoint prun (p : pool) (ls : list plabel) : option pool :=
  match ls with
  | [] => Some p
  | l :: r => match pstep p l with Some p' => prun p' r | None => None end
  end.

(* ---------------------------------------------------------------- trace acceptor for the tie *)
(* What mocknode recorded for one connection, in its own order. *)
Inductive tev :=
| TIn (s r : N) (ka : bool)   (* request frame with stream s; r = request id given by the runner *)
| TOut (bs : list N)          (* bytes written by the mock *)
| TFin | TRst                 (* the mock cut the connection *)
| TClose.                     (* the client closed the connection *)

(* the schedule a trace stands for.  [keep] = how many TOut chunks reached the client
   before a reset (None = all): TCP may discard delivered-but-unread data on RST. *)
Fixpoint labels_of (keep : option nat) (t : list tev) : list label :=
  match t with
  | [] => []
  | TIn s r ka :: t' =>
      (if ka then [KaTick r] else [Reserve r; Push r]) ++ WriterTake (Some s) :: labels_of keep t'
  | TOut bs :: t' =>
      match keep with
      | Some O => labels_of keep t'
      | Some (S k) => Recv bs :: labels_of (Some k) t'
      | None => Recv bs :: labels_of None t'
      end
  | TFin :: _ => [Eof]
  | TRst :: _ => [EnvFault 1]
  | TClose :: _ => [KaTimeout]
  end.

(* run as far as the labels are enabled (a KaTimeout taken from a client close is not enabled
   when no keepalive is outstanding: the close was an ordinary one) *)
Fixpoint run_lenient (st : conn) (ls : list label) : conn :=
  match ls with
  | [] => st
  | l :: r => match step st l with Some st' => run_lenient st' r | None => run_lenient st r end
  end.

(* one step of finishing a teardown: the router's own step if it has one, else the push of a
   sender that holds a slot *)
Definition td_next (st : conn) : option conn :=
  match step st TdStep with
  | Some st' => Some st'
  | None => match c_reserved st with r :: _ => step st (Push r) | [] => None end
  end.

(* how many labels of a schedule [run_lenient] had to skip because they were not enabled.
   Tolerated: a [KaTimeout] derived from a client-side close (an ordinary close), and the writer /
   keepaliver steps of requests that the mock received AFTER it had written the bytes that broke
   the connection (the client wrote them before it read those bytes; in the model they stay in the
   channel and are failed by the drain with the router's error, like their handlers are in the
   code).  The driver reports any other skipped label as a broken correspondence: such a trace
   is NOT a run of the model. *)
Definition tolerated_skip (st : conn) (l : label) : bool :=
  match l with
  | KaTimeout => true
  | WriterTake _ | KaTick _ => negb (is_open st)
  | _ => false
  end.

Fixpoint skipped_labels (st : conn) (ls : list label) : nat :=
  match ls with
  | [] => O
  | l :: r =>
      match step st l with
      | Some st' => skipped_labels st' r
      | None => ((if tolerated_skip st l then 0 else 1) + skipped_labels st r)%nat
      end
  end.

(* the statement's retry clause as the driver evaluates it: a request seen on [attempts]
   connections is admissible iff it is idempotent or was sent at most once *)
Definition resend_ok (idempotent : bool) (attempts : nat) : bool :=
  idempotent || (attempts <=? 1)%nat.

Fixpoint teardown (fuel : nat) (st : conn) : conn :=
  match fuel with
  | O => st
  | S k => match td_next st with Some st' => teardown k st' | None => st end
  end.

(* the model's verdict for a recorded connection: final state after the schedule and the
   complete teardown (if a fault occurred) *)
Definition simulate (keep : option nat) (t : list tev) : conn :=
  let st := run_lenient (conn_init false) (labels_of keep t) in
  teardown (td_measure st) st.

(* property predicate on the implementation's own output: the frames completely written by the
   mock for stream s while request r held it *)
(* the complete frames at the front of one written chunk (a chunk may hold several frames) *)
Fixpoint frames_of (fuel : nat) (bs : list N) : list frame :=
  match fuel with
  | O => []
  | S k => match parse_frame bs with Got f rest => f :: frames_of k rest | _ => [] end
  end.

Fixpoint sent_for (s r : N) (armed : bool) (t : list tev) : list (list N) :=
  match t with
  | [] => []
  | TIn s' r' _ :: t' =>
      if s' =? s then sent_for s r (r' =? r) t' else sent_for s r armed t'
  | TOut bs :: t' =>
      if armed then
        map f_body (filter (fun f => f_stream f =? s) (frames_of (List.length bs) bs)) ++ sent_for s r armed t'
      else sent_for s r armed t'
  | _ :: t' => sent_for s r armed t'
  end.

(* the same information for all requests of a connection in one pass: every complete frame the mock
   wrote, paired with the request that held the frame's stream id at that moment ([holders] = the
   last request frame seen per stream id) *)
Fixpoint sent_table (holders : list (N * N)) (t : list tev) : list (N * list N) :=
  match t with
  | [] => []
  | TIn s r _ :: t' => sent_table ((s, r) :: remove_stream s holders) t'
  | TOut bs :: t' =>
      flat_map (fun f => match find_stream (f_stream f) holders with
                         | Some r => [(r, f_body f)]
                         | None => []
                         end) (frames_of (List.length bs) bs)
      ++ sent_table holders t'
  | _ :: t' => sent_table holders t'
  end.

Fixpoint streams_of (r : N) (t : list tev) : list N :=
  match t with
  | [] => []
  | TIn s r' _ :: t' => if r' =? r then s :: streams_of r t' else streams_of r t'
  | _ :: t' => streams_of r t'
  end.

(* was [body] completely written, on some recorded connection, as the answer to request r? *)
Definition justified (r : N) (body : list N) (conns : list (list tev)) : bool :=
  existsb (fun t =>
    existsb (fun s => existsb (fun b => if list_eq_dec N.eq_dec b body then true else false)
                               (sent_for s r false t))
            (streams_of r t)) conns.

(* ---------------------------------------------------------------- what the driver accepts *)
(* What one client future returned, as the runner reports it. *)
Inductive cres :=
| ROk (marker padlen : N) (intact : bool)   (* a row was handed to the caller: its marker, padding length, and
                                               whether the bytes are the ones the scenario generates for that marker *)
| RErr                                       (* an error was returned *)
| RCancelled                                 (* the caller dropped the future *)
| RHang                                      (* not completed within the bound *)
| RPanic.                                    (* the client task panicked *)

(* request id the runner gives to the request with marker m (handshake frames get odd ids) *)
Definition rid_of_marker (m : N) : N := 2 * m.

(* the runner's echo body: <prefix: result kind, metadata, row count> <int len> <8 byte marker> <padding>;
   Some (marker, padding length) iff the body has exactly that shape with the expected prefix *)
Definition echo_of (prefix body : list N) : option (N * N) :=
  match take (List.length prefix) body with
  | Some (p, rest) =>
      if list_eq_dec N.eq_dec p prefix then
        match take 4 rest with
        | Some (l, cell) =>
            if (be_dec l =? N.of_nat (List.length cell)) && (8 <=? be_dec l) then
              match take 8 cell with
              | Some (mk, pad) => Some (be_dec mk, N.of_nat (List.length pad))
              | None => None
              end
            else None
        | None => None
        end
      else None
  | None => None
  end.

Definition seen_on (rid : N) (t : list tev) : bool :=
  match streams_of rid t with [] => false | _ => true end.

(* one result is acceptable: an error / a cancellation, or the request's OWN marker, intact, and a
   body with exactly that marker and padding length was completely written for that request *)
Definition res_accept (prefix : list N) (conns : list (list tev)) (own : N) (r : cres) : bool :=
  match r with
  | ROk m p intact =>
      (m =? own) && intact &&
      existsb (fun t => existsb (fun e => (fst e =? rid_of_marker own) &&
                                          match echo_of prefix (snd e) with
                                          | Some (m', p') => (m' =? m) && (p' =? p)
                                          | None => false
                                          end) (sent_table [] t)) conns
  | RErr | RCancelled => true
  | RHang | RPanic => false
  end.

Fixpoint results_accept (prefix : list N) (idem : bool) (conns : list (list tev)) (own : N) (rs : list cres) : bool :=
  match rs with
  | [] => true
  | r :: t =>
      res_accept prefix conns own r &&
      resend_ok idem (List.length (filter (seen_on (rid_of_marker own)) conns)) &&
      results_accept prefix idem conns (own + 1) t
  end.

(* the conjunction the driver evaluates before every `ok`: the results of requests 1, 2, ... *)
Definition accept_obs (prefix : list N) (idem : bool) (conns : list (list tev)) (rs : list cres) : bool :=
  results_accept prefix idem conns 1 rs.

(* ---------------------------------------------------------------- the pool, as seen at the mock *)
(* Pool-level events of one node in the order the mock logged them: the STARTUP frame of a pool connection
   arrived (the connection is about to enter the pool), a request frame arrived on a connection, a
   handshaken connection was closed (cut by the mock, or closed by the client -- a stall becomes a break
   only when the client closes after its keepalive timeout). *)
Inductive pev := EvAdd (c : N) | EvGet (c : N) | EvBreak (c : N).

(* the schedule of the pool machine such a trace stands for: the refiller opens a replacement only after it
   has processed the error events (remove_connection -> need_filling -> start_filling), so every connection
   that broke before a new one appears has been processed by then *)
Fixpoint pool_labels (unprocessed : list N) (es : list pev) : list plabel :=
  match es with
  | [] => []
  | EvAdd c :: r => map PProcess unprocessed ++ PAdd c :: pool_labels [] r
  | EvGet c :: r => PGet c :: pool_labels unprocessed r
  | EvBreak c :: r => PBreak c :: pool_labels (unprocessed ++ [c]) r
  end.

Definition pool_accept (es : list pev) : bool :=
  match prun pool_init (pool_labels [] es) with Some _ => true | None => false end.
