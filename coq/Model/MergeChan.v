(* Model of scylla/src/cluster/metadata/merge_channel.rs (property C19): the single-producer
   single-consumer, capacity-one, merge-on-send channel between the metadata worker and the
   cluster worker, together with a model of tokio::sync::Notify (tokio 1.53, notify.rs) at the
   granularity the channel uses it: one waiter at most, notify_one / notified() / enable() /
   poll / drop of a Notified future.  Executable definitions only; proofs are in
   Proofs/MergeChan_proofs.v.

   Atomic steps = the code's atomic actions: one atomic load/store, one critical section of the
   slot mutex, one operation on the Notify (its state word and waiter list are protected by its
   own lock / SeqCst CAS).  Acquire/Release atomics are modelled as sequentially consistent.

   An update is a tag (N); merging = appending to the list of tags in the slot (the abstract
   monoid of updates; every closure the driver passes to `modify` first does
   `slot.get_or_insert_default()` and then merges into it, see cluster/metadata/update.rs).
   The closure handed to `modify` is one of three classes (the API allows all of them, see the
   doc comment of Sender::modify and the crate's test modify_may_decide_not_to_send):
   [CMerge x] merges an update in (inflationary), [CNoop] leaves the slot as it is,
   [CClear] sets the slot to None - it retracts whatever was pending.  The driver's own closures
   are all of the first class (Model/MetaUpdate.v, C19_merge_never_clears + census). *)
From SV Require Import Base.Prelude Model.Sched.
Open Scope N_scope.

Definition upd := N.
Inductive closure := CMerge (x : upd) | CNoop | CClear.

(* ---- tokio::sync::Notify, restricted to at most one Notified future -------------------- *)
(* the single waiter node: not in the list / linked in the list (with or without a stored
   waker: `enable()` registers without one, the first real poll stores it) / unlinked by
   notify_one with `notification = One` set and not yet observed by its future *)
Inductive waiter := NoWaiter | Registered (has_waker : bool) | Notified.
(* local state of the Notified future after creation + enable(): Waiting (registered) or Done
   (it consumed the stored permit) *)
Inductive fut := FWaiting | FDone.

(* ---- program counters ------------------------------------------------------------------ *)
Inductive spc :=
| SIdle                       (* between calls *)
| SChecked                    (* modify: receiver_dropped was false *)
| SNeedNotify                 (* modify: closure applied under the mutex, slot is Some *)
| SDropping                   (* Drop for Sender: flag stored, notify_one to come *)
| SGone.

Inductive rpc :=
| RIdle                                   (* no recv future alive *)
| RTop                                    (* inside a poll, top of `loop` *)
| REnabled (f : fut)                      (* notified created and enabled; next: take() *)
| RAfterTake (f : fut)                    (* slot was empty; next: load sender_dropped *)
| RRetaking (f : fut)                       (* sender_dropped was true; next: take() again *)
| RReturning (f : fut) (v : option (list upd))  (* `return v`; next: drop of `notified` *)
| RAwait (f : fut)                        (* next: poll `notified` *)
| RParked                                 (* poll returned Pending at `notified.await` *)
| RGone.                                  (* Drop for Receiver done *)

(* what a receive call handed to its caller (ghost log) *)
Inductive ret := RecvRet (v : option (list upd)) | TryRet (v : option (list upd)).
Definition ret_val (r : ret) : list upd :=
  match r with RecvRet (Some l) | TryRet (Some l) => l | _ => [] end.

Record state := mkState {
  slot : option (list upd);       (* Mutex<Option<T>> *)
  permit : bool;                  (* Notify state == NOTIFIED (one stored permit) *)
  wtr : waiter;
  sender_dropped : bool;
  receiver_dropped : bool;
  s_pc : spc;
  r_pc : rpc;
  (* ghost / observation *)
  merged : list upd;              (* every update merged in so far, in order *)
  delivered : list ret;           (* every value returned by recv / try_recv, in order *)
  send_results : list bool;       (* results of modify, in order: true = Ok, false = Err(SendError) *)
  wakes : nat;                    (* number of Waker::wake calls made by the Notify *)
  woken : bool                    (* a wake was issued since the receiver last parked *)
}.

Definition init : state :=
  mkState None false NoWaiter false false SIdle RIdle [] [] [] O false.

Inductive label :=
(* Sender::modify *)
| SCheck                          (* if receiver_dropped.load() { return Err } *)
| SMerge (c : closure)            (* lock; f(&mut slot); has_value = slot.is_some(); unlock *)
| SNotify                         (* if has_value { notify_one() }; Ok(()) *)
(* Drop for Sender *)
| SDropFlag                       (* sender_dropped.store(true) *)
| SDropNotify                     (* notify_one() *)
(* Receiver::recv, one label per atomic action of the loop *)
| RStart                          (* notified = notify.notified(); notified.enable() *)
| RTake                           (* take() *)
| RCheckDropped                   (* sender_dropped.load() *)
| RRetake                         (* return take() *)
| RDropFut                        (* `notified` goes out of scope at `return` *)
| RPollNotified                   (* notified.await: one poll (also the re-poll of a parked future) *)
| RCancel                         (* the parked recv future is dropped *)
| RDropReceiver                   (* Drop for Receiver *)
| RTryRecv.                       (* Receiver::try_recv *)

(* Notify::notify_one: hand the notification to the registered waiter (waking its waker if it
   stored one), else store at most one permit *)
Definition notify_one (s : state) : state :=
  match wtr s with
  | Registered w =>
      mkState (slot s) (permit s) Notified (sender_dropped s) (receiver_dropped s) (s_pc s) (r_pc s)
              (merged s) (delivered s) (send_results s)
              (if w then S (wakes s) else wakes s) (if w then true else woken s)
  | NoWaiter | Notified =>
      mkState (slot s) true (wtr s) (sender_dropped s) (receiver_dropped s) (s_pc s) (r_pc s)
              (merged s) (delivered s) (send_results s) (wakes s) (woken s)
  end.

(* Drop for Notified (drop_notified): a Waiting future unlinks its waiter; if the waiter had
   been notified by notify_one and the future never saw it, the notification is passed on -
   with no other waiter that means: stored back as the permit *)
Definition drop_notified (f : fut) (p : bool) (w : waiter) : bool * waiter :=
  match f with
  | FDone => (p, w)
  | FWaiting => match w with Notified => (true, NoWaiter) | _ => (p, NoWaiter) end
  end.

Definition set_s (s : state) (p : spc) : state :=
  mkState (slot s) (permit s) (wtr s) (sender_dropped s) (receiver_dropped s) p (r_pc s)
          (merged s) (delivered s) (send_results s) (wakes s) (woken s).
Definition set_r (s : state) (p : rpc) : state :=
  mkState (slot s) (permit s) (wtr s) (sender_dropped s) (receiver_dropped s) (s_pc s) p
          (merged s) (delivered s) (send_results s) (wakes s) (woken s).
Definition add_result (s : state) (b : bool) : state :=
  mkState (slot s) (permit s) (wtr s) (sender_dropped s) (receiver_dropped s) (s_pc s) (r_pc s)
          (merged s) (delivered s) (send_results s ++ [b]) (wakes s) (woken s).

(* the closure applied to the slot *)
Definition merge_slot (sl : option (list upd)) (c : closure) : option (list upd) :=
  match c with
  | CNoop => sl
  | CClear => None
  | CMerge x => Some (match sl with Some l => l ++ [x] | None => [x] end)
  end.
(* ghost: [merged] = the updates merged in and not retracted by the producer.  A clearing closure
   retracts exactly the content of the slot, which is the tail of [merged] *)
Definition drop_last (n : nat) (l : list upd) : list upd := firstn (List.length l - n) l.
Definition merged_after (mg : list upd) (sl : option (list upd)) (c : closure) : list upd :=
  match c with
  | CMerge x => mg ++ [x]
  | CNoop => mg
  | CClear => drop_last (List.length (match sl with Some l => l | None => [] end)) mg
  end.

Definition step (s : state) (lb : label) : option state :=
  match lb with
  | SCheck =>
      match s_pc s with
      | SIdle => if receiver_dropped s then Some (add_result s false) else Some (set_s s SChecked)
      | _ => None
      end
  | SMerge u =>
      match s_pc s with
      | SChecked =>
          let sl := merge_slot (slot s) u in
          let s1 := mkState sl (permit s) (wtr s) (sender_dropped s) (receiver_dropped s)
                            (match sl with Some _ => SNeedNotify | None => SIdle end) (r_pc s)
                            (merged_after (merged s) (slot s) u) (delivered s) (send_results s) (wakes s) (woken s) in
          Some (match sl with Some _ => s1 | None => add_result s1 true end)
      | _ => None
      end
  | SNotify =>
      match s_pc s with
      | SNeedNotify => Some (add_result (set_s (notify_one s) SIdle) true)
      | _ => None
      end
  | SDropFlag =>
      match s_pc s with
      | SIdle => Some (mkState (slot s) (permit s) (wtr s) true (receiver_dropped s) SDropping (r_pc s)
                               (merged s) (delivered s) (send_results s) (wakes s) (woken s))
      | _ => None
      end
  | SDropNotify =>
      match s_pc s with
      | SDropping => Some (set_s (notify_one s) SGone)
      | _ => None
      end
  | RStart =>
      match r_pc s with
      | RIdle | RTop =>
          if permit s
          then Some (mkState (slot s) false (wtr s) (sender_dropped s) (receiver_dropped s) (s_pc s)
                             (REnabled FDone) (merged s) (delivered s) (send_results s) (wakes s) (woken s))
          else Some (mkState (slot s) false (Registered false) (sender_dropped s) (receiver_dropped s) (s_pc s)
                             (REnabled FWaiting) (merged s) (delivered s) (send_results s) (wakes s) (woken s))
      | _ => None
      end
  | RTake =>
      match r_pc s with
      | REnabled f =>
          match slot s with
          | Some v => Some (mkState None (permit s) (wtr s) (sender_dropped s) (receiver_dropped s) (s_pc s)
                                    (RReturning f (Some v)) (merged s) (delivered s) (send_results s)
                                    (wakes s) (woken s))
          | None => Some (set_r s (RAfterTake f))
          end
      | _ => None
      end
  | RCheckDropped =>
      match r_pc s with
      | RAfterTake f => Some (set_r s (if sender_dropped s then RRetaking f else RAwait f))
      | _ => None
      end
  | RRetake =>
      match r_pc s with
      | RRetaking f => Some (mkState None (permit s) (wtr s) (sender_dropped s) (receiver_dropped s) (s_pc s)
                                   (RReturning f (slot s)) (merged s) (delivered s) (send_results s)
                                   (wakes s) (woken s))
      | _ => None
      end
  | RDropFut =>
      match r_pc s with
      | RReturning f v =>
          let (p, w) := drop_notified f (permit s) (wtr s) in
          Some (mkState (slot s) p w (sender_dropped s) (receiver_dropped s) (s_pc s) RIdle
                        (merged s) (delivered s ++ [RecvRet v]) (send_results s) (wakes s) (woken s))
      | _ => None
      end
  | RPollNotified =>
      let poll_waiting :=
        match wtr s with
        | Notified =>       (* notification observed: Ready, waiter node cleared *)
            Some (mkState (slot s) (permit s) NoWaiter (sender_dropped s) (receiver_dropped s) (s_pc s) RTop
                          (merged s) (delivered s) (send_results s) (wakes s) (woken s))
        | Registered _ =>   (* store the task's waker, Pending *)
            Some (mkState (slot s) (permit s) (Registered true) (sender_dropped s) (receiver_dropped s) (s_pc s)
                          RParked (merged s) (delivered s) (send_results s) (wakes s)
                          (match r_pc s with RParked => woken s | _ => false end))
        | NoWaiter => None  (* a Waiting future always has its waiter node: unreachable *)
        end in
      match r_pc s with
      | RAwait FDone => Some (set_r s RTop)
      | RAwait FWaiting => poll_waiting
      | RParked => poll_waiting
      | _ => None
      end
  | RCancel =>
      match r_pc s with
      | RParked =>
          let (p, w) := drop_notified FWaiting (permit s) (wtr s) in
          Some (mkState (slot s) p w (sender_dropped s) (receiver_dropped s) (s_pc s) RIdle
                        (merged s) (delivered s) (send_results s) (wakes s) (woken s))
      | _ => None
      end
  | RDropReceiver =>
      match r_pc s with
      | RIdle => Some (mkState (slot s) (permit s) (wtr s) (sender_dropped s) true (s_pc s) RGone
                               (merged s) (delivered s) (send_results s) (wakes s) (woken s))
      | _ => None
      end
  | RTryRecv =>
      match r_pc s with
      | RIdle => Some (mkState None (permit s) (wtr s) (sender_dropped s) (receiver_dropped s) (s_pc s) RIdle
                               (merged s) (delivered s ++ [TryRet (slot s)]) (send_results s)
                               (wakes s) (woken s))
      | _ => None
      end
  end.

(* ---- observations used by the theorems --------------------------------------------------- *)
Definition slot_list (s : state) : list upd := match slot s with Some l => l | None => [] end.
(* taken out of the slot, not yet handed to the caller *)
Definition in_flight (s : state) : list upd :=
  match r_pc s with RReturning _ (Some l) => l | _ => [] end.
Definition delivered_values (s : state) : list upd := concat (map ret_val (delivered s)).

(* ---- the operations of the two endpoints as the tie drives them (poll granularity) -------- *)
Inductive poll_result := Pending | Ready (v : option (list upd)).

(* Sender::modify run to completion: Some (state, Ok?) *)
Definition op_modify (u : closure) (s : state) : option (state * bool) :=
  match step s SCheck with
  | None => None
  | Some s1 =>
      match s_pc s1 with
      | SIdle => Some (s1, false)                (* Err(SendError) *)
      | _ =>
          match step s1 (SMerge u) with
          | None => None
          | Some s2 =>
              match s_pc s2 with
              | SNeedNotify => match step s2 SNotify with Some s3 => Some (s3, true) | None => None end
              | _ => Some (s2, true)
              end
          end
      end
  end.

(* drop(sender) *)
Definition op_drop_sender (s : state) : option state :=
  match step s SDropFlag with Some s1 => step s1 SDropNotify | None => None end.

(* the next atomic action of the receiver inside a poll *)
Definition next_label (p : rpc) : option label :=
  match p with
  | RTop => Some RStart
  | REnabled _ => Some RTake
  | RAfterTake _ => Some RCheckDropped
  | RRetaking _ => Some RRetake
  | RReturning _ _ => Some RDropFut
  | RAwait _ => Some RPollNotified
  | RIdle | RParked | RGone => None
  end.

(* run the receiver until the poll returns; [None] = out of fuel or stuck (excluded by theorem) *)
Fixpoint poll_loop (fuel : nat) (s : state) : option (state * poll_result) :=
  match fuel with
  | O => None
  | S k =>
      match r_pc s with
      | RParked => Some (s, Pending)
      | RReturning _ v =>
          match step s RDropFut with Some s' => Some (s', Ready v) | None => None end
      | p => match next_label p with
             | Some lb => match step s lb with Some s' => poll_loop k s' | None => None end
             | None => None
             end
      end
  end.

Definition poll_fuel : nat := 24.

(* one poll of the recv future: a fresh future when none is alive, else the parked one *)
Definition op_poll (s : state) : option (state * poll_result) :=
  match r_pc s with
  | RIdle => match step s RStart with Some s1 => poll_loop poll_fuel s1 | None => None end
  | RParked => match step s RPollNotified with Some s1 => poll_loop poll_fuel s1 | None => None end
  | _ => None
  end.

(* ---- the scripted operations of the exhaustive tie -------------------------------------- *)
Inductive op := OMerge (x : upd) | ONoop | OClear | ODropSender | OPoll | OCancel | ODropReceiver | OTry.
(* what the harness observes of one operation *)
Inductive obs :=
| ObsSend (ok : bool) | ObsUnit | ObsPoll (r : poll_result) | ObsTry (v : option (list upd)).

Definition run_op (o : op) (s : state) : option (state * obs) :=
  match o with
  | OMerge x => match op_modify (CMerge x) s with Some (s', b) => Some (s', ObsSend b) | None => None end
  | ONoop => match op_modify CNoop s with Some (s', b) => Some (s', ObsSend b) | None => None end
  | OClear => match op_modify CClear s with Some (s', b) => Some (s', ObsSend b) | None => None end
  | ODropSender => match op_drop_sender s with Some s' => Some (s', ObsUnit) | None => None end
  | OPoll => match op_poll s with Some (s', r) => Some (s', ObsPoll r) | None => None end
  | OCancel => match step s RCancel with Some s' => Some (s', ObsUnit) | None => None end
  | ODropReceiver => match step s RDropReceiver with Some s' => Some (s', ObsUnit) | None => None end
  | OTry => match step s RTryRecv with Some s' => Some (s', ObsTry (slot s)) | None => None end
  end.

(* run a script from a state; per operation: the observation and the cumulative wake count.
   [None] = the script applies an operation where it is not available (e.g. poll after the
   receiver was dropped) *)
Fixpoint run_ops (os : list op) (s : state) : option (list (obs * nat)) :=
  match os with
  | [] => Some []
  | o :: r =>
      match run_op o s with
      | Some (s', ob) =>
          match run_ops r s' with Some tl => Some ((ob, wakes s') :: tl) | None => None end
      | None => None
      end
  end.

(* ---- the specification at poll granularity, written from the property text ----------------
   An abstract queue: [a_pend] = updates merged and not yet received (in order).  Demanded:
   * merge: Ok iff the consumer still exists ("the producer learns when the consumer is gone");
     an accepted update is appended to the pending ones;
   * poll of recv: all pending updates, in order, in ONE value, if there are any ("every update is
     observed in exactly one received value, in order"); else None if the producer is gone ("it
     learns of the producer's disappearance only after taking the last pending value"); else
     Pending;
   * cancel: drops the wait, nothing else;
   * whenever the consumer is parked and a value is pending or the producer is gone, a wake-up
     has been issued since it parked ("woken whenever a value is pending, also when its wait is
     cancelled and restarted").
   [None] = the operation is not available in that state (endpoint already dropped, ...). *)
Record astate := mkA {
  a_pend : list upd; a_salive : bool; a_ralive : bool; a_parked : bool;
  a_base : nat   (* wake count when the consumer parked *)
}.
Definition a_init : astate := mkA [] true true false O.
Definition opt_of_list (l : list upd) : option (list upd) := match l with [] => None | _ => Some l end.

Definition spec_op (o : op) (a : astate) (wk : nat) : option (obs * astate) :=
  match o with
  | OMerge x =>
      if a_salive a
      then if a_ralive a
           then Some (ObsSend true, mkA (a_pend a ++ [x]) true true (a_parked a) (a_base a))
           else Some (ObsSend false, a)
      else None
  | ONoop => if a_salive a then Some (ObsSend (a_ralive a), a) else None
  | OClear =>      (* the producer retracts what is pending (if the consumer still exists) *)
      if a_salive a
      then if a_ralive a
           then Some (ObsSend true, mkA [] true true (a_parked a) (a_base a))
           else Some (ObsSend false, a)
      else None
  | ODropSender =>
      if a_salive a then Some (ObsUnit, mkA (a_pend a) false (a_ralive a) (a_parked a) (a_base a)) else None
  | OPoll =>
      if a_ralive a
      then match a_pend a with
           | _ :: _ => Some (ObsPoll (Ready (Some (a_pend a))), mkA [] (a_salive a) true false (a_base a))
           | [] => if a_salive a
                   then Some (ObsPoll Pending, mkA [] true true true wk)
                   else Some (ObsPoll (Ready None), mkA [] false true false (a_base a))
           end
      else None
  | OCancel =>
      if a_parked a then Some (ObsUnit, mkA (a_pend a) (a_salive a) (a_ralive a) false (a_base a)) else None
  | ODropReceiver =>
      if a_ralive a && negb (a_parked a)
      then Some (ObsUnit, mkA (a_pend a) (a_salive a) false false (a_base a)) else None
  | OTry =>
      if a_ralive a && negb (a_parked a)
      then Some (ObsTry (opt_of_list (a_pend a)), mkA [] (a_salive a) true false (a_base a)) else None
  end.

Definition wake_ok (a : astate) (wk : nat) : bool :=
  if a_parked a && (match a_pend a with [] => false | _ => true end || negb (a_salive a))
  then (a_base a <? wk)%nat else true.

Fixpoint list_eqb (a b : list N) : bool :=
  match a, b with
  | [], [] => true
  | x :: a', y :: b' => (x =? y) && list_eqb a' b'
  | _, _ => false
  end.
Definition optl_eqb (a b : option (list N)) : bool :=
  match a, b with
  | None, None => true
  | Some x, Some y => list_eqb x y
  | _, _ => false
  end.
Definition obs_eqb (a b : obs) : bool :=
  match a, b with
  | ObsSend x, ObsSend y => Bool.eqb x y
  | ObsUnit, ObsUnit => true
  | ObsPoll Pending, ObsPoll Pending => true
  | ObsPoll (Ready x), ObsPoll (Ready y) => optl_eqb x y
  | ObsTry x, ObsTry y => optl_eqb x y
  | _, _ => false
  end.

(* THE PROPERTY PREDICATE on an observed trace (one (observation, cumulative wake count) per
   operation of the script) *)
Fixpoint spec_check (os : list op) (a : astate) (tr : list (obs * nat)) : bool :=
  match os, tr with
  | [], [] => true
  | o :: os', (ob, wk) :: tr' =>
      match spec_op o a wk with
      | Some (ob', a') => obs_eqb ob ob' && wake_ok a' wk && spec_check os' a' tr'
      | None => false
      end
  | _, _ => false
  end.

(* which scripts the specification allows at all (availability of each operation; it does not
   depend on the wake counts) *)
Fixpoint spec_avail (os : list op) (a : astate) : bool :=
  match os with
  | [] => true
  | o :: r => match spec_op o a O with Some (_, a') => spec_avail r a' | None => false end
  end.

(* ---- acceptor of the multi-thread stress ------------------------------------------------
   The producer merges the tags 0, 1, ..., n-1 in order; the consumer records every received
   batch.  A batch is transported run-length encoded as maximal runs (start, len) of consecutive
   tags; [expand] is the decoding.  [stress_ok n batches] <-> the concatenation of all received
   batches is exactly 0 .. n-1 (C19_stress_ok_sound). *)
Definition expand_run (r : N * N) : list N := nrange (fst r) (N.to_nat (snd r)).
Definition expand (runs : list (N * N)) : list N := concat (map expand_run runs).

Fixpoint runs_from (expect : N) (runs : list (N * N)) : option N :=
  match runs with
  | [] => Some expect
  | (a, len) :: r => if (a =? expect) then runs_from (expect + len) r else None
  end.
Fixpoint batches_from (expect : N) (batches : list (list (N * N))) : option N :=
  match batches with
  | [] => Some expect
  | b :: r => match runs_from expect b with Some e => batches_from e r | None => None end
  end.
Definition expand_batches (batches : list (list (N * N))) : list N := concat (map expand batches).
Definition stress_ok (n : N) (batches : list (list (N * N))) : bool :=
  match batches_from 0 batches with Some e => e =? n | None => false end.
