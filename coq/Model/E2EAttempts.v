(* End-to-end half of C06 (and the fiber part of C13's): what a mock cluster sees of ONE logical
   request (one page) sent through a real Session, and checkers that decide whether the observed
   request frames are runs of the execution-loop model [fiber] of Model/Fiber.v.

   The mock records, for every QUERY / EXECUTE / BATCH frame that carries the request's marker:
   the node it arrived on, the consistency in the frame, the arrival instant, the answer it gave
   (scripted: a RESULT, an ERROR, or a cut connection) and the instant that answer was logged
   (before it was written to the socket).  All instants are readings of one clock.

   The checkers are CERTIFICATE checkers: the (untrusted) driver proposes, per fiber, the plan the
   fiber walked and the outcome stream it consumed; the checker runs the model on them and
   compares the model's attempts with the frames.  Acceptance therefore exhibits a run of the
   model (Proofs/E2EAttempts_proofs.v); what a connection pool did (a target skipped because its
   pool had no connection) is not visible to the mock and is part of the certificate, restricted
   to nodes whose connection the mock has cut ([down]).

   Executable definitions only. *)
From SV Require Import Base.Prelude Model.Retry Model.Fiber.
Open Scope N_scope.

Definition memN (x : N) (l : list N) : bool := existsb (N.eqb x) l.

Fixpoint nodupb (l : list N) : bool :=
  match l with
  | [] => true
  | x :: r => negb (memN x r) && nodupb r
  end.

(* ---- observation ------------------------------------------------------------------------ *)
Inductive answer :=
| AnsNone                         (* no answer was logged (yet) *)
| AnsOk                           (* a RESULT frame *)
| AnsErr (e : attempt_error).     (* an ERROR frame; a cut connection = EBrokenConnectionError *)

Record frame := mkFrame {
  f_node : N;
  f_cl : consistency;             (* consistency field of the frame *)
  f_arr : N;                      (* arrival instant *)
  f_ans : answer;
  f_done : N;                     (* instant the answer was logged; meaningful unless AnsNone *)
  f_shard : N                     (* server-side shard of the connection the frame arrived on *)
}.

(* what the caller of the session API got *)
Inductive ores :=
| OCompleted                      (* the response of an attempt *)
| OIgnored                        (* the synthetic empty result of IgnoreWriteError *)
| OOk                             (* a success of either kind (BATCH: both are void) *)
| OFailed (e : last_err)          (* LastAttemptError e / ConnectionPoolError *)
| OEmptyPlan.

Definition res_match (r : fiber_result N) (o : ores) : bool :=
  match r, o with
  | RCompleted _, OCompleted | RCompleted _, OOk => true
  | RIgnoredWriteError _, OIgnored | RIgnoredWriteError _, OOk => true
  | RFailed LConn, OFailed LConn => true
  | RFailed (LAttempt e), OFailed (LAttempt e') => if attempt_error_eq_dec e e' then true else false
  | REmptyPlan, OEmptyPlan => true
  | _, _ => false
  end.

(* the coordinator the result names (when the API exposes one) is the target of the attempt whose
   answer was returned *)
Definition coord_match (co : option N) (r : fiber_result N) : bool :=
  match co, r with
  | Some n, RCompleted t | Some n, RIgnoredWriteError t => n =? t
  | _, _ => true
  end.

(* ---- one fiber ---------------------------------------------------------------------------- *)
(* an attempt of the model against a frame; [free]: the frame's answer is not compared *)
Definition ev_matches (free : bool) (ev : event N) (f : frame) : bool :=
  match ev with
  | EvConnFail _ => false
  | EvAttempt t cl o =>
      (t =? f_node f)
      && (if consistency_eq_dec cl (f_cl f) then true else false)
      && (free || match o, f_ans f with
                  | AOk, AnsOk => true
                  | AErr e _, AnsErr e' => if attempt_error_eq_dec e e' then true else false
                  | _, _ => false
                  end)
  end.

Definition is_nil {A} (l : list A) : bool := match l with [] => true | _ :: _ => false end.

(* the model's attempts against the frames, one to one and in order.  [free_last]: the answer of
   the LAST frame is not compared (a fiber that was cancelled while that frame was in flight; its
   certificate feeds the model a success for it) *)
Fixpoint match_frames (free_last : bool) (evs : list (event N)) (frs : list frame) : bool :=
  match evs, frs with
  | [], [] => true
  | ev :: evs', f :: frs' =>
      ev_matches (free_last && is_nil frs') ev f && match_frames free_last evs' frs'
  | _, _ => false
  end.

Definition answered (f : frame) : bool := match f_ans f with AnsNone => false | _ => true end.

(* one fiber sends its frames one after the other: the answer of a frame is logged (after the
   frame arrived and) before the next frame arrives *)
Fixpoint seq_ok (frs : list frame) : bool :=
  match frs with
  | [] => true
  | f :: rest =>
      match rest with
      | [] => negb (answered f) || (f_arr f <=? f_done f)
      | g :: _ => answered f && (f_arr f <=? f_done f) && (f_done f <=? f_arr g) && seq_ok rest
      end
  end.

(* a plan target is a (node, shard) pair: consecutive frames of a fiber on one node are attempts on
   the same target (RetrySameTarget) and arrive on that shard again -- unless the node lost a
   connection (then the pool may hand out a connection of another shard) *)
Fixpoint shards_ok (down : list N) (frs : list frame) : bool :=
  match frs with
  | [] => true
  | f :: rest =>
      match rest with
      | [] => true
      | g :: _ => (negb (f_node g =? f_node f) || (f_shard g =? f_shard f) || memN (f_node f) down)
                  && shards_ok down rest
      end
  end.

(* certificate of one fiber: the targets it was handed, the outcome of every loop iteration *)
Record cert := mkCert {
  c_plan : list N;
  c_outs : list outcome;
  c_free : bool              (* cancelled while its last frame was in flight *)
}.

Definition conn_fail_targets (tr : list (event N)) : list N := map ev_target (conn_fails tr).

(* runs the model on the certificate; Some r = the frames are exactly its attempts (and targets
   skipped for lack of a connection are in [down]) *)
Definition fiber_check (p : policy) (idem : bool) (cl0 : consistency) (down : list N)
           (c : cert) (frs : list frame) : option (fiber_result N) :=
  let (tr, r) := fiber p idem cl0 (c_plan c) (c_outs c) in
  if match_frames (c_free c) (attempts tr) frs
     && seq_ok frs && shards_ok down frs
     && forallb (fun t => memN t down) (conn_fail_targets tr)
  then Some r else None.

(* the fiber ran to its end: it was not cancelled, the model run is not pending *)
Definition fiber_finished (c : cert) (r : fiber_result N) : bool :=
  negb (c_free c) && match r with RPending => false | _ => true end.

(* the last frame's answer was logged no later than [t] (vacuous without frames) *)
Definition last_done_by (t : N) (frs : list frame) : bool :=
  match rev frs with
  | [] => true
  | f :: _ => answered f && (f_done f <=? t)
  end.

(* the plan of a request: distinct nodes of the cluster *)
Definition plan_wf (nodes plan : list N) : bool :=
  nodupb plan && forallb (fun t => memN t nodes) plan.
(* every node of the cluster is in the plan, except nodes whose connection was cut *)
Definition plan_covers (nodes down plan : list N) : bool :=
  forallb (fun n => memN n plan || memN n down) nodes.

(* ---- gate closed: ONE fiber, run to its end ------------------------------------------------- *)
Definition check_single (p : policy) (idem : bool) (cl0 : consistency) (nodes down : list N)
           (c : cert) (frs : list frame) (tret : N) (o : ores) (co : option N) : bool :=
  negb (c_free c)
  && plan_wf nodes (c_plan c) && plan_covers nodes down (c_plan c)
  && last_done_by tret frs
  && match fiber_check p idem cl0 down c frs with
     | Some r => res_match r o && coord_match co r
     | None => false
     end.

(* ---- gate open: up to 1 + max fibers on one shared plan --------------------------------------- *)
(* the frames assigned to fiber i, in arrival order *)
Definition sub_frames (i : nat) (assign : list nat) (frs : list frame) : list frame :=
  map snd (filter (fun x => Nat.eqb (fst x) i) (combine assign frs)).

Fixpoint indexed_from {A} (k : nat) (l : list A) : list (nat * A) :=
  match l with
  | [] => []
  | x :: r => (k, x) :: indexed_from (S k) r
  end.
Definition indexed {A} (l : list A) : list (nat * A) := indexed_from 0 l.

(* a finished fiber that would have gone on with one more target: it found the shared plan empty *)
Definition fresh_target (nodes : list N) : N := 1 + fold_right N.max 0 nodes.
Definition wants_more (p : policy) (idem : bool) (cl0 : consistency) (nodes : list N) (c : cert) : bool :=
  match snd (fiber p idem cl0 (c_plan c ++ [fresh_target nodes]) (c_outs c)) with
  | RPending => true
  | _ => false
  end.

Definition fiber_results (p : policy) (idem : bool) (cl0 : consistency) (down : list N)
           (cs : list cert) (assign : list nat) (frs : list frame)
  : list (nat * cert * option (fiber_result N)) :=
  map (fun ic => (fst ic, snd ic, fiber_check p idem cl0 down (snd ic) (sub_frames (fst ic) assign frs)))
      (indexed cs).

Definition is_some {A} (o : option A) : bool := match o with Some _ => true | None => false end.

(* structure only: the frames split into at most 1 + max fibers, every fiber a run (or a cancelled
   prefix of a run) of the model, no node handed to two fibers *)
Definition multi_ok (p : policy) (idem : bool) (cl0 : consistency) (nodes down : list N) (max : nat)
           (cs : list cert) (assign : list nat) (frs : list frame) : bool :=
  (List.length assign =? List.length frs)%nat
  && forallb (fun i => (i <? List.length cs)%nat) assign
  && (1 <=? List.length cs)%nat && (List.length cs <=? 1 + max)%nat
  && plan_wf nodes (concat (map c_plan cs))
  && forallb (fun x => is_some (snd x)) (fiber_results p idem cl0 down cs assign frs)
  && (* a finished fiber that asked for another target proves the shared plan was used up *)
     (negb (existsb (fun x => match snd x with
                              | Some r => fiber_finished (snd (fst x)) r && wants_more p idem cl0 nodes (snd (fst x))
                              | None => false
                              end) (fiber_results p idem cl0 down cs assign frs))
      || plan_covers nodes down (concat (map c_plan cs))).

(* ... and the caller's result is the result of one of the finished fibers, whose last answer was
   logged before the call returned (which one it must be is C13's subject) *)
Definition check_multi (p : policy) (idem : bool) (cl0 : consistency) (nodes down : list N) (max : nat)
           (cs : list cert) (assign : list nat) (frs : list frame) (tret : N) (o : ores)
           (co : option N) : bool :=
  multi_ok p idem cl0 nodes down max cs assign frs
  && existsb (fun x => match snd x with
                       | Some r => fiber_finished (snd (fst x)) r && res_match r o && coord_match co r
                                   && last_done_by tret (sub_frames (fst (fst x)) assign frs)
                       | None => false
                       end) (fiber_results p idem cl0 down cs assign frs).

(* ---- the gate (execution.rs: `Some((metrics, Some(policy))) if self.is_idempotent`) ----------- *)
Definition gate_open (idem : bool) (spec : option nat) : option nat :=
  if idem then spec else None.

Definition e2e_check (p : policy) (idem : bool) (spec : option nat) (cl0 : consistency)
           (nodes down : list N) (cs : list cert) (assign : list nat) (frs : list frame)
           (tret : N) (o : ores) (co : option N) : bool :=
  match gate_open idem spec with
  | None =>
      match cs with
      | [c] => check_single p idem cl0 nodes down c frs tret o co
      | _ => false
      end
  | Some max => check_multi p idem cl0 nodes down max cs assign frs tret o co
  end.

(* ---- the property on the observation itself (evaluated by the driver when no certificate is
   accepted, to tell a violated property from a broken correspondence) ---------------------------- *)
(* one fiber (gate closed): a frame is followed by another one only after it was answered with an
   error, and only after that answer was logged; not idempotent: only after an error that proves
   it was not applied; Default at a serial consistency: nothing follows a failed attempt *)
Fixpoint resend_ok_frames (p : policy) (idem : bool) (frs : list frame) : bool :=
  match frs with
  | [] => true
  | f :: rest =>
      match rest with
      | [] => true
      | g :: _ =>
          match f_ans f with
          | AnsErr e => idem || safe_errorb e
          | AnsOk | AnsNone => false
          end
          && (f_done f <=? f_arr g)
          && negb (match p with PDefault => is_serial (f_cl f) | _ => false end)
          && resend_ok_frames p idem rest
      end
  end.

(* frames in flight at instant t; at every arrival instant at most [bound] of them, on pairwise
   different nodes (the maximum over all instants is reached at an arrival) *)
Definition open_at (t : N) (f : frame) : bool :=
  (f_arr f <=? t) && (negb (answered f) || (t <? f_done f)).
Definition in_flight (t : N) (frs : list frame) : list frame := filter (open_at t) frs.
Definition overlap_ok (bound : nat) (frs : list frame) : bool :=
  forallb (fun f => let fl := in_flight (f_arr f) frs in
                    (List.length fl <=? bound)%nat && nodupb (map f_node fl)) frs.

(* "the driver sends exactly the attempts the policy decided -- no more", on the frames of ONE fiber:
   a frame is followed by another one only if the retry session, fed with the errors the mock
   answered (in order, with the request's idempotence and the consistency of the failed frame),
   decided a retry at that point.  (By C06_decide_safe this contains the safe-resend rule.) *)
Fixpoint frames_follow (idem : bool) (s : session) (frs : list frame) : bool :=
  match frs with
  | [] => true
  | f :: rest =>
      match rest with
      | [] => true
      | _ :: _ =>
          match f_ans f with
          | AnsErr e =>
              let (s', d) := decide s (mk_ri e idem (f_cl f)) in
              is_retry d && frames_follow idem s' rest
          | AnsOk | AnsNone => false
          end
      end
  end.

(* an EXECUTE answered UNPREPARED and repeated on the same node after a PREPARE is ONE attempt (the
   runner merges such pairs); a record that still shows the pair is not judged by the predicate *)
Fixpoint has_unprepared_pair (frs : list frame) : bool :=
  match frs with
  | [] => false
  | f :: rest =>
      match rest with
      | [] => false
      | g :: _ =>
          (match f_ans f with AnsErr (EDbError DbUnprepared) => f_node g =? f_node f | _ => false end)
          || has_unprepared_pair rest
      end
  end.

(* the number of frames of one logical request: one fiber walks a plan of at most [nnodes] targets
   and gets k same-target retries; 1 + max fibers share the plan and get k each; a Fallthrough
   fiber makes one attempt *)
Definition frame_bound (p : policy) (fibers nnodes : nat) : nat :=
  match p with
  | PFallthrough => fibers
  | _ => nnodes + fibers * same_target_budget p
  end.

Definition prop_frames (p : policy) (idem : bool) (spec : option nat) (nnodes : nat)
           (frs : list frame) : bool :=
  has_unprepared_pair frs ||
  match gate_open idem spec with
  | None =>
      resend_ok_frames p idem frs
      && frames_follow idem (new_session p) frs
      && (List.length frs <=? frame_bound p 1 nnodes)%nat
  | Some max =>
      (List.length frs <=? frame_bound p (1 + max) nnodes)%nat
  end.

(* every node of the cluster got a frame of this request, except nodes whose connection was cut: the
   plan of the request was used up *)
Definition nodes_covered (nodes down : list N) (frs : list frame) : bool :=
  forallb (fun n => memN n down || existsb (fun f => f_node f =? n) frs) nodes.

(* Client-side request timeout (`tokio::time::timeout(timeout, runner)` around the whole execution in
   run_request_no_side_effects): when the timer fires the runner future is dropped -- every fiber is
   cancelled where it stands, the caller gets RequestTimeout, nothing is retried.  On the wire: per
   fiber a run of the model, possibly cut short where the fiber was cancelled (gate closed: ONE fiber,
   and it had not run to its end; gate open: fibers that ended with an ignorable error may have been
   waiting for the next timer tick), the call returned no earlier than [tmo] after it started, no frame
   arrives more than [margin] after it returned, and a fiber counts as cancelled with its last frame in
   flight only if that frame's answer -- when one was logged -- came no earlier than [smargin] before
   the earliest instant the timeout can have fired (t0 + tmo). *)
(* no frame arrives more than [margin] after the call returned (structure of an accepted timed-out
   request; the first frame included) *)
Definition late_frames_ok (tret margin : N) (frs : list frame) : bool :=
  forallb (fun f => f_arr f <=? tret + margin) frs.

(* The PROPERTY on the frames of a request whose caller got RequestTimeout: after the call has given
   up nothing is sent AGAIN -- no frame other than the first arrives more than [margin] after the call
   returned.  (One late first frame is a timing observation, not a re-send.) *)
Definition prop_timeout_frames (tret margin : N) (frs : list frame) : bool :=
  match frs with
  | [] => true
  | _ :: rest => late_frames_ok tret margin rest
  end.

(* a fiber cancelled "while its last frame was in flight" although that frame's answer was logged:
   the timeout (which fires no earlier than t0 + tmo) must have fired before the answer could be
   processed -- the answer was logged no earlier than [smargin] before t0 + tmo *)
Definition free_answer_ok (t0 tmo smargin : N) (c : cert) (frs : list frame) : bool :=
  negb (c_free c)
  || match rev frs with
     | [] => true
     | l :: _ => negb (answered l) || (t0 + tmo <=? f_done l + smargin)
     end.

Definition check_timeout (p : policy) (idem : bool) (spec : option nat) (cl0 : consistency)
           (nodes down : list N) (cs : list cert) (assign : list nat) (frs : list frame)
           (t0 tmo tret margin smargin : N) : bool :=
  multi_ok p idem cl0 nodes down (match gate_open idem spec with Some m => m | None => 0%nat end)
           cs assign frs
  && (t0 + tmo <=? tret)
  && late_frames_ok tret margin frs
  && forallb (fun ic => free_answer_ok t0 tmo smargin (snd ic) (sub_frames (fst ic) assign frs)) (indexed cs)
  && (* gate closed: the one fiber had not run to its end (it would have returned its result) *)
     match gate_open idem spec with
     | Some _ => true
     | None => forallb (fun x => match snd x with
                                 | Some r => negb (fiber_finished (snd (fst x)) r)
                                 | None => false
                                 end) (fiber_results p idem cl0 down cs assign frs)
     end.
