(* Model of the partition-key path of property C03:
     scylla-cql/src/frame/response/result.rs   deser_prepared_metadata (pk index list)
     scylla/src/statement/prepared.rs          PartitionKey::{new, write_encoded_partition_key,
                                               calculate_token}, PreparedStatement::
                                               {calculate_token_untyped, compute_partition_key}
     scylla/src/routing/partitioner.rs         calculate_token_for_partition_key
   and the specification of the serialized partition key from the property text.
   Executable definitions only; proofs are in Proofs/PartKey_proofs.v. *)
From SV Require Import Base.Prelude Base.Bytes Model.Murmur.
Open Scope N_scope.

(* frame::types::RawValue, the items of SerializedValues::iter() *)
Inductive raw_value :=
| RNull
| RUnset
| RValue (b : bytes).

(* RawValue::as_value *)
Definition as_value (v : raw_value) : option bytes :=
  match v with RValue b => Some b | _ => None end.

Inductive c03_error :=
| NoPkIndexValue (index count : N)     (* PartitionKeyExtractionError::NoPkIndexValue(u16, u16) *)
| ValueTooLong (len : N)               (* TokenCalculationError::ValueTooLong(usize) *)
| RustPanic.                           (* arithmetic overflow / index out of bounds panic *)

(* PartitionKeyIndex { index, sequence } *)
Record pk_index := { pki_index : N; pki_sequence : N }.

(* ---- deser_prepared_metadata: the pk index list ---------------------------------------- *)
(* for i in 0..pk_count { push {index: read_short, sequence: i} } *)
Fixpoint enumerate_from (i : N) (wire : list N) : list pk_index :=
  match wire with
  | [] => []
  | x :: r => {| pki_index := x; pki_sequence := i |} :: enumerate_from (N.succ i) r
  end.

(* pk_indexes.sort_unstable_by_key(|pki| pki.index): modelled by an insertion sort.  With
   equal keys the real order is unspecified; every later use then fails identically. *)
Fixpoint insert_by_index (p : pk_index) (l : list pk_index) : list pk_index :=
  match l with
  | [] => [p]
  | x :: r => if pki_index p <=? pki_index x then p :: l else x :: insert_by_index p r
  end.
Definition sort_by_index (l : list pk_index) : list pk_index := fold_right insert_by_index [] l.

Definition deser_pk_indexes (wire : list N) : list pk_index :=
  sort_by_index (enumerate_from 0 wire).

(* ---- PartitionKey::new ----------------------------------------------------------------- *)

(* Iterator::nth(n): skips n items and returns the next one with the rest of the iterator *)
Definition iter_nth {A} (n : nat) (it : list A) : option (A * list A) :=
  match skipn n it with
  | [] => None
  | x :: r => Some (x, r)
  end.

(* pk_values[i] = Some(v) *)
Fixpoint set_nth {A} (i : nat) (x : A) (l : list A) {struct l} : list A :=
  match l, i with
  | [], _ => []
  | _ :: r, O => x :: r
  | y :: r, S j => y :: set_nth j x r
  end.

(* the `for pk_index in pk_indexes` loop.  ncols = col_specs.len(), count =
   bound_values.element_count(), it = values_iter, offset = values_iter_offset (u16),
   slots = pk_values.  [checks] = the build's overflow-checks setting: with checks (debug
   builds, the main harness) u16 arithmetic that overflows panics; without (release builds)
   it wraps modulo 2^16.  Index-out-of-bounds panics exist in both. *)
Fixpoint pk_new_loop (checks : bool) (ncols : nat) (count : N) (pkis : list pk_index)
    (it : list raw_value) (offset : N) (slots : list (option bytes))
  : result c03_error (list (option bytes)) :=
  match pkis with
  | [] => Ok slots
  | p :: rest =>
      (* pk_index.index - values_iter_offset : u16 *)
      let delta :=
        if pki_index p <? offset
        then if checks then None else Some ((pki_index p + 65536 - offset) mod 65536)
        else Some (pki_index p - offset) in
      match delta with
      | None => Err RustPanic
      | Some d =>
        match iter_nth (N.to_nat d) it with
        | None => Err (NoPkIndexValue (pki_index p) count)
        | Some (v, it') =>
            let stored :=
              match v with
              | RValue b =>
                  if (N.to_nat (pki_index p) <? ncols)%nat then             (* col_specs[index] *)
                    if (N.to_nat (pki_sequence p) <? length slots)%nat      (* pk_values[sequence] *)
                    then Ok (set_nth (N.to_nat (pki_sequence p)) (Some b) slots)
                    else Err RustPanic
                  else Err RustPanic
              | _ => Ok slots
              end in
            match stored with
            | Err e => Err e
            | Ok slots' =>
                (* values_iter_offset = pk_index.index + 1 : u16 *)
                if 65535 <? pki_index p + 1 then
                  if checks then Err RustPanic
                  else pk_new_loop checks ncols count rest it' ((pki_index p + 1) mod 65536) slots'
                else pk_new_loop checks ncols count rest it' (pki_index p + 1) slots'
            end
        end
      end
  end.

(* PartitionKey::new(prepared_metadata, bound_values) for the metadata deserialized from a
   PREPARED response whose pk index list is [wire] and which has [ncols] column specs *)
Definition pk_new (checks : bool) (ncols : nat) (wire : list N) (values : list raw_value)
  : result c03_error (list (option bytes)) :=
  pk_new_loop checks ncols (N.of_nat (length values)) (deser_pk_indexes wire) values 0
              (repeat None (length wire)).

(* PartitionKey::iter: pk_values.iter().flatten() *)
Fixpoint flatten_slots (slots : list (option bytes)) : list bytes :=
  match slots with
  | [] => []
  | Some b :: r => b :: flatten_slots r
  | None :: r => flatten_slots r
  end.

(* ---- PartitionKey::write_encoded_partition_key: the chunks handed to the writer --------- *)

(* one component of a composite key: u16 length (big endian), the bytes, a zero byte *)
Fixpoint composite_chunks (vals : list bytes) : result c03_error (list bytes) :=
  match vals with
  | [] => Ok []
  | v :: r =>
      let n := N.of_nat (length v) in
      if 65535 <? n then Err (ValueTooLong n)                    (* u16::try_from(len) *)
      else match composite_chunks r with
           | Err e => Err e
           | Ok cs => Ok (be_enc 2 n :: v :: [0] :: cs)
           end
  end.

Definition encoded_pk_chunks (slots : list (option bytes)) : result c03_error (list bytes) :=
  match flatten_slots slots with
  | [] => Ok []
  | [first_value] => Ok [first_value]                            (* single-value key *)
  | vals => composite_chunks vals                                (* composite key *)
  end.

(* PartitionKey::calculate_token *)
Definition pk_calculate_token (p : partitioner) (slots : list (option bytes))
  : result c03_error Z :=
  match encoded_pk_chunks slots with
  | Err e => Err e
  | Ok chunks => Ok (feed p chunks)
  end.

(* PreparedStatement::calculate_token_untyped: None when the statement is not token aware
   (no pk indexes) *)
Definition ps_calculate_token (checks : bool) (p : partitioner) (ncols : nat) (wire : list N)
    (values : list raw_value) : result c03_error (option Z) :=
  match wire with
  | [] => Ok None
  | _ =>
      match pk_new checks ncols wire values with
      | Err e => Err e
      | Ok slots =>
          match pk_calculate_token p slots with
          | Err e => Err e
          | Ok t => Ok (Some t)
          end
      end
  end.

(* PreparedStatement::compute_partition_key (after serialization of the values) *)
Definition ps_compute_partition_key (checks : bool) (ncols : nat) (wire : list N)
    (values : list raw_value)
  : result c03_error bytes :=
  match pk_new checks ncols wire values with
  | Err e => Err e
  | Ok slots =>
      match encoded_pk_chunks slots with
      | Err e => Err e
      | Ok chunks => Ok (concat chunks)
      end
  end.

(* ---- routing::partitioner::calculate_token_for_partition_key --------------------------- *)
(* the values are the partition key columns in partition-key order *)
Fixpoint filter_values (values : list raw_value) : list bytes :=
  match values with
  | [] => []
  | RValue b :: r => b :: filter_values r
  | _ :: r => filter_values r
  end.

Definition token_for_partition_key (p : partitioner) (values : list raw_value)
  : result c03_error Z :=
  match values with
  | [v] =>                                                       (* element_count() == 1 *)
      match v with
      | RValue b => Ok (feed p [b])
      | _ => Ok (feed p [])
      end
  | _ =>
      match composite_chunks (filter_values values) with
      | Err e => Err e
      | Ok chunks => Ok (feed p chunks)
      end
  end.

(* ======================================================================================= *)
(* SPECIFICATION (from the property text).  The serialized partition key is the single key  *)
(* column's bytes, or for composite keys each component as 2-byte big-endian length, the    *)
(* bytes, and a zero byte, taken in partition-key order; a component that does not fit the  *)
(* 2-byte length has no serialization.                                                      *)
(* ======================================================================================= *)

Definition spec_component (c : bytes) : bytes :=
  [N.of_nat (length c) / 256; N.of_nat (length c) mod 256] ++ c ++ [0].

Definition spec_serialized_key (components : list bytes) : bytes :=
  match components with
  | [c] => c
  | _ => concat (map spec_component components)
  end.

(* the bytes bound to a marker (a key column is never null or unset) *)
Definition bound_bytes (v : raw_value) : bytes :=
  match v with RValue b => b | _ => [] end.

(* the key components in partition-key order: component j is the value bound to the marker
   whose position the server announced as the j-th pk index *)
Definition spec_components (wire : list N) (values : list raw_value) : list bytes :=
  map (fun i => bound_bytes (nth (N.to_nat i) values RNull)) wire.

Definition spec_token (p : partitioner) (wire : list N) (values : list raw_value) : Z :=
  token_spec p (spec_serialized_key (spec_components wire values)).

(* ---- the property as executable predicates (used by the correspondence driver when the
        implementation and the model differ, and proved of the model in Props/C03.v) ---------- *)

Fixpoint nodupb (l : list N) : bool :=
  match l with
  | [] => true
  | x :: r => negb (existsb (N.eqb x) r) && nodupb r
  end.

Definition is_value (v : raw_value) : bool :=
  match v with RValue _ => true | _ => false end.

(* the quantifier of the property: distinct pk indexes, each naming an existing marker that is
   bound to a value; at most 65535 bound values (SerializedValues counts them in a u16) *)
Definition key_okb (ncols : nat) (wire : list N) (values : list raw_value) : bool :=
  nodupb wire &&
  forallb (fun i => (N.to_nat i <? length values)%nat && (N.to_nat i <? ncols)%nat &&
                    is_value (nth (N.to_nat i) values RNull)) wire &&
  (N.of_nat (length values) <=? 65535).

Definition fitsb (c : bytes) : bool := N.of_nat (length c) <=? 65535.

(* does a key have a serialization: a single component always, a composite one when every
   component fits the 2-byte length *)
Definition serializableb (comps : list bytes) : bool :=
  (length comps =? 1)%nat || forallb fitsb comps.

(* the property evaluated on an observed result of calculate_token for (wire, values) *)
Definition prop_token_ok (p : partitioner) (ncols : nat) (wire : list N)
    (values : list raw_value) (obs : result c03_error (option Z)) : bool :=
  if negb (key_okb ncols wire values) then true
  else
    match wire with
    | [] => match obs with Ok None => true | _ => false end
    | _ =>
        if serializableb (spec_components wire values) then
          match obs with
          | Ok (Some t) => (t =? spec_token p wire values)%Z
          | _ => false
          end
        else
          match obs with
          | Err (ValueTooLong n) => 65535 <? n
          | _ => false
          end
    end.

(* the same for calculate_token_for_partition_key on already ordered key values *)
Definition prop_pk_token_ok (p : partitioner) (values : list raw_value)
    (obs : result c03_error Z) : bool :=
  if negb (forallb is_value values) then true
  else
    let comps := map bound_bytes values in
    if serializableb comps || (length comps =? 0)%nat then
      match obs with
      | Ok t => (t =? token_spec p (spec_serialized_key comps))%Z
      | _ => false
      end
    else
      match obs with
      | Err (ValueTooLong n) => 65535 <? n
      | _ => false
      end.
