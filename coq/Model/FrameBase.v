(* Property C08 — model, part 1: the parser monad with ghost cost counters and the primitive
   readers of scylla-cql-core/src/frame/types.rs + scylla-cql/src/frame/types.rs.
   Executable definitions only; proofs are in Proofs/FrameBase_proofs.v.

   Every reader of the Rust code has the shape  fn(buf: &mut &[u8]) -> Result<T, E> : it looks
   at a prefix of the slice and advances it.  Here: a total function
       bytes -> (result ferr (T * rest)) * cost
   where [cost] are the ghost counters of the property: [c_alloc] = sum of the preallocation
   sizes requested at the pinned `with_capacity` sites (bytes), [c_depth] = maximal recursion
   depth of the type parsers.  The counters are produced on the error paths too. *)
From SV Require Import Base.Prelude Base.Bytes.
Open Scope N_scope.

(* ---- error classes: the innermost error variant the Rust code reports ---------------- *)
Inductive ferr : Type :=
(* LowLevelDeserializationError *)
| EIo                      (* IoError(UnexpectedEof): byteorder read_u8/u16/i32 on a short slice *)
| ETooFew                  (* TooFewBytesReceived: read_raw_bytes *)
| EUtf8                    (* UTF8DeserializationError *)
| ETryFromInt              (* TryFromIntError: negative [int] length, port outside u16 *)
| EInvalidValueLength
| EUnknownConsistency
| EInvalidInetLength
(* FrameHeaderParseError *)
| EHeaderIo | EFrameFromClient | EVersionNotSupported | EUnknownOpcode | EConnectionClosed
(* FrameBodyExtensionsParseError *)
| ENoCompression | EDecompress
(* response bodies *)
| EUnknownResultId | EUnknownEventType | EUnknownSchemaTarget | EUnknownTypeOfChange
| EConnHostMismatch | EUuidParse | EIdPresentForEmptyMetadata | ENonZeroPagingState
| ETypeNotImplemented | ETypeNestingTooDeep
(* CustomTypeParseError *)
| ECtUnknownSimple | ECtUnknownComplex | ECtUnexpectedChar | ECtInteger | ECtEof | ECtBadHex
| ECtInvalidUtf8 | ECtParamCount | ECtTooDeep
(* model-only *)
| EOutOfFuel               (* never produced: C08_fuel_enough *)
| EUnmodelled.             (* the model declines (non-ASCII custom type string) *)

(* ---- ghost cost ----------------------------------------------------------------------- *)
Record cost : Type := mkCost { c_alloc : N; c_depth : N }.
Definition c0 : cost := mkCost 0 0.
Definition cadd (a b : cost) : cost := mkCost (c_alloc a + c_alloc b) (N.max (c_depth a) (c_depth b)).

Definition pres (A : Type) : Type := (result ferr (A * bytes) * cost)%type.
Definition parser (A : Type) : Type := bytes -> pres A.

Definition run {A} (p : parser A) (b : bytes) : result ferr (A * bytes) := fst (p b).
Definition cost_of {A} (p : parser A) (b : bytes) : cost := snd (p b).

Definition ret {A} (a : A) : parser A := fun b => (Ok (a, b), c0).
Definition fail {A} (e : ferr) : parser A := fun _ => (Err e, c0).
Definition bind {A B} (p : parser A) (f : A -> parser B) : parser B := fun b =>
  match p b with
  | (Ok (a, r), c) => let o := f a r in (fst o, cadd c (snd o))
  | (Err e, c) => (Err e, c)
  end.
Definition pmap {A B} (f : A -> B) (p : parser A) : parser B := bind p (fun a => ret (f a)).
(* replace the error class (the Rust `map_err` wrappers keep the innermost error, so this is
   only used where the code builds a fresh error) *)
Definition map_err {A} (g : ferr -> ferr) (p : parser A) : parser A := fun b =>
  match p b with
  | (Ok x, c) => (Ok x, c)
  | (Err e, c) => (Err (g e), c)
  end.

Notation "x <- p ;; q" := (bind p (fun x => q)) (at level 61, p at next level, right associativity).
Notation "p ;;; q" := (bind p (fun _ => q)) (at level 61, right associativity).

(* ghost: a `with_capacity(n)` site requesting [n * elem] bytes *)
Definition tick_alloc (bytes_requested : N) : parser unit := fun b => (Ok (tt, b), mkCost bytes_requested 0).
Definition lenN {A} (b : list A) : N := N.of_nat (length b).
(* `count.min(buf.len() / per)`, the shape of every wire-count preallocation since commits 3ad5892 and
   dba8b0a; only as much of the buffer is walked as the answer needs (capped_eq, Proofs: it equals
   N.min count (lenN b / per)) *)
Fixpoint len_upto_aux {A} (b : list A) (k acc : N) : N :=
  if k =? 0 then acc
  else match b with
       | [] => acc
       | _ :: r => len_upto_aux r (N.pred k) (acc + 1)
       end.
Definition len_upto {A} (k : N) (b : list A) : N := len_upto_aux b k 0.
Definition capped (count per : N) (b : bytes) : N := N.min count (len_upto ((count + 1) * per) b / per).
(* ghost: `Vec::with_capacity(count.min(buf.len() / per))` of [elem]-byte entries *)
Definition tick_alloc_capped (count per elem : N) : parser unit := fun b =>
  (Ok (tt, b), mkCost (capped count per b * elem) 0).
(* ghost: entering a recursive parser at nesting level [d] *)
Definition tick_depth (d : N) : parser unit := fun b => (Ok (tt, b), mkCost 0 d).

(* ---- raw byte access ------------------------------------------------------------------- *)
(* split off exactly [n] bytes; the count may be as large as 2^31, so it is counted down in N
   along the list (never converted to nat) and the length of the input is not computed.
   ntake_spec (Proofs): = Some (firstn n b, skipn n b) when n <= length b, None otherwise *)
Fixpoint ntake_aux (b : bytes) (n : N) (acc : bytes) : option (bytes * bytes) :=
  if n =? 0 then Some (rev' acc, b)
  else match b with
       | [] => None
       | x :: r => ntake_aux r (N.pred n) (x :: acc)
       end.
Definition ntake (n : N) (b : bytes) : option (bytes * bytes) := ntake_aux b n [].

(* types::read_raw_bytes *)
Definition read_raw (n : N) : parser bytes := fun b =>
  match ntake n b with
  | Some (x, r) => (Ok (x, r), c0)
  | None => (Err ETooFew, c0)
  end.

(* byteorder: read_u8 / read_u16 / read_i32 / read_i64 / read_u32 — io::Error on a short slice *)
Definition read_be (k : N) : parser N := fun b =>
  match ntake k b with
  | Some (x, r) => (Ok (be_dec x, r), c0)
  | None => (Err EIo, c0)
  end.
Definition read_u8 : parser N := read_be 1.
Definition read_short : parser N := read_be 2.
Definition read_int : parser Z := pmap (to_signed 32) (read_be 4).
Definition read_long : parser Z := pmap (to_signed 64) (read_be 8).

(* read_int_length: `usize::try_from(i32)` *)
Definition read_int_length : parser N :=
  v <- read_int ;; if (v <? 0)%Z then fail ETryFromInt else ret (Z.to_N v).

(* ---- UTF-8 (str::from_utf8): the well-formed byte sequences of Unicode table 3-7 -------- *)
Definition in_rng (lo hi x : N) : bool := (lo <=? x) && (x <=? hi).
Fixpoint utf8_valid (b : bytes) : bool :=
  match b with
  | [] => true
  | x :: r =>
    if x <? 128 then utf8_valid r
    else if in_rng 194 223 x then
      match r with y :: r1 => in_rng 128 191 y && utf8_valid r1 | _ => false end
    else if in_rng 224 239 x then
      match r with
      | y :: z :: r2 =>
        (if x =? 224 then in_rng 160 191 y else if x =? 237 then in_rng 128 159 y else in_rng 128 191 y)
        && in_rng 128 191 z && utf8_valid r2
      | _ => false
      end
    else if in_rng 240 244 x then
      match r with
      | y :: z :: w :: r3 =>
        (if x =? 240 then in_rng 144 191 y else if x =? 244 then in_rng 128 143 y else in_rng 128 191 y)
        && in_rng 128 191 z && in_rng 128 191 w && utf8_valid r3
      | _ => false
      end
    else false
  end.

(* ---- [string], [short bytes], [bytes], [string list], maps ------------------------------- *)
Definition read_string : parser bytes :=
  len <- read_short ;; raw <- read_raw len ;; if utf8_valid raw then ret raw else fail EUtf8.

Definition read_short_bytes : parser bytes := len <- read_short ;; read_raw len.

(* scylla-cql types::read_bytes (non-null [bytes]) *)
Definition read_bytes : parser bytes := len <- read_int_length ;; read_raw len.

(* read_bytes_opt: any negative length is null *)
Definition read_bytes_opt : parser (option bytes) :=
  len <- read_int ;;
  if (len <? 0)%Z then ret None else pmap Some (read_raw (Z.to_N len)).

(* counted loop `for _ in 0..n { v.push(p(buf)?) }`; [fuel] bounds the number of iterations that
   can succeed (each consumes at least one byte): see repeatN *)
Fixpoint repeat_f {A} (fuel : nat) (p : parser A) (n : N) : parser (list A) :=
  if n =? 0 then ret []
  else match fuel with
       | O => fail EOutOfFuel
       | S f => a <- p ;; l <- repeat_f f p (n - 1) ;; ret (a :: l)
       end.
Definition repeatN {A} (p : parser A) (n : N) : parser (list A) :=
  fun b => repeat_f (S (length b)) p n b.
(* the same loop for counts known to be small (u16 fields, numbers of parsed columns): the
   count itself is the fuel, which is then never exhausted *)
Definition repeatS {A} (p : parser A) (n : N) : parser (list A) := repeat_f (N.to_nat n) p n.

(* element sizes used by the cost annotations (size_of on x86_64; pinned by the census and
   re-measured by the runner): String / Vec = 24 *)
Definition SZ_STRING : N := 24.

(* read_string_list: Vec::with_capacity(len) then len strings *)
Definition read_string_list : parser (list bytes) :=
  len <- read_short ;; tick_alloc_capped len 2 SZ_STRING ;;; repeatS read_string len.

(* HashMap semantics of `v.insert(key, val)` in wire order: later value replaces, the entry keeps
   its place.  Entries are kept in first-insertion order (the canonical comparison sorts). *)
Definition bytes_eqb (a b : bytes) : bool := if list_eq_dec N.eq_dec a b then true else false.
Fixpoint hm_insert {V} (m : list (bytes * V)) (k : bytes) (v : V) : list (bytes * V) :=
  match m with
  | [] => [(k, v)]
  | (k', v') :: r => if bytes_eqb k' k then (k', v) :: r else (k', v') :: hm_insert r k v
  end.
Definition hm_of_list {V} (l : list (bytes * V)) : list (bytes * V) :=
  fold_left (fun m kv => hm_insert m (fst kv) (snd kv)) l [].

(* HashMap::with_capacity(n) (hashbrown, as measured by the census probe): nothing for n = 0,
   otherwise buckets * (entry + 1 control byte) + 16 where buckets = 4 / 8 / 16 for n < 4 / 8 / 15
   and the next power of two of n*8/7 above.  (String, Bytes) = 56, (String, Vec<String>) = 48. *)
Definition SZ_PAYLOAD_ENTRY : N := 56.
Definition SZ_MULTIMAP_ENTRY : N := 48.
Definition hm_buckets (n : N) : N :=
  if n <? 4 then 4 else if n <? 8 then 8 else if n <? 15 then 16 else 2 ^ N.log2_up (n * 8 / 7).
Definition hm_alloc (n entry : N) : N :=
  if n =? 0 then 0 else hm_buckets n * (entry + 1) + 16.

(* ghost: `HashMap::with_capacity(count.min(buf.len() / per))` *)
Definition tick_hm_capped (count per entry : N) : parser unit := fun b =>
  (Ok (tt, b), mkCost (hm_alloc (capped count per b) entry) 0).

Definition read_bytes_map : parser (list (bytes * bytes)) :=
  len <- read_short ;; tick_hm_capped len 6 SZ_PAYLOAD_ENTRY ;;;
  l <- repeatS (k <- read_string ;; v <- read_bytes ;; ret (k, v)) len ;;
  ret (hm_of_list l).

Definition read_string_multimap : parser (list (bytes * list bytes)) :=
  len <- read_short ;; tick_hm_capped len 4 SZ_MULTIMAP_ENTRY ;;;
  l <- repeatS (k <- read_string ;; v <- read_string_list ;; ret (k, v)) len ;;
  ret (hm_of_list l).

(* read_uuid: 16 raw bytes *)
Definition read_uuid : parser bytes := read_raw 16.

(* read_inet: u8 length 4|16, address, [int] port checked into u16 *)
Definition read_inet : parser (bytes * N) :=
  len <- read_u8 ;;
  if (len =? 4) || (len =? 16) then
    ip <- read_raw len ;; port <- read_int ;;
    if ((port <? 0) || (65535 <? port))%Z then fail ETryFromInt else ret (ip, Z.to_N port)
  else fail EInvalidInetLength.

(* Consistency::try_from(u16) *)
Definition consistency_ok (v : N) : bool := v <=? 10.
Definition read_consistency : parser N :=
  v <- read_short ;; if consistency_ok v then ret v else fail EUnknownConsistency.

(* ---- encoders of the primitives (specification side, from native_protocol_v4.spec §3) --- *)
Definition enc_short (v : N) : bytes := be_enc 2 v.
Definition enc_int (z : Z) : bytes := enc_signed 4 z.
Definition enc_string (s : bytes) : bytes := enc_short (lenN s) ++ s.
Definition enc_short_bytes (s : bytes) : bytes := enc_short (lenN s) ++ s.
Definition enc_bytes (s : bytes) : bytes := enc_int (Z.of_N (lenN s)) ++ s.
Definition enc_bytes_opt (o : option bytes) : bytes :=
  match o with Some s => enc_bytes s | None => enc_int (-1) end.
Definition enc_list {A} (e : A -> bytes) (l : list A) : bytes := flat_map e l.
Definition enc_string_list (l : list bytes) : bytes := enc_short (lenN l) ++ enc_list enc_string l.
Definition enc_bytes_map (m : list (bytes * bytes)) : bytes :=
  enc_short (lenN m) ++ enc_list (fun kv => enc_string (fst kv) ++ enc_bytes (snd kv)) m.
Definition enc_string_multimap (m : list (bytes * list bytes)) : bytes :=
  enc_short (lenN m) ++ enc_list (fun kv => enc_string (fst kv) ++ enc_string_list (snd kv)) m.
Definition enc_inet (a : bytes * N) : bytes := [lenN (fst a)] ++ fst a ++ enc_int (Z.of_N (snd a)).

(* well-formedness of the primitive values (what the protocol notation can express) *)
Definition wf_string (s : bytes) : Prop := bytes_ok s /\ lenN s < 65536 /\ utf8_valid s = true.
Definition wf_short_bytes (s : bytes) : Prop := bytes_ok s /\ lenN s < 65536.
Definition wf_bytes (s : bytes) : Prop := bytes_ok s /\ lenN s < 2 ^ 31.
Definition wf_int (z : Z) : Prop := (- 2 ^ 31 <= z < 2 ^ 31)%Z.
Definition wf_string_list (l : list bytes) : Prop := lenN l < 65536 /\ Forall wf_string l.
Definition keys_nodup {V} (m : list (bytes * V)) : Prop := NoDup (map fst m).
Definition wf_inet (a : bytes * N) : Prop :=
  bytes_ok (fst a) /\ (lenN (fst a) = 4 \/ lenN (fst a) = 16) /\ snd a < 65536.
