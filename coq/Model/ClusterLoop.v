(* Model of the cluster worker's select loop (scylla/src/cluster/worker.rs, ClusterWorker::work,
   l. 290-360, and apply_metadata_update, l. 392-481) as far as the requests it answers are
   concerned (property C19, user-visible half): use_keyspace requests (queued in an mpsc channel,
   each handed to a spawned task that answers it) and refresh requests (their response channels
   travel inside the MetadataUpdate of the merge channel, Model/MetaUpdate.v, and are answered when
   the update has been applied and the new state published).  While apply_metadata_update runs
   (it awaits the connection pools) the loop does not select: requests and merges pile up.
   Executable definitions only; proofs are in Proofs/ClusterLoop_proofs.v.
   Not modelled: the tablets and connectivity-event branches (they answer nobody), the per-node
   USE fan-out of a task (C20, Model/Keyspace.v), shutdown (a closed channel ends the loop). *)
From SV Require Import Base.Prelude Model.Sched Model.MetaUpdate.
Open Scope N_scope.

Inductive wphase := WIdle | WApplying (u : mupdate).

Record wstate := mkW {
  w_inbox : list N;            (* use_keyspace_channel: queued requests, FIFO *)
  w_slot : option mupdate;     (* the merge channel's slot *)
  w_phase : wphase;
  w_tasks : list N;            (* spawned handle_use_keyspace_request tasks that have not answered yet *)
  w_used_ks : option N;        (* node_config.used_keyspace: the request selected last *)
  w_version : N;               (* version of the next producer operation *)
  w_published : option N;      (* peer-list version of the last published ClusterState *)
  (* ghost *)
  w_use_requested : list N; w_use_answered : list N;
  w_refresh_answered : list N; w_refresh_requested : list N
}.
Definition w_init : wstate := mkW [] None WIdle [] None 1 None [] [] [] [].

Inductive wlabel :=
| LReqUse (id : N)     (* Cluster::use_keyspace: send the request *)
| LMerge (o : mop)     (* metadata worker: Sender::modify(|slot| MetadataUpdate::merge_*(slot, ..)) *)
| LSelectUse           (* select!: use_keyspace_channel.recv() -> used_keyspace := it; tokio::spawn(task) *)
| LSelectUpdate        (* select!: metadata_updates.recv() = Some(update) -> apply_metadata_update starts *)
| LFinishApply         (* apply_metadata_update returns: state published, refresh responses answered *)
| LTaskDone (id : N).  (* a spawned task finishes: response_chan.send(result) *)

Fixpoint remove_first (x : N) (l : list N) : option (list N) :=
  match l with
  | [] => None
  | y :: r => if x =? y then Some r else option_map (cons y) (remove_first x r)
  end.

Definition peers_of_update (u : mupdate) (old : option N) : option N :=
  match mu_changes u with
  | Some (Full md _) => Some (md_peers md)
  | Some (Partial _ (Some p)) => Some p
  | _ => old
  end.

Definition wstep (s : wstate) (lb : wlabel) : option wstate :=
  match lb with
  | LReqUse id =>
      Some (mkW (w_inbox s ++ [id]) (w_slot s) (w_phase s) (w_tasks s) (w_used_ks s) (w_version s) (w_published s)
                (w_use_requested s ++ [id]) (w_use_answered s) (w_refresh_answered s) (w_refresh_requested s))
  | LMerge o =>
      match o with
      | MTake => None
      | _ =>
          let h := apply_mop (w_version s) o (mkH (w_slot s) []) in
          Some (mkW (w_inbox s) (h_slot h) (w_phase s) (w_tasks s) (w_used_ks s) (w_version s + 1) (w_published s)
                    (w_use_requested s) (w_use_answered s) (w_refresh_answered s)
                    (w_refresh_requested s ++ requested (w_version s) [o]))
      end
  | LSelectUse =>
      match w_phase s, w_inbox s with
      | WIdle, id :: r =>
          Some (mkW r (w_slot s) WIdle (w_tasks s ++ [id]) (Some id) (w_version s) (w_published s)
                    (w_use_requested s) (w_use_answered s) (w_refresh_answered s) (w_refresh_requested s))
      | _, _ => None
      end
  | LSelectUpdate =>
      match w_phase s, w_slot s with
      | WIdle, Some u =>
          Some (mkW (w_inbox s) None (WApplying u) (w_tasks s) (w_used_ks s) (w_version s) (w_published s)
                    (w_use_requested s) (w_use_answered s) (w_refresh_answered s) (w_refresh_requested s))
      | _, _ => None
      end
  | LFinishApply =>
      match w_phase s with
      | WApplying u =>
          Some (mkW (w_inbox s) (w_slot s) WIdle (w_tasks s) (w_used_ks s) (w_version s)
                    (peers_of_update u (w_published s))
                    (w_use_requested s) (w_use_answered s) (w_refresh_answered s ++ responses_of u) (w_refresh_requested s))
      | WIdle => None
      end
  | LTaskDone id =>
      match remove_first id (w_tasks s) with
      | Some r =>
          Some (mkW (w_inbox s) (w_slot s) (w_phase s) r (w_used_ks s) (w_version s) (w_published s)
                    (w_use_requested s) (w_use_answered s ++ [id]) (w_refresh_answered s) (w_refresh_requested s))
      | None => None
      end
  end.

Definition applying_responses (s : wstate) : list N :=
  match w_phase s with WApplying u => responses_of u | WIdle => [] end.

(* work the worker still owes: strictly decreases with every worker / task step *)
Definition owed (s : wstate) : nat :=
  (2 * List.length (w_inbox s) + List.length (w_tasks s)
   + (match w_slot s with Some _ => 2 | None => 0 end)
   + (match w_phase s with WApplying _ => 1 | WIdle => 0 end))%nat.
Definition is_worker_label (lb : wlabel) : bool :=
  match lb with LSelectUse | LSelectUpdate | LFinishApply | LTaskDone _ => true | _ => false end.
