(* Model of scylla/src/routing/locator/{replication_info.rs, precomputed_replicas.rs, mod.rs}
   (property C04): the SimpleStrategy / NetworkTopologyStrategy walkers, the precomputation
   with its lookups, `ReplicaLocator::replicas_for_token` and the views of a `ReplicaSet`
   (len, into_iter, nth, choose, into_replicas_ordered), plus the SPECIFICATION of replica
   placement written from the property text.  Executable definitions only; proofs are in
   Proofs/Replicas_proofs.v.

   [g] is always the global ring as `TokenRing::new` stores it (sorted by token, stable). *)
From SV Require Import Base.Prelude Model.Ring Model.Shard.
Open Scope Z_scope.

Inductive strategy :=
| Simple (rf : nat)
| NTS (m : list (N * nat))        (* datacenter_repfactors : HashMap<String, usize>, one entry per key *)
| LocalS
| OtherS.

(* HashMap::get *)
Fixpoint rf_lookup (m : list (N * nat)) (d : N) : option nat :=
  match m with
  | [] => None
  | (d', rf) :: r => if N.eqb d' d then Some rf else rf_lookup r d
  end.
Definition rf_or0 (m : list (N * nat)) (d : N) : nat :=
  match rf_lookup m d with Some rf => rf | None => 0%nat end.

Section Topo.
  Variables (dcf rackf : N -> option N).

  Definition in_dc (d n : N) : bool :=
    match dcf n with Some d' => N.eqb d' d | None => false end.

  (* ---- ReplicationInfo::new ------------------------------------------------------------ *)
  (* per-datacenter ring: the global ring's entries of that datacenter, in ring order, passed
     through TokenRing::new again *)
  Definition dc_ring (g : ring N) (d : N) : ring N :=
    sort_ring (filter (fun e => in_dc d (snd e)) g).
  (* `ring.iter().map(|(_t, n)| n).unique()` *)
  Definition unique_nodes (r : ring N) : list N := uniq (map snd r).
  (* "When counting racks consider None as a separate rack" *)
  Definition rack_count (r : ring N) : nat :=
    List.length (uniq_by oeqb (map (fun e => rackf (snd e)) r)).
  (* ReplicaLocator::new : `datacenters` = DC names in order of first appearance on the ring *)
  Definition ring_dcs (g : ring N) : list N := uniq (filter_map dcf (map snd g)).

  (* ---- simple_strategy_replicas -------------------------------------------------------- *)
  Definition simple_replicas (g : ring N) (t : Z) (rf : nat) : list N :=
    let num_to_take := Nat.min rf (List.length (unique_nodes g)) in
    firstn num_to_take (uniq (ring_range g t)).

  (* ---- NtsReplicasInDatacenterIterator -------------------------------------------------
     [left] = replicas_left_to_find, [reps] = acceptable_repeats, [used] = used_racks,
     [nodes] = what is left of the `.unique()` walk over the datacenter ring. *)
  Fixpoint nts_walk (used : list (option N)) (reps left : nat) (nodes : list N) : list N :=
    match nodes with
    | [] => []
    | n :: r =>
        match left with
        | O => []                                    (* replicas_left_to_find == 0 *)
        | S left' =>
            let rk := rackf n in
            if negb (mem_by oeqb rk used)
            then n :: nts_walk (rk :: used) reps left' r          (* new rack *)
            else match reps with
                 | S reps' => n :: nts_walk used reps' left' r    (* acceptable repeat *)
                 | O => nts_walk used O left r                    (* skipped *)
                 end
        end
    end.

  (* nts_replicas_in_datacenter *)
  Definition nts_replicas (g : ring N) (t : Z) (d : N) (rf : nat) : list N :=
    let r := dc_ring g d in
    let num_to_take := Nat.min rf (List.length (unique_nodes r)) in
    nts_walk [] (rf - rack_count r) num_to_take (uniq (ring_range r t)).

  (* ---- PrecomputedReplicas::compute ---------------------------------------------------- *)
  Definition max_global_rf (pre : list strategy) : nat :=
    fold_left (fun m s => match s with Simple rf => Nat.max m rf | _ => m end) pre 1%nat.
  (* the BTreeSet of replication factors requested for one datacenter *)
  Definition dc_rfs (pre : list strategy) (d : N) : list nat :=
    flat_map (fun s => match s with
                       | NTS m => match rf_lookup m d with Some rf => [rf] | None => [] end
                       | _ => []
                       end) pre.
  (* `repfactors.range(..=rack_count).next_back()` *)
  Definition compressed_rf (rfs : list nat) (racks : nat) : option nat :=
    fold_left (fun acc rf =>
                 if (rf <=? racks)%nat
                 then match acc with Some m => Some (Nat.max m rf) | None => Some rf end
                 else acc) rfs None.

  (* The precomputed rings as the code materialises them (one replica list per ring token). *)
  Definition pre_ring_simple (g : ring N) (pre : list strategy) : ring (list N) :=
    sort_ring (map (fun e => (fst e, simple_replicas g (fst e) (max_global_rf pre))) g).
  Definition pre_ring_nts (g : ring N) (d : N) (rf : nat) : ring (list N) :=
    sort_ring (map (fun e => (fst e, nts_replicas g (fst e) d rf)) (dc_ring g d)).

  (* Looking a token up in a precomputed ring lands on the same index as in the ring it was
     built from (same tokens), and the list stored there was computed for that entry's token.
     The model evaluates exactly that entry instead of materialising the whole ring
     (Replicas_proofs.pre_lookup_simple_materialised / pre_lookup_nts_materialised show the
     two coincide). *)
  Definition pre_lookup {B} (r : ring N) (f : Z -> B) (t : Z) : option B :=
    option_map (fun e => f (fst e)) (get_entry_for_token r t).

  (* get_precomputed_simple_strategy_replicas *)
  Definition get_pre_simple (g : ring N) (pre : list strategy) (t : Z) (rf : nat) : option (list N) :=
    let mx := max_global_rf pre in
    if (mx <? rf)%nat then None else
    match pre_lookup g (fun tk => simple_replicas g tk mx) t with
    | None => None
    | Some l => Some (firstn (Nat.min (List.length l) rf) l)
    end.

  (* DatacenterPrecomputedReplicas::get_replica_ring_for_rf, as the replication factor the
     selected ring was computed with *)
  Definition pre_ring_rf (g : ring N) (pre : list strategy) (d : N) (rf : nat) : option nat :=
    let rfs := dc_rfs pre d in
    match rfs, dc_ring g d with
    | [], _ => None                      (* `datacenter_replicas.get(dc_name)?` *)
    | _, [] => None                      (* `None => continue` : datacenter not on the ring *)
    | _, _ =>
        let racks := rack_count (dc_ring g d) in
        match compressed_rf rfs racks with
        | Some m => if (rf <=? m)%nat then Some m
                    else if (racks <? rf)%nat && existsb (Nat.eqb rf) rfs then Some rf else None
        | None => if (racks <? rf)%nat && existsb (Nat.eqb rf) rfs then Some rf else None
        end
    end.

  (* get_precomputed_network_strategy_replicas *)
  Definition get_pre_nts (g : ring N) (pre : list strategy) (t : Z) (d : N) (rf : nat) : option (list N) :=
    match pre_ring_rf g pre d rf with
    | None => None
    | Some m =>
        match pre_lookup (dc_ring g d) (fun tk => nts_replicas g tk d m) t with
        | None => None
        | Some l => Some (firstn (Nat.min (List.length l) rf) l)
        end
    end.

  (* ReplicaLocator::get_simple_strategy_replicas / get_network_strategy_replicas *)
  Definition get_simple (g : ring N) (pre : list strategy) (t : Z) (rf : nat) : list N :=
    match rf with
    | O => []
    | _ => match get_pre_simple g pre t rf with
           | Some l => l
           | None => simple_replicas g t rf
           end
    end.
  Definition get_nts (g : ring N) (pre : list strategy) (t : Z) (d : N) (rf : nat) : list N :=
    match rf with
    | O => []
    | _ => match get_pre_nts g pre t d rf with
           | Some l => l
           | None => nts_replicas g t d rf
           end
    end.

  (* ---- ReplicaSet ---------------------------------------------------------------------- *)
  Inductive rset :=
  | RPlain (l : list N)
  | RFiltered (l : list N) (d : N)
  | RChained (m : list (N * nat)).

  (* replicas_for_token (token-ring tables) *)
  Definition replicas_for (g : ring N) (pre : list strategy) (t : Z) (s : strategy) (dc : option N) : rset :=
    let simple rf :=
      match dc with
      | Some d => RFiltered (get_simple g pre t rf) d
      | None => RPlain (get_simple g pre t rf)
      end in
    match s with
    | Simple rf => simple rf
    | NTS m =>
        match dc with
        | Some d => match rf_lookup m d with
                    | Some rf => RPlain (get_nts g pre t d rf)
                    | None => RPlain []
                    end
        | None => RChained m
        end
    | LocalS | OtherS => simple 1%nat      (* "Fallback to simple strategy with replication factor = 1" *)
    end.

  Section Views.
    Variables (g : ring N) (pre : list strategy) (t : Z).

    Definition nodes_in_dc (d : N) : nat := List.length (unique_nodes (dc_ring g d)).

    (* ReplicaSet::len *)
    Definition rs_len (s : rset) : nat :=
      match s with
      | RPlain l => List.length l
      | RFiltered l d => List.length (filter (in_dc d) l)
      | RChained m => fold_right (fun e acc => (Nat.min (snd e) (nodes_in_dc (fst e)) + acc)%nat) 0%nat m
      end.

    (* into_iter : everything the iterator yields *)
    Definition rs_iter (s : rset) : list N :=
      match s with
      | RPlain l => l
      | RFiltered l d => filter (in_dc d) l
      | RChained m => flat_map (fun d => get_nts g pre t d (rf_or0 m d)) (ring_dcs g)
      end.

    (* ReplicaSetIterator::nth on a fresh iterator.  ChainedNTS: the loop over datacenters;
       [cur] = replicas of the current datacenter, [rest] = datacenters after it. *)
    Fixpoint nth_chained (m : list (N * nat)) (rest : list N) (cur : list N) (remaining : nat) : option N :=
      if (remaining <? List.length cur)%nat then nth_error cur remaining
      else match rest with
           | d :: rest' => nth_chained m rest' (get_nts g pre t d (rf_or0 m d)) (remaining - List.length cur)
           | [] => None
           end.
    Definition rs_nth (s : rset) (k : nat) : option N :=
      match s with
      | RPlain l => if (List.length l <=? k)%nat then None else nth_error l k
      | RFiltered l d => nth_error (filter (in_dc d) l) k
      | RChained m =>
          match ring_dcs g with
          | [] => None                                       (* Plain { EMPTY_REPLICAS } *)
          | d :: rest => nth_chained m rest (get_nts g pre t d (rf_or0 m d)) k
          end
      end.

    (* ReplicaSetIterator as the state machine it is: next() and nth(n) may be interleaved.
       IPlain: (replicas, idx); IFiltered: (replicas, datacenter, idx);
       IChained: (current datacenter's replicas, replicas_idx, datacenters still to come). *)
    Inductive istate :=
    | IPlain (l : list N) (idx : nat)
    | IFiltered (l : list N) (d : N) (idx : nat)
    | IChained (m : list (N * nat)) (cur : list N) (ridx : nat) (rest : list N).
    Definition it_init (s : rset) : istate :=
      match s with
      | RPlain l => IPlain l 0
      | RFiltered l d => IFiltered l d 0
      | RChained m => match ring_dcs g with
                      | [] => IPlain [] 0
                      | d :: rest => IChained m (get_nts g pre t d (rf_or0 m d)) 0 rest
                      end
      end.
    (* `while let Some(replica) = replicas.get(idx) { idx += 1; if dc matches { return } }` *)
    Fixpoint filt_next (d : N) (suffix : list N) (idx : nat) : option N * nat :=
      match suffix with
      | [] => (None, idx)
      | x :: r => if in_dc d x then (Some x, S idx) else filt_next d r (S idx)
      end.
    Fixpoint chain_next (m : list (N * nat)) (cur : list N) (ridx : nat) (rest : list N) : option N * istate :=
      match nth_error cur ridx with
      | Some x => (Some x, IChained m cur (S ridx) rest)
      | None => match rest with
                | d :: r => chain_next m (get_nts g pre t d (rf_or0 m d)) 0 r
                | [] => (None, IChained m cur ridx [])
                end
      end.
    Definition it_next (st : istate) : option N * istate :=
      match st with
      | IPlain l idx => match nth_error l idx with
                        | Some x => (Some x, IPlain l (S idx))
                        | None => (None, IPlain l idx)
                        end
      | IFiltered l d idx => let (o, idx') := filt_next d (skipn idx l) idx in (o, IFiltered l d idx')
      | IChained m cur ridx rest => chain_next m cur ridx rest
      end.
    (* FilteredSimple::nth : `for _ in 0..n { self.next()?; } self.next()` *)
    Fixpoint next_times (n : nat) (st : istate) : option N * istate :=
      match n with
      | O => it_next st
      | S n' => let (o, st') := it_next st in
                match o with None => (None, st') | Some _ => next_times n' st' end
      end.
    (* ChainedNTS::nth : the loop over datacenters *)
    Fixpoint chain_nth (m : list (N * nat)) (cur : list N) (ridx : nat) (rest : list N) (remaining : nat)
      : option N * istate :=
      let left := (List.length cur - ridx)%nat in
      if (remaining <? left)%nat then chain_next m cur (ridx + remaining) rest
      else match rest with
           | d :: r => chain_nth m (get_nts g pre t d (rf_or0 m d)) 0 r (remaining - left)
           | [] => (None, IChained m cur (List.length cur) [])
           end.
    Definition it_nth (n : nat) (st : istate) : option N * istate :=
      match st with
      | IPlain l idx =>
          let idx' := (idx + n)%nat in
          if (List.length l <=? idx')%nat then (None, IPlain l (List.length l)) else it_next (IPlain l idx')
      | IFiltered _ _ _ => next_times n st
      | IChained m cur ridx rest => chain_nth m cur ridx rest n
      end.
    Inductive iop := INext | INth (k : nat).
    Fixpoint it_run (ops : list iop) (st : istate) : list (option N) :=
      match ops with
      | [] => []
      | op :: r => let (o, st') := match op with INext => it_next st | INth k => it_nth k st end in
                   o :: it_run r st'
      end.
    Definition rs_run (s : rset) (ops : list iop) : list (option N) := it_run ops (it_init s).

    (* ReplicaSetIterator::size_hint.  usize subtraction is written with truncated [-]; that it
       never underflows in a reachable state is part of C04_size_hint. *)
    Definition sum_rf (m : list (N * nat)) : nat := fold_right (fun e acc => (snd e + acc)%nat) 0%nat m.
    Definition it_size_hint (st : istate) : nat * nat :=
      match st with
      | IPlain l idx => ((List.length l - idx)%nat, (List.length l - idx)%nat)
      | IFiltered l _ idx => (0%nat, (List.length l - idx)%nat)
      | IChained m cur ridx rest =>
          (* datacenter_idx = number of ring datacenters already left behind *)
          let prev := firstn (List.length (ring_dcs g) - S (List.length rest)) (ring_dcs g) in
          let yielded := (fold_right (fun d acc => (rf_or0 m d + acc)%nat) 0%nat prev + ridx)%nat in
          ((List.length cur - ridx)%nat, (sum_rf m - yielded)%nat)
      end.
    Fixpoint it_run_hints (ops : list iop) (st : istate) : list (nat * nat) :=
      it_size_hint st ::
      match ops with
      | [] => []
      | op :: r => it_run_hints r (snd (match op with INext => it_next st | INth k => it_nth k st end))
      end.
    Definition rs_run_hints (s : rset) (ops : list iop) : list (nat * nat) := it_run_hints ops (it_init s).
    (* ReplicasOrderedIterator::size_hint before the first next() *)
    Definition rs_ordered_hint (s : rset) : nat * nat :=
      match s with
      | RChained m => (0%nat, sum_rf m)
      | _ => it_size_hint (it_init s)
      end.

    (* ReplicaSet::choose with the random index as an oracle argument (the code draws it from
       0..len and returns None when len = 0) *)
    Fixpoint choose_chained (m : list (N * nat)) (dcs : list N) (to_skip : nat) : option N :=
      match dcs with
      | [] => None
      | d :: rest =>
          let repfactor := Nat.min (rf_or0 m d) (nodes_in_dc d) in
          if (to_skip <? repfactor)%nat then nth_error (get_nts g pre t d repfactor) to_skip
          else choose_chained m rest (to_skip - repfactor)
      end.
    Definition rs_choose (s : rset) (index : nat) : option N :=
      if (rs_len s =? 0)%nat then None else
      match s with
      | RPlain l => nth_error l index
      | RFiltered l d => nth_error (filter (in_dc d) l) index
      | RChained m => choose_chained m (ring_dcs g) index
      end.

    (* ReplicasOrderedNTSIterator.  Result: (yielded sequence, what is left in `all_replicas`
       when the ring walk ends — the code asserts that this is empty). *)
    Definition has_replicas (m : list (N * nat)) (n : N) : bool :=
      match dcf n with
      | Some d => match rf_lookup m d with Some rf => (0 <? rf)%nat | None => false end
      | None => false
      end.
    Fixpoint order_by_walk (all walk : list N) : list N * list N :=
      match walk with
      | [] => ([], all)
      | n :: r =>
          match all with
          | [] => ([], [])                                  (* "All replicas were put in order." *)
          | _ => if mem n all
                 then let (o, left) := order_by_walk (remove_by N.eqb n all) r in (n :: o, left)
                 else order_by_walk all r
          end
      end.
    Definition ordered_nts (m : list (N * nat)) : list N * list N :=
      let walk := ring_range g t in
      match find (has_replicas m) walk with
      | None => ([], [])
      | Some picked =>
          let all := uniq (flat_map (fun e => get_nts g pre t (fst e) (snd e)) m) in
          let (o, left) := order_by_walk (remove_by N.eqb picked all) walk in
          (picked :: o, left)
      end.
    Definition rs_ordered (s : rset) : list N * list N :=
      match s with
      | RChained m => ordered_nts m
      | _ => (rs_iter s, [])
      end.
  End Views.

  (* ======================= SPECIFICATION (from the property text) ======================= *)

  (* SimpleStrategy: "the first RF distinct nodes clockwise from the token" *)
  Fixpoint first_distinct (rf : nat) (acc : list N) (walk : list N) : list N :=
    match walk with
    | [] => acc
    | n :: r =>
        if (rf <=? List.length acc)%nat then acc
        else if mem n acc then first_distinct rf acc r
        else first_distinct rf (acc ++ [n]) r
    end.
  Definition spec_simple (g : ring N) (t : Z) (rf : nat) : list N :=
    first_distinct rf [] (map snd (clockwise g t)).

  (* NetworkTopologyStrategy, one datacenter: "walking that datacenter's nodes clockwise,
     taking a node if its rack is new or if rack repeats are still allowed (RF minus rack
     count), until min(RF, nodes) are found".  State = the accepted list only: the racks used
     and the repeats consumed are read off it.  Every ring position of the datacenter is
     considered (a node passed over earlier is considered again at its next token). *)
  Definition racks_of (l : list N) : list (option N) := uniq_by oeqb (map rackf l).
  Fixpoint spec_nts_fold (want allowed : nat) (acc : list N) (walk : list N) : list N :=
    match walk with
    | [] => acc
    | n :: r =>
        if (want <=? List.length acc)%nat then acc
        else if mem n acc then spec_nts_fold want allowed acc r
        else if negb (mem_by oeqb (rackf n) (map rackf acc))
                || (List.length acc - List.length (racks_of acc) <? allowed)%nat
             then spec_nts_fold want allowed (acc ++ [n]) r
             else spec_nts_fold want allowed acc r
    end.
  Definition spec_nts_dc (g : ring N) (t : Z) (d : N) (rf : nat) : list N :=
    let positions := filter (fun e => in_dc d (snd e)) g in
    let nodes := List.length (uniq (map snd positions)) in
    let racks := List.length (racks_of (map snd positions)) in
    spec_nts_fold (Nat.min rf nodes) (rf - racks) [] (map snd (clockwise positions t)).
  (* all datacenters: the per-datacenter answers, chained in the order in which the
     datacenters first appear on the ring *)
  Definition spec_nts (g : ring N) (t : Z) (m : list (N * nat)) : list N :=
    flat_map (fun d => spec_nts_dc g t d (rf_or0 m d)) (ring_dcs g).

  Definition spec_replicas (g : ring N) (t : Z) (s : strategy) (dc : option N) : list N :=
    let all := match s with
               | Simple rf => spec_simple g t rf
               | NTS m => spec_nts g t m
               | LocalS | OtherS => spec_simple g t 1
               end in
    match dc with
    | Some d => filter (in_dc d) all
    | None => all
    end.
End Topo.

(* ---- helpers for the correspondence driver ---------------------------------------------- *)
(* node attribute functions from association lists *)
Fixpoint assoc_opt (l : list (N * option N)) (n : N) : option N :=
  match l with
  | [] => None
  | (k, v) :: r => if N.eqb k n then v else assoc_opt r n
  end.

Fixpoint list_eqb (a b : list N) : bool :=
  match a, b with
  | [], [] => true
  | x :: a', y :: b' => N.eqb x y && list_eqb a' b'
  | _, _ => false
  end.
Definition subset (a b : list N) : bool := forallb (fun x => mem x b) a.
Fixpoint nodupb (l : list N) : bool :=
  match l with [] => true | x :: r => negb (mem x r) && nodupb r end.
(* same set of nodes, no node twice *)
Definition same_set (a b : list N) : bool :=
  nodupb a && nodupb b && subset a b && subset b a.

(* ---- with_computed_shard ------------------------------------------------------------------
   Every view of a token-ring ReplicaSet yields (node, shard) with
   `node.sharder().map(|sharder| sharder.shard_of(token)).unwrap_or(0)`; [sharderf n] is the node's
   sharder (nr_shards, msb_ignore) if it has one; shard_of is C11's model (Model/Shard.v). *)
Definition computed_shard (sharderf : N -> option (N * N)) (t : Z) (n : N) : N :=
  match sharderf n with
  | Some (nr, msb) => shard_of nr msb t
  | None => 0%N
  end.
Definition with_shards (sharderf : N -> option (N * N)) (t : Z) (l : list N) : list (N * N) :=
  map (fun n => (n, computed_shard sharderf t n)) l.
Fixpoint assoc_pair (l : list (N * option (N * N))) (n : N) : option (N * N) :=
  match l with
  | [] => None
  | (k, v) :: r => if N.eqb k n then v else assoc_pair r n
  end.

(* what interleaved next() / nth(n) mean on the sequence an iterator yields *)
Fixpoint list_run (ops : list iop) (l : list N) : list (option N) :=
  match ops with
  | [] => []
  | INext :: r => hd_error l :: list_run r (tl l)
  | INth k :: r => nth_error l k :: list_run r (skipn (S k) l)
  end.

(* the property on observed views: the reported replicas are the specified SET of nodes
   (into_iter's order is not promised), the ring-ordered view is those nodes in ring order *)
Definition placement_ok (spec observed : list N) : bool := same_set observed spec.
Definition ordered_ok (g : ring N) (t : Z) (iter ordered : list N) : bool :=
  list_eqb ordered (filter (fun x => mem x iter) (uniq (ring_range g t))).

(* the remaining property predicates of the correspondence driver, on the observed views of one
   replica set: [len] = len(), [iter] = into_iter(), [nth] = nth(k) for k = 0.., [choose] = choose
   for every scripted index, [cf] = choose_filtered with predicate [cfpred], [opsl] = interleavings
   of next()/nth(n) with what they yielded, [ep] = get_token_endpoints; and precomputed-or-not *)
Fixpoint olist_eqb (a b : list (option N)) : bool :=
  match a, b with
  | [], [] => true
  | x :: a', y :: b' => oeqb x y && olist_eqb a' b'
  | _, _ => false
  end.
Definition views_ok (len : nat) (iter : list N) (nth choose : list (option N)) (cf : option N)
    (cfpred : N -> bool) (opsl : list (list iop * list (option N))) (ep : option (list N)) : bool :=
  (len =? List.length iter)%nat && nodupb iter &&
  olist_eqb nth (map (nth_error iter) (seq 0 (List.length nth))) &&
  (List.length choose =? len)%nat &&
  forallb (fun o => match o with Some x => mem x iter | None => false end) choose &&
  match cf with
  | Some x => mem x iter && cfpred x
  | None => forallb (fun x => negb (cfpred x)) iter
  end &&
  forallb (fun p => olist_eqb (snd p) (list_run (fst p) iter)) opsl &&
  match ep with Some l => same_set l iter | None => true end.
Definition precomputed_ok (not_precomputed iter : list N) : bool := same_set not_precomputed iter.

(* tokens of the global ring all distinct / distinct inside every datacenter *)
Definition tokens_distinct (g : ring N) : bool := sorted_strictb g.
Definition dc_tokens_distinct (dcf : N -> option N) (g : ring N) : bool :=
  forallb (fun d => sorted_strictb (dc_ring dcf g d)) (ring_dcs dcf g).
