(* Property C08 — model, part 2: column types and the binary type grammar
   (scylla-cql/src/frame/response/result.rs, deser_type_generic_nested l.530-654, with the
   nesting limit MAX_TYPE_NESTING_DEPTH of commit ebad268), column / table specs
   (deser_table_spec, deser_col_specs_generic l.675-715 with the capped preallocation of commit
   3ad5892).  The parser of custom-type strings (type id 0x0000) is a parameter here; its model
   is Model/FrameCustom.v.  Executable definitions only. *)
From SV Require Import Base.Prelude Base.Bytes Model.FrameBase.
Open Scope N_scope.

Inductive native : Type :=
| Ascii | Boolean | Blob | Counter | Date | Decimal | Double | Duration | Float | Int | BigInt
| Text | Timestamp | Inet | SmallInt | TinyInt | Time | Timeuuid | Uuid | Varint.

(* ColumnType; strings are raw UTF-8 byte strings *)
Inductive coltype : Type :=
| TNative (n : native)
| TList (frozen : bool) (e : coltype)
| TSet (frozen : bool) (e : coltype)
| TMap (frozen : bool) (k v : coltype)
| TVector (e : coltype) (dim : N)
| TUdt (frozen : bool) (ks name : bytes) (fields : list (bytes * coltype))
| TTuple (elems : list coltype).

(* nesting depth of a decoded type (a leaf has depth 1) *)
Fixpoint type_depth (t : coltype) : N :=
  match t with
  | TNative _ => 1
  | TList _ e | TSet _ e | TVector e _ => 1 + type_depth e
  | TMap _ k v => 1 + N.max (type_depth k) (type_depth v)
  | TUdt _ _ _ fs => 1 + fold_right (fun f m => N.max (type_depth (snd f)) m) 0 fs
  | TTuple es => 1 + fold_right (fun e m => N.max (type_depth e) m) 0 es
  end.

Definition native_of_id (id : N) : option native :=
  match id with
  | 1 => Some Ascii | 2 => Some BigInt | 3 => Some Blob | 4 => Some Boolean | 5 => Some Counter
  | 6 => Some Decimal | 7 => Some Double | 8 => Some Float | 9 => Some Int
  | 11 => Some Timestamp | 12 => Some Uuid | 13 => Some Text | 14 => Some Varint
  | 15 => Some Timeuuid | 16 => Some Inet | 17 => Some Date | 18 => Some Time
  | 19 => Some SmallInt | 20 => Some TinyInt | 21 => Some Duration
  | _ => None
  end.
Definition id_of_native (n : native) : N :=
  match n with
  | Ascii => 1 | BigInt => 2 | Blob => 3 | Boolean => 4 | Counter => 5 | Decimal => 6
  | Double => 7 | Float => 8 | Int => 9 | Timestamp => 11 | Uuid => 12 | Text => 13
  | Varint => 14 | Timeuuid => 15 | Inet => 16 | Date => 17 | Time => 18 | SmallInt => 19
  | TinyInt => 20 | Duration => 21
  end.

Definition MAX_TYPE_NESTING_DEPTH : N := 128.
(* size_of::<ColumnType>() and size_of::<(Cow<str>, ColumnType)>() on x86_64 *)
Definition SZ_COLTYPE : N := 32.
Definition SZ_UDT_FIELD : N := 56.
Definition SZ_COLSPEC : N := 104.
Definition SZ_PKINDEX : N := 4.

(* result of the custom-type string parser: outcome and the nesting depth it reached *)
Definition custom_parser : Type := bytes -> (result ferr coltype * N).

Section WithCustom.
Variable custom : custom_parser.

(* deser_type_generic_nested.  [fuel] only has to exceed the nesting limit: the depth check
   comes first, so a constant fuel of MAX+2 is never exhausted (deser_type_fuel_enough). *)
Fixpoint deser_type_f (fuel : nat) (depth : N) : parser coltype :=
  match fuel with
  | O => fail EOutOfFuel
  | S f =>
    if MAX_TYPE_NESTING_DEPTH <? depth then fail ETypeNestingTooDeep
    else
      tick_depth (depth + 1) ;;;
      id <- read_short ;;
      if id =? 0 then
        s <- read_string ;;
        (fun b => let '(r, d) := custom s in
                  (match r with Ok t => Ok (t, b) | Err e => Err e end, mkCost 0 (depth + 1 + d)))
      else if id =? 32 then e <- deser_type_f f (depth + 1) ;; ret (TList false e)
      else if id =? 33 then
        k <- deser_type_f f (depth + 1) ;; v <- deser_type_f f (depth + 1) ;; ret (TMap false k v)
      else if id =? 34 then e <- deser_type_f f (depth + 1) ;; ret (TSet false e)
      else if id =? 48 then
        ks <- read_string ;; name <- read_string ;; n <- read_short ;;
        tick_alloc_capped n 4 SZ_UDT_FIELD ;;;
        fs <- repeatS (fname <- read_string ;; ft <- deser_type_f f (depth + 1) ;; ret (fname, ft)) n ;;
        ret (TUdt false ks name fs)
      else if id =? 49 then
        n <- read_short ;;
        tick_alloc_capped n 2 SZ_COLTYPE ;;;
        es <- repeatS (deser_type_f f (depth + 1)) n ;;
        ret (TTuple es)
      else match native_of_id id with
           | Some nt => ret (TNative nt)
           | None => fail ETypeNotImplemented
           end
  end.

Definition TYPE_FUEL : nat := 130.
Definition deser_type : parser coltype := deser_type_f TYPE_FUEL 0.

(* TableSpec and ColumnSpec *)
Definition tablespec : Type := (bytes * bytes)%type.
Record colspec : Type := mkColSpec { cs_table : tablespec; cs_name : bytes; cs_type : coltype }.

Definition deser_table_spec : parser tablespec :=
  ks <- read_string ;; t <- read_string ;; ret (ks, t).

(* deser_col_specs_generic: Vec::with_capacity(col_count.min(buf.len())) *)
Definition deser_col_spec (global : option tablespec) : parser colspec :=
  ts <- match global with Some g => ret g | None => deser_table_spec end ;;
  name <- read_string ;;
  typ <- deser_type ;;
  ret (mkColSpec ts name typ).

Definition deser_col_specs (global : option tablespec) (col_count : N) : parser (list colspec) :=
  tick_alloc_capped col_count 1 SZ_COLSPEC ;;;
  repeatN (deser_col_spec global) col_count.

End WithCustom.

(* ---- specification side: the type notation of native_protocol_v4.spec §4.2.5.2 ---------- *)
Fixpoint enc_type (t : coltype) : bytes :=
  match t with
  | TNative n => enc_short (id_of_native n)
  | TList _ e => enc_short 32 ++ enc_type e
  | TMap _ k v => enc_short 33 ++ enc_type k ++ enc_type v
  | TSet _ e => enc_short 34 ++ enc_type e
  | TUdt _ ks name fs =>
    enc_short 48 ++ enc_string ks ++ enc_string name ++ enc_short (lenN fs)
      ++ flat_map (fun f => enc_string (fst f) ++ enc_type (snd f)) fs
  | TTuple es => enc_short 49 ++ enc_short (lenN es) ++ flat_map enc_type es
  | TVector _ _ => []          (* no binary notation (custom type string only): not well-formed *)
  end.

(* types expressible in the binary notation: no vectors, nothing frozen (the notation has no
   frozen marker), short counts, valid names, at most MAX+1 = 129 levels *)
Fixpoint wf_type_b (t : coltype) : bool :=
  match t with
  | TNative _ => true
  | TList fr e | TSet fr e => negb fr && wf_type_b e
  | TMap fr k v => negb fr && wf_type_b k && wf_type_b v
  | TVector _ _ => false
  | TUdt fr ks name fs =>
    negb fr && bytes_okb ks && (lenN ks <? 65536) && utf8_valid ks
    && bytes_okb name && (lenN name <? 65536) && utf8_valid name
    && (lenN fs <? 65536)
    && forallb (fun f => bytes_okb (fst f) && (lenN (fst f) <? 65536) && utf8_valid (fst f)
                         && wf_type_b (snd f)) fs
  | TTuple es => (lenN es <? 65536) && forallb wf_type_b es
  end.
Definition wf_type (t : coltype) : Prop :=
  wf_type_b t = true /\ type_depth t <= MAX_TYPE_NESTING_DEPTH + 1.

Definition enc_table_spec (ts : tablespec) : bytes := enc_string (fst ts) ++ enc_string (snd ts).
Definition enc_col_spec (global : bool) (c : colspec) : bytes :=
  (if global then [] else enc_table_spec (cs_table c)) ++ enc_string (cs_name c) ++ enc_type (cs_type c).
Definition wf_tablespec (ts : tablespec) : Prop := wf_string (fst ts) /\ wf_string (snd ts).
Definition wf_colspec (c : colspec) : Prop :=
  wf_tablespec (cs_table c) /\ wf_string (cs_name c) /\ wf_type (cs_type c).
