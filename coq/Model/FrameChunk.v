(* Property C08 — model, part 6: read_response_frame over a reader that delivers the stream in
   arbitrary chunks (scylla-cql/src/frame/mod.rs l.145-196: `read_exact` of the 9 header bytes, then
   `read_buf` into a Vec limited to the announced length until it is full or the reader reports end of
   stream).  A reader is the list of the non-empty chunks it will deliver; every `read` call offers a
   buffer of some positive size ([offers], an oracle: tokio's ReadBuf is as large as the spare capacity
   of the Vec, at most what is still missing) and receives min(offer, missing, chunk) bytes; an
   exhausted reader (or an empty chunk) is end of stream.  Executable definitions only. *)
From SV Require Import Base.Prelude Base.Bytes Model.FrameBase Model.FrameTypes Model.FrameResp.
Open Scope N_scope.

Definition chunks : Type := list bytes.

(* collect [need] bytes; None = end of stream before that (with what was collected) *)
Fixpoint read_n (fuel : nat) (need : N) (offers : list N) (cs : chunks) (acc : bytes)
  : (option bytes) * chunks :=
  if need =? 0 then (Some acc, cs)
  else match fuel with
       | O => (None, cs)
       | S f =>
         match cs with
         | [] => (None, [])
         | [] :: _ => (None, cs)                       (* read returned 0: end of stream *)
         | c :: cs' =>
           let offer := match offers with o :: _ => N.max 1 o | [] => need end in
           let k := N.min (N.min need offer) (lenN c) in
           let got := firstn (N.to_nat k) c in
           let left := skipn (N.to_nat k) c in
           read_n f (need - k) (tl offers) (match left with [] => cs' | _ => left :: cs' end) (acc ++ got)
         end
       end.

Definition stream_len (cs : chunks) : nat := length (concat cs) + length cs.

(* the frame reader on a chunked stream: header bytes, validation, body; the rest of the reader *)
Definition read_frame_chunked (offers : list N) (cs : chunks) : result ferr ((header * bytes) * chunks) :=
  match read_n (S (stream_len cs)) 9 offers cs [] with
  | (None, _) => Err EHeaderIo
  | (Some raw, cs1) =>
    match run parse_header raw with
    | Err e => Err e
    | Ok (h, _) =>
      match read_n (S (stream_len cs1)) (h_length h) (skipn 9 offers) cs1 [] with
      | (None, _) => Err EConnectionClosed
      | (Some body, cs2) => Ok ((h, body), cs2)
      end
    end
  end.

(* where the reader stands after the call, whatever its answer: behind the frame; behind the nine
   header bytes when the header was refused; at the end when the stream ran out *)
Definition reader_after (offers : list N) (cs : chunks) : chunks :=
  match read_n (S (stream_len cs)) 9 offers cs [] with
  | (None, r) => r
  | (Some raw, cs1) =>
    match run parse_header raw with
    | Err _ => cs1
    | Ok (h, _) => snd (read_n (S (stream_len cs1)) (h_length h) (skipn 9 offers) cs1 [])
    end
  end.

(* a stream cut into chunks of the given sizes, used cyclically (the tie's reader) *)
Fixpoint cut_chunks (fuel : nat) (sizes all : list N) (b : bytes) : chunks :=
  match fuel, b with
  | O, _ | _, [] => []
  | S f, _ =>
    let (k, rest) := match sizes with s :: r => (N.max 1 s, r) | [] => (1, []) end in
    firstn (N.to_nat k) b :: cut_chunks f (match rest with [] => all | _ => rest end) all (skipn (N.to_nat k) b)
  end.
