(* Model of scylla/src/network/connection.rs `open_connection_to_shard_aware_port`, the only
   production caller of the source-port iterator (property C11, deepening round 2).
   Executable definitions only; proofs are in Proofs/ShardConnect_proofs.v.

       let source_port_iter = sharder.iter_source_ports_for_shard_from_range(shard, &range);
       for port in source_port_iter {
           let connect_result = open_connection(endpoint, Some(port), config).await;
           match connect_result {
               Err(err) if err.is_address_unavailable_for_use() => continue,
               result => return result,
           }
       }
       Err(ConnectionError::NoSourcePortForShard(shard))

   `open_connection` (translate, bind the socket to (local_ip, port) WITHOUT SO_REUSEADDR unless
   the user asked for it, connect, CQL handshake) is an oracle: per port it yields one of the three
   classes the `match` distinguishes.  The oracle is a function of the port: the loop calls it at
   most once per port (C11_connect_tried: the attempts are duplicate-free), so a time-dependent environment is covered. *)
From SV Require Import Base.Prelude Model.Shard.
Open Scope N_scope.

(* the classes of `open_connection(endpoint, Some(port), config)`'s result the loop distinguishes *)
Inductive outcome :=
| AddrUnavailable        (* Err(err), err.is_address_unavailable_for_use(): IoError of kind
                            AddrInUse | PermissionDenied | AddrNotAvailable *)
| Connected              (* Ok((connection, error_receiver)) *)
| OtherError (e : N).    (* every other Err (timeout, refused, handshake, translation ...) *)

Inductive loop_result :=
| Conn (p : N)           (* Ok(..) of the connection opened from source port p *)
| Failed (p e : N)       (* the error of the attempt from source port p, returned as it is *)
| NoSourcePortForShard.  (* Err(ConnectionError::NoSourcePortForShard(shard)) *)

(* the `for` loop over the iterator's output *)
Fixpoint connect_loop (ports : list N) (avail : N -> outcome) : loop_result :=
  match ports with
  | [] => NoSourcePortForShard
  | p :: r =>
      match avail p with
      | AddrUnavailable => connect_loop r avail          (* continue *)
      | Connected => Conn p                              (* result => return result *)
      | OtherError e => Failed p e
      end
  end.

(* the source ports `open_connection` was called with, in call order *)
Fixpoint tried (ports : list N) (avail : N -> outcome) : list N :=
  match ports with
  | [] => []
  | p :: r => p :: match avail p with AddrUnavailable => tried r avail | _ => [] end
  end.

(* open_connection_to_shard_aware_port(endpoint, shard, sharder, config) with
   config.shard_aware_local_port_range = lo..=hi; the iterator's random pivot is an oracle *)
Definition open_shard_aware (n s lo hi : N) (pivot : nat) (avail : N -> outcome) : loop_result :=
  connect_loop (iter_ports n s lo hi pivot) avail.
Definition tried_shard_aware (n s lo hi : N) (pivot : nat) (avail : N -> outcome) : list N :=
  tried (iter_ports n s lo hi pivot) avail.

(* ---- what the end-to-end tie evaluates ------------------------------------------------- *)

Definition memb (p : N) (l : list N) : bool := existsb (N.eqb p) l.

(* one connection the mock node accepted on its shard-aware port: client source port [port], the
   shard the node assigned to it (and reported in SUPPORTED) [shard]; [pre] = the local ports the
   harness holds bound on the client address (every attempt from them is address-in-use).
   This is the property's sentence for the observation point "source port of shard-aware
   connections accepted by the mock node". *)
Definition accept_conn (n lo hi : N) (pre : list N) (port shard : N) : bool :=
  (lo <=? port) && (port <=? hi) && (port mod n =? shard) && negb (memb port pre).

Definition accept_conns (n lo hi : N) (pre : list N) (obs : list (N * N)) : bool :=
  forallb (fun c => accept_conn n lo hi pre (fst c) (snd c)) obs.

(* a shard for which the loop can only end in NoSourcePortForShard: every port of the
   specification's port set is held by the harness (in particular: there is none) *)
Definition starvedb (n s lo hi : N) (pre : list N) : bool :=
  forallb (fun p => memb p pre) (spec_ports n s lo hi).

(* the environments of the end-to-end tie: attempts from a pre-bound port are address-in-use *)
Definition respects (pre : list N) (avail : N -> outcome) : Prop :=
  forall q, In q pre -> avail q = AddrUnavailable.

(* ---- what the driver RUNS on the end-to-end lines -------------------------------------- *)

(* the environment of a scenario as far as it is known: exactly the ports of [busy] (held by the
   harness, or carrying a connection of the session) are address-unavailable, every other attempt
   connects *)
Definition env_busy (busy : list N) : N -> outcome :=
  fun q => if memb q busy then AddrUnavailable else Connected.

(* successive runs of open_connection_to_shard_aware_port for one shard -- one per pool slot the
   refiller wants to fill through the shard-aware port, over all nodes: the client address and so
   the local ports are shared -- , [pivots] = the pivot every run draws.  The source port of a
   connection that was opened stays busy for the later runs (bound socket; TIME_WAIT after the
   driver dropped it).  Result: the source ports of the connections opened, in order. *)
Fixpoint open_many (n s lo hi : N) (pivots : list nat) (busy : list N) : list N :=
  match pivots with
  | [] => []
  | pv :: r =>
      match open_shard_aware n s lo hi pv (env_busy busy) with
      | Conn p => p :: open_many n s lo hi r (p :: busy)
      | _ => open_many n s lo hi r busy
      end
  end.

(* the ports of the shard that are not busy *)
Definition free_ports (n s lo hi : N) (busy : list N) : list N :=
  filter (fun p => negb (memb p busy)) (spec_ports n s lo hi).

(* is [port] the outcome of the loop for SOME pivot below [k] in the known environment? *)
Fixpoint some_pivot_gives (n s lo hi : N) (busy : list N) (port : N) (k : nat) : bool :=
  match k with
  | O => false
  | S k' =>
      match open_shard_aware n s lo hi k' (env_busy busy) with
      | Conn p => (p =? port) || some_pivot_gives n s lo hi busy port k'
      | _ => some_pivot_gives n s lo hi busy port k'
      end
  end.

(* ---- the refiller's first round, as far as the count check needs it (deepening round 3) ----
   connection_pool.rs start_filling with PoolSize::PerShard(per): for every shard the refiller starts
   `per - shard_conns.len()` openings through the shard-aware port; when the first round starts a node's
   pool holds exactly its first connection (opened through the plain port because the pool was empty),
   on the shard [f] the node chose.  [firsts] = that shard for every node.  All nodes draw from the
   same local ports, so the runs for one shard add up over the nodes. *)
Definition runs_for_shard (per : nat) (firsts : list N) (s : N) : nat :=
  fold_left (fun a f => (a + (per - (if N.eqb f s then 1 else 0)))%nat) firsts O.

(* the interval the number of shard-aware connections of shard [s] must lie in: [pre] = ports held
   by the harness for the whole scenario, [busy] = ports found busy from outside when it started
   (unavailable for an unknown part of it) *)
Definition shard_count_bounds (n lo hi : N) (per : nat) (firsts pre busy : list N) (s : N) : nat * nat :=
  let pivots := seq 0 (runs_for_shard per firsts s) in
  (List.length (open_many n s lo hi pivots (pre ++ busy)), List.length (open_many n s lo hi pivots pre)).
