(* Property C08 — model, part 3: frame header, body extensions and every response body.
   Sources: scylla-cql/src/frame/mod.rs (read_response_frame l.145-196 with the capped body
   preallocation of commit af4e619, parse_response_body_extensions l.221-274),
   scylla-cql/src/frame/response/{mod.rs,result.rs,event.rs,supported.rs,authenticate.rs},
   scylla-cql-core/src/frame/response/error.rs, scylla-cql-core/src/deserialize/result.rs
   (RawRowIterator).  Executable definitions only. *)
From SV Require Import Base.Prelude Base.Bytes Model.FrameBase Model.FrameTypes.
From Coq Require Import Ascii String.
Open Scope N_scope.

Definition astr (s : string) : bytes := List.map N_of_ascii (list_ascii_of_string s).
Definition is_str (b : bytes) (s : string) : bool := bytes_eqb b (astr s).

(* ---- negotiated features that influence decoding (ProtocolFeatures) -------------------- *)
Record features : Type := mkFeatures { ft_rate_limit : option Z; ft_metadata_id : bool }.

(* ---- ERROR (error.rs l.35-158) --------------------------------------------------------- *)
Inductive write_type : Type :=
| WtSimple | WtBatch | WtUnloggedBatch | WtCounter | WtBatchLog | WtCas | WtView | WtCdc
| WtOther (s : bytes).
Definition write_type_of (s : bytes) : write_type :=
  if is_str s "SIMPLE" then WtSimple else if is_str s "BATCH" then WtBatch
  else if is_str s "UNLOGGED_BATCH" then WtUnloggedBatch else if is_str s "COUNTER" then WtCounter
  else if is_str s "BATCH_LOG" then WtBatchLog else if is_str s "CAS" then WtCas
  else if is_str s "VIEW" then WtView else if is_str s "CDC" then WtCdc else WtOther s.
Definition write_type_str (w : write_type) : bytes :=
  match w with
  | WtSimple => astr "SIMPLE" | WtBatch => astr "BATCH" | WtUnloggedBatch => astr "UNLOGGED_BATCH"
  | WtCounter => astr "COUNTER" | WtBatchLog => astr "BATCH_LOG" | WtCas => astr "CAS"
  | WtView => astr "VIEW" | WtCdc => astr "CDC" | WtOther s => s
  end.

Inductive dberror : Type :=
| DbServerError | DbProtocolError | DbAuthenticationError
| DbUnavailable (cl : N) (required alive : Z)
| DbOverloaded | DbIsBootstrapping | DbTruncateError
| DbWriteTimeout (cl : N) (received required : Z) (wt : write_type)
| DbReadTimeout (cl : N) (received required : Z) (data_present : bool)
| DbReadFailure (cl : N) (received required numfailures : Z) (data_present : bool)
| DbFunctionFailure (ks func : bytes) (arg_types : list bytes)
| DbWriteFailure (cl : N) (received required numfailures : Z) (wt : write_type)
| DbSyntaxError | DbUnauthorized | DbInvalid | DbConfigError
| DbAlreadyExists (ks table : bytes)
| DbUnprepared (id : bytes)
| DbRateLimitReached (op_type : N) (rejected_by_coordinator : bool)
| DbOther (code : Z).

Definition read_bool : parser bool := v <- read_u8 ;; ret (negb (v =? 0)).

Definition known_error_codes : list Z :=
  [0; 10; 256; 4096; 4097; 4098; 4099; 4352; 4608; 4864; 5120; 5376; 8192; 8448; 8704; 8960; 9216; 9472]%Z.

Definition deser_error (ft : features) : parser (dberror * bytes) :=
  code <- read_int ;;
  reason <- read_string ;;
  e <- (if code =? 0 then ret DbServerError
   else if code =? 10 then ret DbProtocolError
   else if code =? 256 then ret DbAuthenticationError
   else if code =? 4096 then
     cl <- read_consistency ;; rq <- read_int ;; al <- read_int ;; ret (DbUnavailable cl rq al)
   else if code =? 4097 then ret DbOverloaded
   else if code =? 4098 then ret DbIsBootstrapping
   else if code =? 4099 then ret DbTruncateError
   else if code =? 4352 then
     cl <- read_consistency ;; rc <- read_int ;; rq <- read_int ;; wt <- read_string ;;
     ret (DbWriteTimeout cl rc rq (write_type_of wt))
   else if code =? 4608 then
     cl <- read_consistency ;; rc <- read_int ;; rq <- read_int ;; dp <- read_bool ;;
     ret (DbReadTimeout cl rc rq dp)
   else if code =? 4864 then
     cl <- read_consistency ;; rc <- read_int ;; rq <- read_int ;; nf <- read_int ;; dp <- read_bool ;;
     ret (DbReadFailure cl rc rq nf dp)
   else if code =? 5120 then
     ks <- read_string ;; fn <- read_string ;; args <- read_string_list ;;
     ret (DbFunctionFailure ks fn args)
   else if code =? 5376 then
     cl <- read_consistency ;; rc <- read_int ;; rq <- read_int ;; nf <- read_int ;; wt <- read_string ;;
     ret (DbWriteFailure cl rc rq nf (write_type_of wt))
   else if code =? 8192 then ret DbSyntaxError
   else if code =? 8448 then ret DbUnauthorized
   else if code =? 8704 then ret DbInvalid
   else if code =? 8960 then ret DbConfigError
   else if code =? 9216 then ks <- read_string ;; t <- read_string ;; ret (DbAlreadyExists ks t)
   else if code =? 9472 then id <- read_short_bytes ;; ret (DbUnprepared id)
   else match ft_rate_limit ft with
        | Some rl => if code =? rl then op <- read_u8 ;; rj <- read_bool ;; ret (DbRateLimitReached op rj)
                     else ret (DbOther code)
        | None => ret (DbOther code)
        end)%Z ;;
  ret (e, reason).

(* ---- EVENT / schema change (event.rs) ------------------------------------------------------ *)
Inductive change_type : Type := CtCreated | CtUpdated | CtDropped | CtInvalid.
Definition change_type_of (s : bytes) : change_type :=
  if is_str s "CREATED" then CtCreated else if is_str s "UPDATED" then CtUpdated
  else if is_str s "DROPPED" then CtDropped else CtInvalid.

Inductive schema_change : Type :=
| ScKeyspace (ct : change_type) (ks : bytes)
| ScTable (ct : change_type) (ks name : bytes)
| ScType (ct : change_type) (ks name : bytes)
| ScFunction (ct : change_type) (ks name : bytes) (args : list bytes)
| ScAggregate (ct : change_type) (ks name : bytes) (args : list bytes).

(* Vec::with_capacity(number_of_arguments) of Strings, then the arguments *)
Definition read_arg_list : parser (list bytes) :=
  n <- read_short ;; tick_alloc_capped n 2 SZ_STRING ;;; repeatS read_string n.

Definition deser_schema_change : parser schema_change :=
  cts <- read_string ;;
  target <- read_string ;;
  ks <- read_string ;;
  let ct := change_type_of cts in
  if is_str target "KEYSPACE" then ret (ScKeyspace ct ks)
  else if is_str target "TABLE" then n <- read_string ;; ret (ScTable ct ks n)
  else if is_str target "TYPE" then n <- read_string ;; ret (ScType ct ks n)
  else if is_str target "FUNCTION" then n <- read_string ;; a <- read_arg_list ;; ret (ScFunction ct ks n a)
  else if is_str target "AGGREGATE" then n <- read_string ;; a <- read_arg_list ;; ret (ScAggregate ct ks n a)
  else fail EUnknownSchemaTarget.

(* uuid::Uuid::try_parse on a [string]: simple / hyphenated / braced / urn forms *)
Definition hexval (c : N) : option N :=
  if in_rng 48 57 c then Some (c - 48)
  else if in_rng 97 102 c then Some (c - 87)
  else if in_rng 65 70 c then Some (c - 55)
  else None.
Fixpoint hex_pairs (l : bytes) : option bytes :=
  match l with
  | [] => Some []
  | a :: b :: r =>
    match hexval a, hexval b, hex_pairs r with
    | Some x, Some y, Some t => Some (x * 16 + y :: t)
    | _, _, _ => None
    end
  | _ => None
  end.
Definition parse_simple32 (s : bytes) : option bytes :=
  if lenN s =? 32 then hex_pairs s else None.
Definition nth_is (s : bytes) (i : nat) (c : N) : bool :=
  match nth_error s i with Some x => x =? c | None => false end.
Definition parse_hyphenated (s : bytes) : option bytes :=
  if (lenN s =? 36) && nth_is s 8 45 && nth_is s 13 45 && nth_is s 18 45 && nth_is s 23 45 then
    hex_pairs (firstn 8 s ++ firstn 4 (skipn 9 s) ++ firstn 4 (skipn 14 s)
               ++ firstn 4 (skipn 19 s) ++ skipn 24 s)
  else None.
Definition parse_uuid_text (s : bytes) : option bytes :=
  let n := lenN s in
  if n =? 32 then parse_simple32 s
  else if n =? 36 then parse_hyphenated s
  else if (n =? 38) && nth_is s 0 123 && nth_is s 37 125 then parse_hyphenated (firstn 36 (skipn 1 s))
  else if (n =? 45) && bytes_eqb (firstn 9 s) (astr "urn:uuid:") then parse_hyphenated (skipn 9 s)
  else None.

Inductive event : Type :=
| EvTopology (new_node : bool) (addr : bytes * N)
| EvStatus (up : bool) (addr : bytes * N)
| EvSchema (sc : schema_change)
| EvClientRoutes (connection_ids : list bytes) (host_ids : list bytes).

(* all-or-nothing conversion of the host id strings *)
Fixpoint parse_uuids (l : list bytes) : option (list bytes) :=
  match l with
  | [] => Some []
  | s :: r => match parse_uuid_text s, parse_uuids r with
              | Some u, Some t => Some (u :: t)
              | _, _ => None
              end
  end.

(* ClientRoutesChangeEvent::deserialize: the host id list is read lazily
   (read_string_list_iter): count first, mismatch check, then string by string; a malformed
   string ends the iteration with its error, a malformed uuid with EUuidParse *)
Fixpoint read_host_ids_f (fuel : nat) (n : N) : parser (list bytes) :=
  if n =? 0 then ret []
  else match fuel with
       | O => fail EOutOfFuel
       | S f =>
         s <- read_string ;;
         match parse_uuid_text s with
         | Some u => t <- read_host_ids_f f (n - 1) ;; ret (u :: t)
         | None => fail EUuidParse
         end
       end.
Definition read_host_ids (n : N) : parser (list bytes) := read_host_ids_f (N.to_nat n) n.

Definition deser_client_routes : parser event :=
  t <- read_string ;;
  if is_str t "UPDATE_NODES" then
    conn <- read_string_list ;;
    n <- read_short ;;
    if negb (lenN conn =? n) then fail EConnHostMismatch
    else hosts <- read_host_ids n ;; ret (EvClientRoutes conn hosts)
  else fail EUnknownTypeOfChange.

(* [v2] = EventV2 (ResponseV2::deserialize) which also knows CLIENT_ROUTES_CHANGE *)
Definition deser_event (v2 : bool) : parser event :=
  et <- read_string ;;
  if is_str et "TOPOLOGY_CHANGE" then
    t <- read_string ;; addr <- read_inet ;;
    if is_str t "NEW_NODE" then ret (EvTopology true addr)
    else if is_str t "REMOVED_NODE" then ret (EvTopology false addr)
    else fail EUnknownTypeOfChange
  else if is_str et "STATUS_CHANGE" then
    t <- read_string ;; addr <- read_inet ;;
    if is_str t "UP" then ret (EvStatus true addr)
    else if is_str t "DOWN" then ret (EvStatus false addr)
    else fail EUnknownTypeOfChange
  else if is_str et "SCHEMA_CHANGE" then pmap EvSchema deser_schema_change
  else if v2 && is_str et "CLIENT_ROUTES_CHANGE" then deser_client_routes
  else fail EUnknownEventType.

(* ---- RESULT (result.rs) ---------------------------------------------------------------- *)
Definition flag_set (flags : Z) (bit : Z) : bool := negb (Z.land flags bit =? 0)%Z.

(* part of a Rows result decoded by Response::deserialize (RawMetadataAndRawRows::deserialize) *)
Record rows_hdr : Type := mkRowsHdr {
  rh_col_count : N; rh_global : bool; rh_no_metadata : bool; rh_metadata_changed : bool;
  rh_paging : option bytes }.

Definition deser_rows_hdr (ft : features) : parser rows_hdr :=
  flags <- read_int ;;
  let global := flag_set flags 1 in
  let more := flag_set flags 2 in
  let no_md := flag_set flags 4 in
  let changed := ft_metadata_id ft && flag_set flags 8 in
  if no_md && changed then fail EIdPresentForEmptyMetadata
  else
    cc <- read_int_length ;;
    ps <- (if more then pmap Some read_bytes else ret None) ;;
    ret (mkRowsHdr cc global no_md changed ps).

Definition cell : Type := option bytes.
Record rows_result : Type := mkRows {
  rr_hdr : rows_hdr;
  rr_meta_id : option bytes;           (* new metadata id, when the server announced a change *)
  rr_cols : list colspec;              (* [] when the server sent no metadata (mock_empty) *)
  rr_rows_count : N;
  rr_rows : list (list cell) }.        (* forced rows; [] when there are no columns *)

Section WithCustom.
Variable custom : custom_parser.

(* RawMetadataAndRawRows::deserialize_metadata without cached metadata: metadata_deserializer
   (new id, global table spec, column specs) unless NO_METADATA, then the row count *)
Definition deser_rows_meta (h : rows_hdr) : parser (option bytes * list colspec * N) :=
  md <- (if rh_no_metadata h then ret (None, [])
         else
           id <- (if rh_metadata_changed h then pmap Some read_short_bytes else ret None) ;;
           g <- (if rh_global h then pmap Some deser_table_spec else ret None) ;;
           cols <- deser_col_specs custom g (rh_col_count h) ;;
           ret (id, cols)) ;;
  rc <- read_int_length ;;
  ret (fst md, snd md, rc).

(* RawRowIterator driven to the end (rows_iter): per row one [bytes] cell per column spec; the
   first failure ends the iteration.  Without columns every row is empty and nothing is read:
   the rows are not materialised. *)
Definition deser_row (ncols : N) : parser (list cell) := repeatS read_bytes_opt ncols.
Definition deser_rows (ncols count : N) : parser (list (list cell)) :=
  if ncols =? 0 then ret [] else repeatN (deser_row ncols) count.

Definition deser_rows_full (ft : features) : parser rows_result :=
  h <- deser_rows_hdr ft ;;
  m <- deser_rows_meta h ;;
  let '(id, cols, rc) := m in
  rows <- deser_rows (lenN cols) rc ;;
  ret (mkRows h id cols rc rows).

(* PREPARED *)
Record prepared : Type := mkPrepared {
  p_id : bytes;
  p_result_metadata_id : option bytes;
  p_flags : Z; p_col_count : N;
  p_pk : list (N * N);                  (* (index, sequence) sorted by index *)
  p_cols : list colspec;
  pr_global : bool; pr_no_metadata : bool;
  pr_col_count : N; pr_cols : list colspec }.

(* pk_indexes.sort_unstable_by_key(index): modelled as a sort by (index, sequence); the order of
   entries with equal index is unspecified in Rust, the tie compares after sorting by both *)
Definition pk_leb (a b : N * N) : bool :=
  (fst a <? fst b) || ((fst a =? fst b) && (snd a <=? snd b)).
Fixpoint pk_insert (x : N * N) (l : list (N * N)) : list (N * N) :=
  match l with
  | [] => [x]
  | y :: r => if pk_leb x y then x :: l else y :: pk_insert x r
  end.
Definition pk_sort (l : list (N * N)) : list (N * N) := fold_right pk_insert [] l.
(* sequence: i as u16 *)
Fixpoint pk_enumerate (i : N) (l : list N) : list (N * N) :=
  match l with
  | [] => []
  | x :: r => (x, i mod 65536) :: pk_enumerate (i + 1) r
  end.

Definition deser_prepared_metadata : parser (Z * N * list (N * N) * list colspec) :=
  flags <- read_int ;;
  cc <- read_int_length ;;
  pkc <- read_int_length ;;
  tick_alloc_capped pkc 2 SZ_PKINDEX ;;;
  pk <- repeatN read_short pkc ;;
  g <- (if flag_set flags 1 then pmap Some deser_table_spec else ret None) ;;
  cols <- deser_col_specs custom g cc ;;
  ret (flags, cc, pk_sort (pk_enumerate 0 pk), cols).

(* deser_result_metadata (inside PREPARED): returns global, no_metadata, col_count, paging, cols *)
Definition deser_result_metadata (ft : features)
  : parser (bool * bool * N * option bytes * list colspec) :=
  flags <- read_int ;;
  let global := flag_set flags 1 in
  let more := flag_set flags 2 in
  let no_md := flag_set flags 4 in
  let changed := ft_metadata_id ft && flag_set flags 8 in
  if changed && no_md then fail EIdPresentForEmptyMetadata
  else
    cc <- read_int_length ;;
    ps <- (if more then pmap Some read_bytes else ret None) ;;
    (if changed then read_short_bytes ;;; ret tt else ret tt) ;;;
    cols <- (if no_md then ret []
             else g <- (if global then pmap Some deser_table_spec else ret None) ;;
                  deser_col_specs custom g cc) ;;
    ret (global, no_md, cc, ps, cols).

Definition deser_prepared (ft : features) : parser prepared :=
  id <- read_short_bytes ;;
  rmid <- (if ft_metadata_id ft then pmap Some read_short_bytes else ret None) ;;
  pm <- deser_prepared_metadata ;;
  rm <- deser_result_metadata ft ;;
  let '(flags, cc, pk, cols) := pm in
  let '(g, nomd, rcc, ps, rcols) := rm in
  match ps with
  | Some _ => fail ENonZeroPagingState
  | None => ret (mkPrepared id rmid flags cc pk cols g nomd rcc rcols)
  end.

Inductive result_body : Type :=
| ResVoid
| ResRows (r : rows_result)
| ResSetKeyspace (ks : bytes)
| ResPrepared (p : prepared)
| ResSchemaChange (sc : schema_change).

Definition deser_result (ft : features) : parser result_body :=
  kind <- read_int ;;
  (if kind =? 1 then ret ResVoid
   else if kind =? 2 then pmap ResRows (deser_rows_full ft)
   else if kind =? 3 then pmap ResSetKeyspace read_string
   else if kind =? 4 then pmap ResPrepared (deser_prepared ft)
   else if kind =? 5 then pmap ResSchemaChange deser_schema_change
   else fail EUnknownResultId)%Z.

(* ---- all responses ---------------------------------------------------------------------- *)
Inductive response : Type :=
| RError (e : dberror) (reason : bytes)
| RReady
| RAuthenticate (name : bytes)
| RSupported (options : list (bytes * list bytes))
| RResult (r : result_body)
| REvent (e : event)
| RAuthChallenge (m : option bytes)
| RAuthSuccess (m : option bytes).

Definition opcode_ok (op : N) : bool :=
  (op =? 0) || (op =? 2) || (op =? 3) || (op =? 6) || (op =? 8) || (op =? 12) || (op =? 14) || (op =? 16).

(* Response(V2)::deserialize + deserialize_metadata + rows_iter, on the body after the extensions *)
Definition deser_response (ft : features) (v2 : bool) (opcode : N) : parser response :=
  if opcode =? 0 then x <- deser_error ft ;; ret (RError (fst x) (snd x))
  else if opcode =? 2 then ret RReady
  else if opcode =? 3 then pmap RAuthenticate read_string
  else if opcode =? 6 then pmap RSupported read_string_multimap
  else if opcode =? 8 then pmap RResult (deser_result ft)
  else if opcode =? 12 then pmap REvent (deser_event v2)
  else if opcode =? 14 then pmap RAuthChallenge read_bytes_opt
  else if opcode =? 16 then pmap RAuthSuccess read_bytes_opt
  else fail EUnknownOpcode.

(* ---- body extensions (parse_response_body_extensions) ----------------------------------- *)
Record extensions : Type := mkExt {
  x_trace : option bytes; x_warnings : list bytes; x_payload : option (list (bytes * bytes)) }.

Definition bit (flags m : N) : bool := negb (N.land flags m =? 0).

Definition deser_extensions (flags : N) : parser extensions :=
  tr <- (if bit flags 2 then pmap Some read_uuid else ret None) ;;
  w <- (if bit flags 8 then read_string_list else ret []) ;;
  pl <- (if bit flags 4 then pmap Some read_bytes_map else ret None) ;;
  ret (mkExt tr w pl).

(* ---- frame header (read_response_frame) -------------------------------------------------- *)
Record header : Type := mkHeader { h_version : N; h_flags : N; h_stream : Z; h_opcode : N; h_length : N }.

Definition MAX_BODY_PREALLOCATION : N := 2 ^ 20.

(* read_exact of 9 bytes, validation, then the body: Vec::with_capacity(length.min(1 MiB)) and
   reads until [length] bytes arrived or the stream ends (ConnectionClosed) *)
(* the nine header bytes: direction bit, version 4, flags, stream, opcode table, body length *)
Definition parse_header : parser header :=
  v <- read_u8 ;;
  if N.land v 128 =? 0 then fail EFrameFromClient
  else if negb (N.land v 127 =? 4) then fail EVersionNotSupported
  else
    fl <- read_u8 ;; st <- read_be 2 ;; op <- read_u8 ;;
    if negb (opcode_ok op) then fail EUnknownOpcode
    else len <- read_be 4 ;; ret (mkHeader v fl (to_signed 16 st) op len).

Definition read_frame : parser (header * bytes) :=
  raw <- map_err (fun _ => EHeaderIo) (read_raw 9) ;;
  (fun rest =>
     match run parse_header raw with
     | Err e => (Err e, c0)
     | Ok (h, _) =>
       match ntake (h_length h) rest with
       | Some (body, rest') => (Ok ((h, body), rest'), mkCost (N.min (h_length h) MAX_BODY_PREALLOCATION) 0)
       | None => (Err EConnectionClosed, mkCost (N.min (h_length h) MAX_BODY_PREALLOCATION) 0)
       end
     end).

(* ---- the whole pipeline, with the stage at which it stopped ------------------------------ *)
Record dframe : Type := mkFrame { d_header : header; d_ext : extensions; d_resp : response }.

Inductive stage : Type := StHeader | StExt | StBody.
Inductive outcome : Type :=
| OErr (st : stage) (e : ferr)
| ODone (f : dframe).

Definition is_rejected (o : outcome) : bool := match o with OErr _ _ => true | ODone _ => false end.

(* [decompress]: the negotiated codec's decoder (lz4_flex / snap), None = decode error;
   [compression] = whether a codec was negotiated *)
Section WithCodec.
Variable decompress : bytes -> option bytes.

Definition decode_frame (ft : features) (v2 : bool) (compression : bool) (stream : bytes)
  : outcome * cost :=
  match read_frame stream with
  | (Err e, c) => (OErr StHeader e, c)
  | (Ok ((h, body), _), c) =>
    let body' :=
      if bit (h_flags h) 1 then
        if compression then match decompress body with Some d => Ok d | None => Err EDecompress end
        else Err ENoCompression
      else Ok body in
    match body' with
    | Err e => (OErr StExt e, c)
    | Ok bd =>
      match deser_extensions (h_flags h) bd with
      | (Err e, c1) => (OErr StExt e, cadd c c1)
      | (Ok (x, bd1), c1) =>
        match deser_response ft v2 (h_opcode h) bd1 with
        | (Err e, c2) => (OErr StBody e, cadd c (cadd c1 c2))
        | (Ok (r, _), c2) => (ODone (mkFrame h x r), cadd c (cadd c1 c2))
        end
      end
    end
  end.
End WithCodec.
End WithCustom.
