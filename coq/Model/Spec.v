(* Model of scylla/src/policies/speculative_execution.rs (can_be_ignored, execute) and of the
   part of scylla/src/client/execution.rs that feeds it (idempotence gate, SharedPlan, the
   target loop of one fiber)  —  property C13.
   Executable definitions only; proofs are in Proofs/Spec_proofs.v.

   Layer A  `execute`              : state, labels Timer / Complete, step, run
   Layer T  `execute` in virtual time (what the correspondence check runs): every fiber has a
            fixed duration and outcome, the retry interval is fixed; ties between events that
            are ready at the same instant are resolved by an oracle (futures::select! polls
            its two branches in pseudo-random order; the order in which FuturesUnordered
            yields fibers that became ready at the same instant is left open as well)
   Layer B  gate + shared plan     : execution.rs run_request_no_side_effects *)
From SV Require Import Base.Prelude.
From Coq Require Import Ascii String.
Open Scope nat_scope.

(* ------------------------------------------------------------------------------------ *)
(* Errors: the variants of DbError, RequestAttemptError, RequestError (payloads dropped). *)

Inductive db_error :=
| SyntaxError | Invalid | AlreadyExists | FunctionFailure | AuthenticationError | Unauthorized
| ConfigError | Unavailable | Overloaded | IsBootstrapping | TruncateError | ReadTimeout
| WriteTimeout | ReadFailure | WriteFailure | Unprepared | ServerError | ProtocolError
| RateLimitReached | OtherDb.

Inductive attempt_error :=
| SerializationError | CqlRequestSerialization | UnableToAllocStreamId | BrokenConnectionError
| BodyExtensionsParseError | CqlResultParseError | CqlErrorParseError | DbError (d : db_error)
| UnexpectedResponse | RepreparedIdChanged | RepreparedIdMissingInBatch | NonfinishedPagingState.

Inductive request_error :=
| EmptyPlan | ConnectionPoolError | RequestTimeout | LastAttemptError (e : attempt_error).

(* Result<T, RequestError>; the response T is a tag (N) identifying which execution answered *)
Definition rres := result request_error N.
(* Option<Result<T, RequestError>>: output of one fiber; None = the plan was exhausted *)
Definition fiber_out := option rres.

(* DbError::can_speculative_retry (scylla-cql-core/src/frame/response/error.rs) *)
Definition db_can_speculative_retry (d : db_error) : bool :=
  match d with
  | SyntaxError | Invalid | AlreadyExists | Unauthorized | ProtocolError => false
  | AuthenticationError | OtherDb => false
  | FunctionFailure => false
  | ConfigError | TruncateError => false
  | Unavailable | Overloaded | IsBootstrapping | ReadTimeout | WriteTimeout | ReadFailure
  | WriteFailure | Unprepared | ServerError | RateLimitReached => true
  end.

(* speculative_execution.rs can_be_ignored *)
Definition can_be_ignored (r : rres) : bool :=
  match r with
  | Ok _ => false
  | Err e =>
      match e with
      | EmptyPlan => false
      | RequestTimeout => false
      | ConnectionPoolError => true
      | LastAttemptError a =>
          match a with
          | SerializationError | CqlRequestSerialization | BodyExtensionsParseError
          | CqlResultParseError | CqlErrorParseError | UnexpectedResponse
          | RepreparedIdChanged | RepreparedIdMissingInBatch | NonfinishedPagingState => false
          | BrokenConnectionError | UnableToAllocStreamId => true
          | DbError d => db_can_speculative_retry d
          end
      end
  end.

(* ---- specification side: the four outcome classes of the property text ---------------- *)
(* "ignorable" = an error whose presence on one node does not imply the same error on another
   node: no usable connection to / on that node, or the node itself reports that it (or the
   replicas it coordinates) cannot serve the request right now. *)
Inductive oclass := Success | Definitive | Ignorable | PlanExhausted.

Definition spec_transient_db (d : db_error) : bool :=
  match d with
  | Unavailable | Overloaded | IsBootstrapping | ReadTimeout | WriteTimeout | ReadFailure
  | WriteFailure | Unprepared | ServerError | RateLimitReached => true
  | _ => false
  end.
Definition spec_transient (e : request_error) : bool :=
  match e with
  | ConnectionPoolError => true
  | LastAttemptError BrokenConnectionError => true
  | LastAttemptError UnableToAllocStreamId => true
  | LastAttemptError (DbError d) => spec_transient_db d
  | _ => false
  end.
Definition classify (o : fiber_out) : oclass :=
  match o with
  | None => PlanExhausted
  | Some (Ok _) => Success
  | Some (Err e) => if spec_transient e then Ignorable else Definitive
  end.
Definition is_real (o : fiber_out) : bool :=
  match classify o with Success | Definitive => true | _ => false end.
Definition is_ignorable (o : fiber_out) : bool :=
  match classify o with Ignorable => true | _ => false end.
Definition is_exhausted (o : fiber_out) : bool :=
  match o with None => true | Some _ => false end.

(* first Success/Definitive of a completion sequence; last Ignorable of it *)
Fixpoint first_real (cs : list fiber_out) : option rres :=
  match cs with
  | [] => None
  | o :: r => if is_real o then o else first_real r
  end.
Fixpoint last_ignorable_from (acc : option rres) (cs : list fiber_out) : option rres :=
  match cs with
  | [] => acc
  | o :: r => last_ignorable_from (if is_ignorable o then o else acc) r
  end.
Definition last_ignorable (cs : list fiber_out) : option rres := last_ignorable_from None cs.
Definition or_empty_plan (o : option rres) : rres :=
  match o with Some r => r | None => Err EmptyPlan end.

(* ------------------------------------------------------------------------------------ *)
(* Layer A: speculative_execution::execute                                               *)

(* Fuse<Sleep>: Armed = pending timer; Fired = completed and NOT re-armed, i.e. terminated:
   select! never polls it again *)
Inductive sleep_st := Armed | Fired.

Record state := mkState {
  retries : nat;                (* retries_remaining *)
  running : list nat;           (* async_tasks: ids of the fibers pushed and not yet yielded *)
  sleep : sleep_st;
  last_error : option rres;
  started : nat;                (* number of query_runner_generator invocations = next id *)
  returned : option rres        (* Some r: execute returned r *)
}.

Definition init (max : nat) : state := mkState max [0] Armed None 1 None.

Inductive label :=
| Timer                                   (* the `_ = &mut sleep` branch is taken *)
| Complete (f : nat) (o : fiber_out).     (* async_tasks.select_next_some() yields f's output *)

Definition mem (f : nat) (l : list nat) : bool := existsb (Nat.eqb f) l.
Definition remove (f : nat) (l : list nat) : list nat := filter (fun g => negb (Nat.eqb f g)) l.

(* `if async_tasks.is_empty() && retries_remaining == 0 { return last_error.unwrap_or(Err(EmptyPlan)) }` *)
Definition finish_check (s : state) : state :=
  match running s, retries s with
  | [], O => mkState (retries s) (running s) (sleep s) (last_error s) (started s)
                     (Some (or_empty_plan (last_error s)))
  | _, _ => s
  end.

Definition on_timer (s : state) : option state :=
  match sleep s with
  | Fired => None
  | Armed =>
      match retries s with
      | S r => Some (mkState r (running s ++ [started s]) Armed (last_error s)
                             (S (started s)) (returned s))
      | O => Some (mkState O (running s) Fired (last_error s) (started s) (returned s))
      end
  end.

Definition on_complete (s : state) (f : nat) (o : fiber_out) : option state :=
  if mem f (running s) then
    let run' := remove f (running s) in
    match o with
    | Some r =>
        if can_be_ignored r
        then Some (finish_check (mkState (retries s) run' (sleep s) (Some r) (started s) None))
        else Some (mkState (retries s) run' (sleep s) (last_error s) (started s) (Some r))
    | None => Some (finish_check (mkState O run' (sleep s) (last_error s) (started s) None))
    end
  else None.

Definition step (s : state) (l : label) : option state :=
  match returned s with
  | Some _ => None
  | None => match l with Timer => on_timer s | Complete f o => on_complete s f o end
  end.

Fixpoint run (s : state) (ls : list label) : option state :=
  match ls with
  | [] => Some s
  | l :: r => match step s l with Some s' => run s' r | None => None end
  end.

(* completion order of a schedule *)
Definition completions (ls : list label) : list fiber_out :=
  flat_map (fun l => match l with Complete _ o => [o] | Timer => [] end) ls.

(* strictly decreasing along every step *)
Definition measure (s : state) : nat :=
  3 * retries s + 2 * List.length (running s) + match sleep s with Armed => 1 | Fired => 0 end.

(* The result the property text prescribes, from observable quantities only: the completion
   sequence [cs], the number [n] of executions started so far, and [max]. *)
Definition spec_returned (max n : nat) (cs : list fiber_out) : option rres :=
  match first_real cs with
  | Some r => Some r
  | None =>
      if (List.length cs =? n) && ((n =? 1 + max) || existsb is_exhausted cs)
      then Some (or_empty_plan (last_ignorable cs))
      else None
  end.

(* ------------------------------------------------------------------------------------ *)
(* Layer T: virtual time                                                                  *)

(* fiber k (k-th generator invocation) sleeps [fst] ticks and then yields [snd]; fibers beyond
   the list yield None at once (the shared plan is exhausted) *)
Definition fibers := list (N * fiber_out).
Definition fiber_dur (fs : fibers) (k : nat) : N := fst (nth k fs (0%N, None)).
Definition fiber_res (fs : fibers) (k : nat) : fiber_out := snd (nth k fs (0%N, None)).

Record tstate := mkT {
  ts : state;
  now : N;
  deadline : N;              (* of the sleep, meaningful while Armed *)
  starts : list N;           (* start time of fiber k, for k < started *)
  hist : list label          (* ghost: the schedule so far, latest first *)
}.

Definition tinit (max : nat) (interval : N) : tstate :=
  mkT (init max) 0%N interval [0%N] [].

Definition fin (fs : fibers) (t : tstate) (k : nat) : N :=
  (nth k (starts t) 0 + fiber_dur fs k)%N.

Fixpoint list_min (l : list N) : option N :=
  match l with
  | [] => None
  | x :: r => match list_min r with Some m => Some (N.min x m) | None => Some x end
  end.

Definition event_times (fs : fibers) (t : tstate) : list N :=
  (match sleep (ts t) with Armed => [deadline t] | Fired => [] end)
  ++ map (fin fs t) (running (ts t)).

(* the labels that are ready at instant tn *)
Definition ready (fs : fibers) (t : tstate) (tn : N) : list label :=
  (match sleep (ts t) with
   | Armed => if (deadline t =? tn)%N then [Timer] else []
   | Fired => []
   end)
  ++ map (fun k => Complete k (fiber_res fs k))
         (filter (fun k => (fin fs t k =? tn)%N) (running (ts t))).

Definition tstep (interval : N) (t : tstate) (l : label) (tn : N) : option tstate :=
  match step (ts t) l with
  | None => None
  | Some s' =>
      Some (mkT s' tn
                (match l with Timer => (tn + interval)%N | Complete _ _ => deadline t end)
                (if started s' =? started (ts t) then starts t else starts t ++ [tn])
                (l :: hist t))
  end.

(* what the harness observes of one call *)
Record obs := mkObs { o_starts : list N; o_res : rres; o_end : N }.

(* all tie resolutions *)
Fixpoint explore (fuel : nat) (interval : N) (fs : fibers) (t : tstate) : list obs :=
  match returned (ts t) with
  | Some r => [mkObs (starts t) r (now t)]
  | None =>
      match fuel with
      | O => []
      | S fuel' =>
          match list_min (event_times fs t) with
          | None => []
          | Some tn =>
              flat_map (fun l => match tstep interval t l tn with
                                 | Some t' => explore fuel' interval fs t'
                                 | None => []
                                 end) (ready fs t tn)
          end
      end
  end.

Definition fuel_for (max : nat) : nat := 3 * max + 4.

Definition timed_runs (max : nat) (interval : N) (fs : fibers) : list obs :=
  explore (fuel_for max) interval fs (tinit max interval).

(* one tie resolution: the oracle gives, per step, the index of the ready label to take *)
Fixpoint timed_run (fuel : nat) (oracle : list nat) (interval : N) (fs : fibers) (t : tstate)
  : option obs :=
  match returned (ts t) with
  | Some r => Some (mkObs (starts t) r (now t))
  | None =>
      match fuel with
      | O => None
      | S fuel' =>
          match list_min (event_times fs t) with
          | None => None
          | Some tn =>
              let rd := ready fs t tn in
              let i := match oracle with [] => 0 | c :: _ => c mod (List.length rd) end in
              match nth_error rd i with
              | None => None
              | Some l =>
                  match tstep interval t l tn with
                  | Some t' => timed_run fuel' (tl oracle) interval fs t'
                  | None => None
                  end
              end
          end
      end
  end.

(* decidable equalities for the acceptor *)
Definition db_error_eq_dec (a b : db_error) : {a = b} + {a <> b}.
Proof. decide equality. Defined.
Definition attempt_error_eq_dec (a b : attempt_error) : {a = b} + {a <> b}.
Proof. decide equality; apply db_error_eq_dec. Defined.
Definition request_error_eq_dec (a b : request_error) : {a = b} + {a <> b}.
Proof. decide equality; apply attempt_error_eq_dec. Defined.
Definition rres_eq_dec (a b : rres) : {a = b} + {a <> b}.
Proof. decide equality; [apply N.eq_dec | apply request_error_eq_dec]. Defined.
Definition fiber_out_eq_dec (a b : fiber_out) : {a = b} + {a <> b}.
Proof. decide equality; apply rres_eq_dec. Defined.
Definition obs_eq_dec (a b : obs) : {a = b} + {a <> b}.
Proof. decide equality; auto using N.eq_dec, rres_eq_dec, (list_eq_dec N.eq_dec). Defined.

Definition accept (max : nat) (interval : N) (fs : fibers) (o : obs) : bool :=
  existsb (fun m => if obs_eq_dec o m then true else false) (timed_runs max interval fs).

(* The property itself as a predicate on an observation, phrased with the outcome classes,
   the fibers' durations and the observed start times only (used on mismatch). *)
Definition prop_obs (max : nat) (fs : fibers) (o : obs) : bool :=
  let n := List.length (o_starts o) in
  let ids := seq 0 n in
  let finish k := (nth k (o_starts o) 0 + fiber_dur fs k)%N in
  let reals := filter (fun k => is_real (fiber_res fs k)) ids in
  let igns := filter (fun k => is_ignorable (fiber_res fs k)) ids in
  (1 <=? n) && (n <=? 1 + max) &&
  match reals with
  | _ :: _ =>
      (* a started execution gives a real answer: the earliest one is returned when it completes *)
      existsb (fun j => (if fiber_out_eq_dec (fiber_res fs j) (Some (o_res o)) then true else false)
                        && (finish j =? o_end o)%N
                        && forallb (fun k => (o_end o <=? finish k)%N) reals) reals
  | [] =>
      (* otherwise: returns exactly when the last started execution finishes, none may still be
         started, and the value is the last ignorable error (or EmptyPlan if there is none) *)
      forallb (fun k => (finish k <=? o_end o)%N) ids
      && existsb (fun k => (finish k =? o_end o)%N) ids
      && ((n =? 1 + max) || existsb (fun k => is_exhausted (fiber_res fs k)) ids)
      && match igns with
         | [] => if rres_eq_dec (o_res o) (Err EmptyPlan) then true else false
         | _ :: _ =>
             existsb (fun j => (if fiber_out_eq_dec (fiber_res fs j) (Some (o_res o)) then true else false)
                               && forallb (fun k => (finish k <=? finish j)%N) igns) igns
         end
  end.

(* ------------------------------------------------------------------------------------ *)
(* Layer B: execution.rs run_request_no_side_effects — the idempotence gate, the shared
   plan, the target loop of one fiber (run_request_speculative_fiber)                      *)

Record config := mkConfig {
  is_idempotent : bool;
  (* metrics_and_speculative_policy : Option<(&Arc<Metrics>, Option<&dyn Policy>)>; the policy
     is represented by its max_retry_count *)
  metrics_and_policy : option (option nat)
}.

(* `Some((metrics, Some(speculative))) if self.is_idempotent => execute(..)`, `_ => one fiber` *)
Definition gate (c : config) : option nat :=
  match metrics_and_policy c with
  | Some (Some max) => if is_idempotent c then Some max else None
  | _ => None
  end.

Record bstate := mkB {
  speculative : bool;             (* which arm of the match is running *)
  core : state;                   (* the select loop; in the other arm just "fiber 0, no timer" *)
  plan : list N;                  (* SharedPlan: what the iterator behind the mutex has left *)
  draws : list (nat * option N)   (* ghost: every next() call so far, latest first: (fiber, item) *)
}.

Definition single_init : state := mkState 0 [0] Fired None 1 None.

Definition binit (c : config) (pl : list N) : bstate :=
  match gate c with
  | Some max => mkB true (init max) pl []
  | None => mkB false single_init pl []
  end.

Inductive blabel :=
| BTimer
| BDraw (f : nat)                         (* fiber f calls next() on the plan (one critical section) *)
| BComplete (f : nat) (o : fiber_out).

Definition saw_end (f : nat) (ds : list (nat * option N)) : bool :=
  existsb (fun d => (fst d =? f) && match snd d with None => true | Some _ => false end) ds.
Definition drew_some (f : nat) (ds : list (nat * option N)) : bool :=
  existsb (fun d => (fst d =? f) && match snd d with Some _ => true | None => false end) ds.

(* the non-speculative arm: `fiber.await.unwrap_or(Err(RequestError::EmptyPlan))` *)
Definition single_complete (s : state) (f : nat) (o : fiber_out) : option state :=
  match returned s with
  | Some _ => None
  | None =>
      if mem f (running s)
      then Some (mkState (retries s) (remove f (running s)) (sleep s) (last_error s) (started s)
                         (Some (match o with Some r => r | None => Err EmptyPlan end)))
      else None
  end.

(* A fiber is `for target in plan { attempts on target }; last_error.map(Err)`:
   - it calls next() only while it runs and has not yet seen the end of the plan;
   - it yields None only if its first next() returned None (last_error is still None);
   - it yields Some(_) only after at least one target was handed to it. *)
Definition bstep (b : bstate) (l : blabel) : option bstate :=
  match l with
  | BTimer =>
      if speculative b
      then option_map (fun s' => mkB true s' (plan b) (draws b)) (step (core b) Timer)
      else None
  | BDraw f =>
      match returned (core b) with
      | Some _ => None
      | None =>
          if mem f (running (core b)) && negb (saw_end f (draws b)) then
            match plan b with
            | t :: rest => Some (mkB (speculative b) (core b) rest ((f, Some t) :: draws b))
            | [] => Some (mkB (speculative b) (core b) [] ((f, None) :: draws b))
            end
          else None
      end
  | BComplete f o =>
      if match o with
         | None => saw_end f (draws b) && negb (drew_some f (draws b))
         | Some _ => drew_some f (draws b)
         end
      then option_map (fun s' => mkB (speculative b) s' (plan b) (draws b))
             (if speculative b then step (core b) (Complete f o) else single_complete (core b) f o)
      else None
  end.

Fixpoint brun (b : bstate) (ls : list blabel) : option bstate :=
  match ls with
  | [] => Some b
  | l :: r => match bstep b l with Some b' => brun b' r | None => None end
  end.

(* the schedule of the select loop inside a Layer-B schedule *)
Definition proj (ls : list blabel) : list label :=
  flat_map (fun l => match l with
                     | BTimer => [Timer] | BDraw _ => [] | BComplete f o => [Complete f o]
                     end) ls.

(* targets handed out so far (latest first) *)
Definition drawn (ds : list (nat * option N)) : list N :=
  flat_map (fun d => match snd d with Some t => [t] | None => [] end) ds.

(* the target a fiber is working on = the latest item it was handed *)
Definition latest_target (f : nat) (ds : list (nat * option N)) : list N :=
  match find (fun d => fst d =? f) ds with
  | Some (_, Some t) => [t]
  | _ => []
  end.
(* targets on which the request may be in flight right now *)
Definition in_flight (b : bstate) : list N :=
  flat_map (fun f => latest_target f (draws b)) (running (core b)).

(* ---- Layer B in virtual time, for probe plans (hook run_probe_plan): every target is an
   attempt that lasts delay(t) ticks and then fails with a pool error, so a fiber walks the
   shared plan until it is empty and yields Some(Err(ConnectionPoolError)), or None if it was
   handed nothing.  One poll of fiber f = one BDraw f (plus its BComplete when the plan is
   empty).  Observed: the begin / end of every attempt, in order, with times. ---- *)

Inductive event := EvBegin (t : N) (at_ : N) | EvEnd (t : N) (at_ : N).

Record btstate := mkBT {
  bb : bstate;
  bnow : N;
  bdeadline : N;
  wake : list (nat * N);        (* fiber -> instant at which it can be polled with progress *)
  btrace : list event;          (* latest first *)
  bhist : list blabel           (* ghost: the Layer-B schedule so far, latest first *)
}.

Definition lookupN {A} (d : A) (k : N) (l : list (N * A)) : A :=
  match find (fun e => (fst e =? k)%N) l with Some e => snd e | None => d end.
Definition lookup_nat {A} (d : A) (k : nat) (l : list (nat * A)) : A :=
  match find (fun e => fst e =? k) l with Some e => snd e | None => d end.

Definition btinit (c : config) (interval : N) (targets : list (N * N)) : btstate :=
  mkBT (binit c (map fst targets)) 0%N interval [(0, 0%N)] [] [].

Definition bevent_times (t : btstate) : list N :=
  (if speculative (bb t) then match sleep (core (bb t)) with Armed => [bdeadline t] | Fired => [] end
   else [])
  ++ map (fun f => lookup_nat 0%N f (wake t)) (running (core (bb t))).

Inductive tlabel := TTimer | TFiber (f : nat).

Definition bready (t : btstate) (tn : N) : list tlabel :=
  (if speculative (bb t) then
     match sleep (core (bb t)) with
     | Armed => if (bdeadline t =? tn)%N then [TTimer] else []
     | Fired => []
     end
   else [])
  ++ map TFiber (filter (fun f => (lookup_nat 0%N f (wake t) =? tn)%N) (running (core (bb t)))).

Definition btstep (interval : N) (targets : list (N * N)) (t : btstate) (l : tlabel) (tn : N)
  : option btstate :=
  match l with
  | TTimer =>
      match bstep (bb t) BTimer with
      | None => None
      | Some b1 =>
          Some (mkBT b1 tn (tn + interval)%N
                     (if started (core b1) =? started (core (bb t)) then wake t
                      else (started (core (bb t)), tn) :: wake t)
                     (btrace t) (BTimer :: bhist t))
      end
  | TFiber f =>
      let ends := map (fun c => EvEnd c tn) (latest_target f (draws (bb t))) in
      match bstep (bb t) (BDraw f) with
      | None => None
      | Some b1 =>
          match plan (bb t) with
          | x :: _ =>
              Some (mkBT b1 tn (bdeadline t) ((f, (tn + lookupN 0%N x targets)%N) :: wake t)
                         (EvBegin x tn :: ends ++ btrace t) (BDraw f :: bhist t))
          | [] =>
              let o := if drew_some f (draws (bb t)) then Some (Err ConnectionPoolError) else None in
              match bstep b1 (BComplete f o) with
              | None => None
              | Some b2 =>
                  Some (mkBT b2 tn (bdeadline t) (wake t) (ends ++ btrace t)
                             (BComplete f o :: BDraw f :: bhist t))
              end
          end
      end
  end.

Record bobs := mkBObs { bo_events : list event; bo_res : rres; bo_end : N }.

Fixpoint bexplore (fuel : nat) (interval : N) (targets : list (N * N)) (t : btstate) : list bobs :=
  match returned (core (bb t)) with
  | Some r => [mkBObs (rev (btrace t)) r (bnow t)]
  | None =>
      match fuel with
      | O => []
      | S fuel' =>
          match list_min (bevent_times t) with
          | None => []
          | Some tn =>
              flat_map (fun l => match btstep interval targets t l tn with
                                 | Some t' => bexplore fuel' interval targets t'
                                 | None => []
                                 end) (bready t tn)
          end
      end
  end.

Definition bfuel (c : config) (targets : list (N * N)) : nat :=
  2 * List.length targets + 4 * (match gate c with Some max => max | None => 0 end) + 8.

Definition btimed_runs (c : config) (interval : N) (targets : list (N * N)) : list bobs :=
  bexplore (bfuel c targets) interval targets (btinit c interval targets).

(* one tie resolution of a probe-plan run *)
Fixpoint btimed_run (fuel : nat) (oracle : list nat) (interval : N) (targets : list (N * N))
  (t : btstate) : option bobs :=
  match returned (core (bb t)) with
  | Some r => Some (mkBObs (rev (btrace t)) r (bnow t))
  | None =>
      match fuel with
      | O => None
      | S fuel' =>
          match list_min (bevent_times t) with
          | None => None
          | Some tn =>
              let rd := bready t tn in
              let i := match oracle with [] => 0 | c :: _ => c mod (List.length rd) end in
              match nth_error rd i with
              | None => None
              | Some l =>
                  match btstep interval targets t l tn with
                  | Some t' => btimed_run fuel' (tl oracle) interval targets t'
                  | None => None
                  end
              end
          end
      end
  end.

Definition event_eq_dec (a b : event) : {a = b} + {a <> b}.
Proof. decide equality; apply N.eq_dec. Defined.
Definition bobs_eq_dec (a b : bobs) : {a = b} + {a <> b}.
Proof. decide equality; auto using N.eq_dec, rres_eq_dec, (list_eq_dec event_eq_dec). Defined.

Definition baccept (c : config) (interval : N) (targets : list (N * N)) (o : bobs) : bool :=
  existsb (fun m => if bobs_eq_dec o m then true else false) (btimed_runs c interval targets).

(* Membership in [btimed_runs] decided by a search that is guided by the observed trace: only
   branches whose trace so far is a prefix of the observed one are followed (plain enumeration
   is factorial in the number of fibers that are ready at one instant).
   Proofs: bsearch_sound / bsearch_complete  =>  baccept_guided = baccept. *)
Fixpoint is_prefix_ev (a b : list event) : bool :=
  match a, b with
  | [], _ => true
  | x :: a', y :: b' => (if event_eq_dec x y then true else false) && is_prefix_ev a' b'
  | _ :: _, [] => false
  end.

Fixpoint bsearch (fuel : nat) (interval : N) (targets : list (N * N)) (t : btstate) (o : bobs) : bool :=
  match returned (core (bb t)) with
  | Some r => if bobs_eq_dec o (mkBObs (rev (btrace t)) r (bnow t)) then true else false
  | None =>
      match fuel with
      | O => false
      | S fuel' =>
          match list_min (bevent_times t) with
          | None => false
          | Some tn =>
              existsb (fun l => match btstep interval targets t l tn with
                                | Some t' =>
                                    is_prefix_ev (rev (btrace t')) (bo_events o)
                                    && bsearch fuel' interval targets t' o
                                | None => false
                                end) (bready t tn)
          end
      end
  end.

Definition baccept_guided (c : config) (interval : N) (targets : list (N * N)) (o : bobs) : bool :=
  bsearch (bfuel c targets) interval targets (btinit c interval targets) o.

(* The property on an observed trace, from the property text:
   - no plan target is used twice: the attempts begin on the plan's targets, in plan order;
   - never more attempts in flight than allowed: 1 if the gate is closed (not idempotent, or no
     policy), 1 + max otherwise;  every end closes an open attempt on that target. *)
Fixpoint begins (evs : list event) : list N :=
  match evs with
  | [] => []
  | EvBegin t _ :: r => t :: begins r
  | EvEnd _ _ :: r => begins r
  end.
Fixpoint remove1 (x : N) (l : list N) : option (list N) :=
  match l with
  | [] => None
  | y :: r => if (x =? y)%N then Some r else option_map (cons y) (remove1 x r)
  end.
Fixpoint open_ok (bound : nat) (open : list N) (evs : list event) : bool :=
  match evs with
  | [] => true
  | EvBegin t _ :: r => (S (List.length open) <=? bound) && open_ok bound (t :: open) r
  | EvEnd t _ :: r => match remove1 t open with Some o' => open_ok bound o' r | None => false end
  end.
Fixpoint is_prefix (a b : list N) : bool :=
  match a, b with
  | [], _ => true
  | x :: a', y :: b' => (x =? y)%N && is_prefix a' b'
  | _ :: _, [] => false
  end.
Definition prop_trace (c : config) (targets : list (N * N)) (o : bobs) : bool :=
  is_prefix (begins (bo_events o)) (map fst targets)
  && open_ok (match gate c with Some max => 1 + max | None => 1 end) [] (bo_events o).

(* ------------------------------------------------------------------------------------ *)
(* Names of the error variants for the text protocol of the correspondence check          *)

Definition all_db_errors : list db_error :=
  [SyntaxError; Invalid; AlreadyExists; FunctionFailure; AuthenticationError; Unauthorized;
   ConfigError; Unavailable; Overloaded; IsBootstrapping; TruncateError; ReadTimeout;
   WriteTimeout; ReadFailure; WriteFailure; Unprepared; ServerError; ProtocolError;
   RateLimitReached; OtherDb].
Definition all_attempt_errors : list attempt_error :=
  [SerializationError; CqlRequestSerialization; UnableToAllocStreamId; BrokenConnectionError;
   BodyExtensionsParseError; CqlResultParseError; CqlErrorParseError; UnexpectedResponse;
   RepreparedIdChanged; RepreparedIdMissingInBatch; NonfinishedPagingState]
  ++ map DbError all_db_errors.
Definition all_request_errors : list request_error :=
  [EmptyPlan; ConnectionPoolError; RequestTimeout] ++ map LastAttemptError all_attempt_errors.

Open Scope string_scope.
Definition db_error_name (d : db_error) : string :=
  match d with
  | SyntaxError => "SyntaxError" | Invalid => "Invalid" | AlreadyExists => "AlreadyExists"
  | FunctionFailure => "FunctionFailure" | AuthenticationError => "AuthenticationError"
  | Unauthorized => "Unauthorized" | ConfigError => "ConfigError" | Unavailable => "Unavailable"
  | Overloaded => "Overloaded" | IsBootstrapping => "IsBootstrapping"
  | TruncateError => "TruncateError" | ReadTimeout => "ReadTimeout"
  | WriteTimeout => "WriteTimeout" | ReadFailure => "ReadFailure"
  | WriteFailure => "WriteFailure" | Unprepared => "Unprepared" | ServerError => "ServerError"
  | ProtocolError => "ProtocolError" | RateLimitReached => "RateLimitReached"
  | OtherDb => "Other"
  end.
Definition attempt_error_name (a : attempt_error) : string :=
  match a with
  | SerializationError => "SerializationError"
  | CqlRequestSerialization => "CqlRequestSerialization"
  | UnableToAllocStreamId => "UnableToAllocStreamId"
  | BrokenConnectionError => "BrokenConnectionError"
  | BodyExtensionsParseError => "BodyExtensionsParseError"
  | CqlResultParseError => "CqlResultParseError"
  | CqlErrorParseError => "CqlErrorParseError"
  | DbError d => "DbError." ++ db_error_name d
  | UnexpectedResponse => "UnexpectedResponse"
  | RepreparedIdChanged => "RepreparedIdChanged"
  | RepreparedIdMissingInBatch => "RepreparedIdMissingInBatch"
  | NonfinishedPagingState => "NonfinishedPagingState"
  end.
Definition request_error_name (e : request_error) : string :=
  match e with
  | EmptyPlan => "EmptyPlan"
  | ConnectionPoolError => "ConnectionPoolError"
  | RequestTimeout => "RequestTimeout"
  | LastAttemptError a => "LastAttemptError." ++ attempt_error_name a
  end.
Definition request_error_of_name (s : string) : option request_error :=
  find (fun e => String.eqb (request_error_name e) s) all_request_errors.
Close Scope string_scope.
