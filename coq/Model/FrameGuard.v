(* C08 wave-4 follow-up: the claimed-size guards of frame::decompress (scylla-cql/src/frame/mod.rs),
   executable Gallina, no proofs.  LZ4 (d6bbe9c): 4-byte big-endian size prefix, refused when
   prefix / 255 > remaining length.  Snappy (30df852): snap::raw::decompress_len (varint preamble,
   bytes::read_varu64 + Header::read), refused when claimed / 32 > body length; a preamble that
   decompress_len itself refuses is left to the decoder. *)
From SV Require Import Base.Prelude Base.Bytes Model.FrameBase.
Require Import List NArith.
Import ListNotations.
Open Scope N_scope.

Inductive codec := CLz4 | CSnappy.

Definition LZ4_MAX_EXPANSION : N := 255.
Definition SNAPPY_MAX_EXPANSION : N := 32.
Definition max_expansion (c : codec) : N :=
  match c with CLz4 => LZ4_MAX_EXPANSION | CSnappy => SNAPPY_MAX_EXPANSION end.

(* snap bytes::read_varu64: None = (0, 0) *)
Fixpoint varu64 (data : bytes) (n shift : N) : option N :=
  match data with
  | [] => None
  | b :: r =>
    if 64 <=? shift then None
    else if b <? 128 then Some (N.lor n (N.shiftl b shift mod 2 ^ 64))
    else varu64 r (N.lor n (N.shiftl (N.land b 127) shift mod 2 ^ 64)) (shift + 7)
  end.

(* snap::raw::decompress_len: Ok(0) on an empty input, Err on a bad varint or a claim above u32::MAX *)
Definition snappy_claimed (comp : bytes) : option N :=
  match comp with
  | [] => Some 0
  | _ => match varu64 comp 0 0 with
         | None => None
         | Some n => if 4294967295 <? n then None else Some n
         end
  end.

(* the guard proper: [claimed / R > available] *)
Definition claim_refused (R claimed avail : N) : bool := avail <? claimed / R.

Inductive guard_answer := GShort | GRefused | GPass.

Definition guard (c : codec) (comp : bytes) : guard_answer :=
  match c with
  | CLz4 =>
    match comp with
    | a :: b :: c' :: d :: rest =>
      if claim_refused LZ4_MAX_EXPANSION (be_dec [a; b; c'; d]) (lenN rest) then GRefused else GPass
    | _ => GShort
    end
  | CSnappy =>
    match snappy_claimed comp with
    | Some n => if claim_refused SNAPPY_MAX_EXPANSION n (lenN comp) then GRefused else GPass
    | None => GPass
    end
  end.

Definition guard_refuses (c : codec) (comp : bytes) : bool :=
  match guard c comp with GPass => false | _ => true end.

(* the codec as frame::decompress sees it: the guard in front of the raw decoder *)
Definition guarded_decompress (c : codec) (raw : bytes -> option bytes) (comp : bytes) : option bytes :=
  if guard_refuses c comp then None else raw comp.

(* the expansion hypothesis of the theorems as a Boolean (evaluated by the tie on the real encoders' output) *)
Definition within_expansion (c : codec) (plain_len comp_len : N) : bool :=
  plain_len <=? max_expansion c * comp_len.
