(* Generic small-step interleaving semantics shared by the concurrency slices (C18, C19; other
   slices may reuse it).  A system is a partial step function over labels; a schedule is an
   arbitrary list of labels (the scheduler and every other source of non-determinism - clock
   readings, payloads - live in the labels); an execution is the fold of [step] over the
   schedule; safety = an inductive invariant over every reachable state, for schedules of any
   length.  The few lemmas below are the induction rules every slice needs; they are kept next
   to the definitions on purpose (the file has no model of any code in it). *)
From SV Require Import Base.Prelude.

Section Sched.
  Variables state label : Type.
  Variable step : state -> label -> option state.

  (* run a schedule; [None] as soon as a label is not enabled *)
  Fixpoint run (s : state) (ls : list label) : option state :=
    match ls with
    | [] => Some s
    | l :: r => match step s l with Some s' => run s' r | None => None end
    end.

  Definition reachable (init s : state) : Prop := exists ls, run init ls = Some s.

  Lemma run_app s ls1 ls2 :
    run s (ls1 ++ ls2) = match run s ls1 with Some s' => run s' ls2 | None => None end.
  Proof.
    revert s; induction ls1 as [|l r IH]; intros s; cbn [run app]; [reflexivity|].
    destruct (step s l) as [s'|]; [apply IH|reflexivity].
  Qed.

  Lemma run_snoc s ls l s1 s2 :
    run s ls = Some s1 -> step s1 l = Some s2 -> run s (ls ++ [l]) = Some s2.
  Proof. intros H1 H2. rewrite run_app, H1. cbn [run]. rewrite H2. reflexivity. Qed.

  Lemma reachable_refl init : reachable init init.
  Proof. exists []. reflexivity. Qed.

  Lemma reachable_step init s l s' :
    reachable init s -> step s l = Some s' -> reachable init s'.
  Proof. intros [ls H] Hs. exists (ls ++ [l]). eapply run_snoc; eassumption. Qed.

  Lemma reachable_run init s ls s' :
    reachable init s -> run s ls = Some s' -> reachable init s'.
  Proof. intros [l0 H] Hr. exists (l0 ++ ls). rewrite run_app, H. exact Hr. Qed.

  (* an invariant preserved by every step holds along every run ... *)
  Lemma run_invariant (Inv : state -> Prop) :
    (forall s l s', Inv s -> step s l = Some s' -> Inv s') ->
    forall ls s s', Inv s -> run s ls = Some s' -> Inv s'.
  Proof.
    intros Hstep ls; induction ls as [|l r IH]; intros s s' Hi Hr; cbn [run] in Hr.
    - injection Hr as <-. exact Hi.
    - destruct (step s l) as [s1|] eqn:E; [|discriminate]. eapply IH; [|exact Hr].
      eapply Hstep; eassumption.
  Qed.

  (* ... hence in every reachable state: the rule used by all safety theorems *)
  Theorem invariant_reachable (Inv : state -> Prop) (init : state) :
    Inv init ->
    (forall s l s', Inv s -> step s l = Some s' -> Inv s') ->
    forall s, reachable init s -> Inv s.
  Proof. intros H0 Hstep s [ls Hr]. eapply run_invariant; eassumption. Qed.

  (* the same rule when the preservation proof needs to know that the pre-state is reachable *)
  Theorem invariant_reachable_strong (Inv : state -> Prop) (init : state) :
    Inv init ->
    (forall s l s', reachable init s -> Inv s -> step s l = Some s' -> Inv s') ->
    forall s, reachable init s -> Inv s.
  Proof.
    intros H0 Hstep s Hr.
    assert (H : reachable init s /\ Inv s); [|apply H].
    revert s Hr. apply invariant_reachable.
    - split; [apply reachable_refl|exact H0].
    - intros s l s' [Hr Hi] Hs. split; [eapply reachable_step; eassumption|].
      eapply Hstep; eassumption.
  Qed.

  (* a property of single steps taken from reachable states *)
  Lemma run_prefix_reachable init ls1 ls2 s :
    run init (ls1 ++ ls2) = Some s -> exists s1, run init ls1 = Some s1 /\ run s1 ls2 = Some s.
  Proof.
    rewrite run_app. destruct (run init ls1) as [s1|]; [|discriminate].
    intros H. exists s1. split; [reflexivity|exact H].
  Qed.
End Sched.

Arguments run {state label} step s ls.
Arguments reachable {state label} step init s.
