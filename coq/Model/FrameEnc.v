(* Property C08 — specification side: the wire format of response frames, written from the
   protocol document (native_protocol_v4.spec §2 frame header, §2.2 flags, §4.2 responses, §5
   compression, §9 error codes; ScyllaDB extensions: rate-limit error, result metadata id,
   CLIENT_ROUTES_CHANGE) — independent of the decoders in FrameResp.v.  [encode_frame] is used by
   the round-trip / truncation theorems and by the runner to produce well-formed frames.
   Executable definitions only. *)
From SV Require Import Base.Prelude Base.Bytes Model.FrameBase Model.FrameTypes Model.FrameResp.
From Coq Require Import Ascii String.
Open Scope N_scope.

Definition enc_bool (b : bool) : bytes := [if b then 1 else 0].

(* ---- ERROR (§9) -------------------------------------------------------------------------- *)
Definition error_code (ft : features) (e : dberror) : Z :=
  match e with
  | DbServerError => 0 | DbProtocolError => 10 | DbAuthenticationError => 256
  | DbUnavailable _ _ _ => 4096 | DbOverloaded => 4097 | DbIsBootstrapping => 4098
  | DbTruncateError => 4099 | DbWriteTimeout _ _ _ _ => 4352 | DbReadTimeout _ _ _ _ => 4608
  | DbReadFailure _ _ _ _ _ => 4864 | DbFunctionFailure _ _ _ => 5120
  | DbWriteFailure _ _ _ _ _ => 5376 | DbSyntaxError => 8192 | DbUnauthorized => 8448
  | DbInvalid => 8704 | DbConfigError => 8960 | DbAlreadyExists _ _ => 9216
  | DbUnprepared _ => 9472
  | DbRateLimitReached _ _ => match ft_rate_limit ft with Some c => c | None => 0 end
  | DbOther c => c
  end%Z.

Definition enc_error_fields (e : dberror) : bytes :=
  match e with
  | DbUnavailable cl rq al => enc_short cl ++ enc_int rq ++ enc_int al
  | DbWriteTimeout cl rc rq wt => enc_short cl ++ enc_int rc ++ enc_int rq ++ enc_string (write_type_str wt)
  | DbReadTimeout cl rc rq dp => enc_short cl ++ enc_int rc ++ enc_int rq ++ enc_bool dp
  | DbReadFailure cl rc rq nf dp => enc_short cl ++ enc_int rc ++ enc_int rq ++ enc_int nf ++ enc_bool dp
  | DbFunctionFailure ks fn args => enc_string ks ++ enc_string fn ++ enc_string_list args
  | DbWriteFailure cl rc rq nf wt =>
    enc_short cl ++ enc_int rc ++ enc_int rq ++ enc_int nf ++ enc_string (write_type_str wt)
  | DbAlreadyExists ks t => enc_string ks ++ enc_string t
  | DbUnprepared id => enc_short_bytes id
  | DbRateLimitReached op rj => [op] ++ enc_bool rj
  | _ => []
  end.

Definition enc_error (ft : features) (e : dberror) (reason : bytes) : bytes :=
  enc_int (error_code ft e) ++ enc_string reason ++ enc_error_fields e.

Definition wf_write_type (w : write_type) : Prop :=
  match w with
  | WtOther s => wf_string s /\ write_type_of s = WtOther s
  | _ => True
  end.
Definition wf_cl (cl : N) : Prop := cl <= 10.
Definition wf_dberror (ft : features) (e : dberror) : Prop :=
  match e with
  | DbUnavailable cl rq al => wf_cl cl /\ wf_int rq /\ wf_int al
  | DbWriteTimeout cl rc rq wt => wf_cl cl /\ wf_int rc /\ wf_int rq /\ wf_write_type wt
  | DbReadTimeout cl rc rq _ => wf_cl cl /\ wf_int rc /\ wf_int rq
  | DbReadFailure cl rc rq nf _ => wf_cl cl /\ wf_int rc /\ wf_int rq /\ wf_int nf
  | DbFunctionFailure ks fn args => wf_string ks /\ wf_string fn /\ wf_string_list args
  | DbWriteFailure cl rc rq nf wt => wf_cl cl /\ wf_int rc /\ wf_int rq /\ wf_int nf /\ wf_write_type wt
  | DbAlreadyExists ks t => wf_string ks /\ wf_string t
  | DbUnprepared id => wf_short_bytes id
  | DbRateLimitReached op _ =>
    op < 256 /\ exists c, ft_rate_limit ft = Some c /\ wf_int c /\ ~ In c known_error_codes
  | DbOther c =>
    wf_int c /\ ~ In c known_error_codes /\ ft_rate_limit ft <> Some c
  | _ => True
  end.

(* ---- schema change / EVENT (§4.2.6, §4.2.5.5) --------------------------------------------- *)
Definition change_type_str (c : change_type) : bytes :=
  match c with
  | CtCreated => astr "CREATED" | CtUpdated => astr "UPDATED" | CtDropped => astr "DROPPED"
  | CtInvalid => astr "INVALID"           (* not a protocol value: excluded by wf *)
  end.
Definition enc_schema_change (sc : schema_change) : bytes :=
  match sc with
  | ScKeyspace ct ks => enc_string (change_type_str ct) ++ enc_string (astr "KEYSPACE") ++ enc_string ks
  | ScTable ct ks n =>
    enc_string (change_type_str ct) ++ enc_string (astr "TABLE") ++ enc_string ks ++ enc_string n
  | ScType ct ks n =>
    enc_string (change_type_str ct) ++ enc_string (astr "TYPE") ++ enc_string ks ++ enc_string n
  | ScFunction ct ks n a =>
    enc_string (change_type_str ct) ++ enc_string (astr "FUNCTION") ++ enc_string ks ++ enc_string n
      ++ enc_string_list a
  | ScAggregate ct ks n a =>
    enc_string (change_type_str ct) ++ enc_string (astr "AGGREGATE") ++ enc_string ks ++ enc_string n
      ++ enc_string_list a
  end.
Definition wf_schema_change (sc : schema_change) : Prop :=
  match sc with
  | ScKeyspace ct ks => ct <> CtInvalid /\ wf_string ks
  | ScTable ct ks n | ScType ct ks n => ct <> CtInvalid /\ wf_string ks /\ wf_string n
  | ScFunction ct ks n a | ScAggregate ct ks n a =>
    ct <> CtInvalid /\ wf_string ks /\ wf_string n /\ wf_string_list a
  end.

(* canonical (hyphenated, lower case) text form of a 16-byte uuid *)
Definition hexdigit (v : N) : N := if v <? 10 then 48 + v else 87 + v.
Definition hex_of_bytes (b : bytes) : bytes := flat_map (fun x => [hexdigit (x / 16); hexdigit (x mod 16)]) b.
Definition uuid_text (u : bytes) : bytes :=
  hex_of_bytes (firstn 4 u) ++ [45] ++ hex_of_bytes (firstn 2 (skipn 4 u)) ++ [45]
  ++ hex_of_bytes (firstn 2 (skipn 6 u)) ++ [45] ++ hex_of_bytes (firstn 2 (skipn 8 u)) ++ [45]
  ++ hex_of_bytes (skipn 10 u).

Definition enc_event (e : event) : bytes :=
  match e with
  | EvTopology nw a =>
    enc_string (astr "TOPOLOGY_CHANGE") ++ enc_string (if nw then astr "NEW_NODE" else astr "REMOVED_NODE")
      ++ enc_inet a
  | EvStatus up a =>
    enc_string (astr "STATUS_CHANGE") ++ enc_string (if up then astr "UP" else astr "DOWN") ++ enc_inet a
  | EvSchema sc => enc_string (astr "SCHEMA_CHANGE") ++ enc_schema_change sc
  | EvClientRoutes conn hosts =>
    enc_string (astr "CLIENT_ROUTES_CHANGE") ++ enc_string (astr "UPDATE_NODES")
      ++ enc_string_list conn ++ enc_string_list (List.map uuid_text hosts)
  end.
Definition wf_uuid (u : bytes) : Prop := bytes_ok u /\ lenN u = 16.
Definition wf_event (v2 : bool) (e : event) : Prop :=
  match e with
  | EvTopology _ a | EvStatus _ a => wf_inet a
  | EvSchema sc => wf_schema_change sc
  | EvClientRoutes conn hosts =>
    v2 = true /\ wf_string_list conn /\ Forall wf_uuid hosts /\ lenN hosts = lenN conn
  end.

(* ---- RESULT (§4.2.5) ------------------------------------------------------------------------ *)
Definition b2z (b : bool) (v : Z) : Z := if b then v else 0%Z.

Definition enc_cell (c : cell) : bytes := enc_bytes_opt c.
Definition enc_row (r : list cell) : bytes := flat_map enc_cell r.

(* Rows: flags, column count, [paging state], [new metadata id], [global table spec], column
   specs, row count, rows *)
Definition first_table (cols : list colspec) : tablespec :=
  match cols with c :: _ => cs_table c | [] => ([], []) end.
Definition enc_rows (r : rows_result) : bytes :=
  let h := rr_hdr r in
  enc_int (b2z (rh_global h) 1 + b2z (match rh_paging h with Some _ => true | None => false end) 2
           + b2z (rh_no_metadata h) 4 + b2z (rh_metadata_changed h) 8)
  ++ enc_int (Z.of_N (rh_col_count h))
  ++ match rh_paging h with Some ps => enc_bytes ps | None => [] end
  ++ (if rh_no_metadata h then []
      else match rr_meta_id r with Some id => enc_short_bytes id | None => [] end
           ++ (if rh_global h then enc_table_spec (first_table (rr_cols r)) else [])
           ++ flat_map (enc_col_spec (rh_global h)) (rr_cols r))
  ++ enc_int (Z.of_N (rr_rows_count r))
  ++ flat_map enc_row (rr_rows r).

Definition wf_cell (c : cell) : Prop := match c with Some v => wf_bytes v | None => True end.
Definition wf_rows (ft : features) (r : rows_result) : Prop :=
  let h := rr_hdr r in
  rh_col_count h < 2 ^ 31 /\ rr_rows_count r < 2 ^ 31 /\
  match rh_paging h with Some ps => wf_bytes ps | None => True end /\
  (rh_metadata_changed h = true -> ft_metadata_id ft = true /\ rh_no_metadata h = false) /\
  (match rr_meta_id r with
   | Some id => rh_metadata_changed h = true /\ wf_short_bytes id
   | None => rh_metadata_changed h = false
   end) /\
  (if rh_no_metadata h then rr_cols r = []
   else lenN (rr_cols r) = rh_col_count h /\ Forall wf_colspec (rr_cols r) /\
        (rh_global h = true -> rr_cols r <> [] /\
                               Forall (fun c => cs_table c = first_table (rr_cols r)) (rr_cols r))) /\
  (match rr_cols r with
   | [] => rr_rows r = []
   | _ => lenN (rr_rows r) = rr_rows_count r /\
          Forall (fun row => lenN row = lenN (rr_cols r) /\ Forall wf_cell row) (rr_rows r)
   end).

(* Prepared: id, [result metadata id], prepared metadata (flags, column count, pk count, pk
   indexes, [global table spec], column specs), result metadata *)
Definition pk_seq_leb (a b : N * N) : bool := snd a <=? snd b.
Fixpoint pk_seq_insert (x : N * N) (l : list (N * N)) : list (N * N) :=
  match l with
  | [] => [x]
  | y :: r => if pk_seq_leb x y then x :: l else y :: pk_seq_insert x r
  end.
(* the wire order of the partition-key indexes: by sequence number *)
Definition pk_wire (pk : list (N * N)) : list N := List.map fst (fold_right pk_seq_insert [] pk).

Definition enc_prepared (p : prepared) : bytes :=
  enc_short_bytes (p_id p)
  ++ match p_result_metadata_id p with Some id => enc_short_bytes id | None => [] end
  ++ enc_int (p_flags p) ++ enc_int (Z.of_N (p_col_count p)) ++ enc_int (Z.of_N (lenN (p_pk p)))
  ++ flat_map enc_short (pk_wire (p_pk p))
  ++ (if flag_set (p_flags p) 1 then enc_table_spec (first_table (p_cols p)) else [])
  ++ flat_map (enc_col_spec (flag_set (p_flags p) 1)) (p_cols p)
  ++ enc_int (b2z (pr_global p) 1 + b2z (pr_no_metadata p) 4)
  ++ enc_int (Z.of_N (pr_col_count p))
  ++ (if pr_no_metadata p then []
      else (if pr_global p then enc_table_spec (first_table (pr_cols p)) else [])
           ++ flat_map (enc_col_spec (pr_global p)) (pr_cols p)).

Definition wf_cols (global : bool) (count : N) (cols : list colspec) : Prop :=
  lenN cols = count /\ Forall wf_colspec cols /\
  (global = true -> cols <> [] /\ Forall (fun c => cs_table c = first_table cols) cols).
Definition wf_prepared (ft : features) (p : prepared) : Prop :=
  wf_short_bytes (p_id p) /\
  (match p_result_metadata_id p with
   | Some id => ft_metadata_id ft = true /\ wf_short_bytes id
   | None => ft_metadata_id ft = false
   end) /\
  wf_int (p_flags p) /\ p_col_count p < 2 ^ 31 /\ pr_col_count p < 2 ^ 31 /\
  Forall (fun x => fst x < 65536) (p_pk p) /\ lenN (p_pk p) < 65536 /\
  p_pk p = pk_sort (pk_enumerate 0 (pk_wire (p_pk p))) /\
  wf_cols (flag_set (p_flags p) 1) (p_col_count p) (p_cols p) /\
  (if pr_no_metadata p then pr_cols p = [] else wf_cols (pr_global p) (pr_col_count p) (pr_cols p)).

Definition enc_result (r : result_body) : bytes :=
  match r with
  | ResVoid => enc_int 1
  | ResRows rr => enc_int 2 ++ enc_rows rr
  | ResSetKeyspace ks => enc_int 3 ++ enc_string ks
  | ResPrepared p => enc_int 4 ++ enc_prepared p
  | ResSchemaChange sc => enc_int 5 ++ enc_schema_change sc
  end.
Definition wf_result (ft : features) (r : result_body) : Prop :=
  match r with
  | ResVoid => True
  | ResRows rr => wf_rows ft rr
  | ResSetKeyspace ks => wf_string ks
  | ResPrepared p => wf_prepared ft p
  | ResSchemaChange sc => wf_schema_change sc
  end.

(* ---- responses ------------------------------------------------------------------------------ *)
Definition opcode_of (r : response) : N :=
  match r with
  | RError _ _ => 0 | RReady => 2 | RAuthenticate _ => 3 | RSupported _ => 6 | RResult _ => 8
  | REvent _ => 12 | RAuthChallenge _ => 14 | RAuthSuccess _ => 16
  end.
Definition enc_response (ft : features) (r : response) : bytes :=
  match r with
  | RError e reason => enc_error ft e reason
  | RReady => []
  | RAuthenticate n => enc_string n
  | RSupported o => enc_string_multimap o
  | RResult x => enc_result x
  | REvent e => enc_event e
  | RAuthChallenge m | RAuthSuccess m => enc_bytes_opt m
  end.
Definition wf_opt_bytes (m : option bytes) : Prop := match m with Some v => wf_bytes v | None => True end.
Definition wf_response (ft : features) (v2 : bool) (r : response) : Prop :=
  match r with
  | RError e reason => wf_dberror ft e /\ wf_string reason
  | RReady => True
  | RAuthenticate n => wf_string n
  | RSupported o =>
    lenN o < 65536 /\ keys_nodup o /\ Forall (fun kv => wf_string (fst kv) /\ wf_string_list (snd kv)) o
  | RResult x => wf_result ft x
  | REvent e => wf_event v2 e
  | RAuthChallenge m | RAuthSuccess m => wf_opt_bytes m
  end.

(* ---- extensions and the frame (§2) ----------------------------------------------------------- *)
Definition enc_extensions (x : extensions) (flags : N) : bytes :=
  (if bit flags 2 then match x_trace x with Some t => t | None => [] end else [])
  ++ (if bit flags 8 then enc_string_list (x_warnings x) else [])
  ++ (if bit flags 4 then match x_payload x with Some p => enc_bytes_map p | None => [] end else []).

Definition wf_extensions (flags : N) (x : extensions) : Prop :=
  (if bit flags 2 then exists t, x_trace x = Some t /\ wf_uuid t else x_trace x = None) /\
  (if bit flags 8 then wf_string_list (x_warnings x) else x_warnings x = []) /\
  (if bit flags 4 then exists p, x_payload x = Some p /\ lenN p < 65536 /\ keys_nodup p /\
                                 Forall (fun kv => wf_string (fst kv) /\ wf_bytes (snd kv)) p
   else x_payload x = None).

(* the uncompressed body: extensions then the message *)
Definition enc_body (ft : features) (f : dframe) : bytes :=
  enc_extensions (d_ext f) (h_flags (d_header f)) ++ enc_response ft (d_resp f).

Definition enc_header (h : header) : bytes :=
  [h_version h; h_flags h] ++ enc_signed 2 (h_stream h) ++ [h_opcode h] ++ be_enc 4 (h_length h).

Section WithCodec.
(* the negotiated codec's encoder (lz4 with the 4-byte length prefix / snappy) *)
Variable compress : bytes -> bytes.

Definition wire_body (ft : features) (f : dframe) : bytes :=
  if bit (h_flags (d_header f)) 1 then compress (enc_body ft f) else enc_body ft f.

Definition encode_frame (ft : features) (f : dframe) : bytes :=
  enc_header (d_header f) ++ wire_body ft f.

(* header consistent with the message: response direction, version 4, the message's opcode, the
   length of the body as sent, flags and stream within a byte / i16 *)
Definition wf_frame (ft : features) (v2 compression : bool) (f : dframe) : Prop :=
  let h := d_header f in
  h_version h = 132 /\ h_flags h < 256 /\ (- 2 ^ 15 <= h_stream h < 2 ^ 15)%Z /\
  h_opcode h = opcode_of (d_resp f) /\
  h_length h = lenN (wire_body ft f) /\ h_length h < 2 ^ 32 /\
  (bit (h_flags h) 1 = true -> compression = true) /\
  wf_extensions (h_flags h) (d_ext f) /\ wf_response ft v2 (d_resp f).
End WithCodec.
