(* Model of the typed entry points of property C03:
     PreparedStatement::serialize_values  (SerializedValues::from_serializable with the
                                           statement's column specs; row length must match)
     PreparedStatement::calculate_token / compute_partition_key (typed values)
   Bridge to the C01 model: a bound cell of column type t becomes the raw value whose bytes are
   Cql.ser_value true t v.  Executable definitions only; proofs in Proofs/PartKeyTyped_proofs.v *)
From SV Require Import Base.Prelude Base.Bytes Model.Cql Model.Murmur Model.PartKey.
Open Scope N_scope.

Inductive typed_error :=
| TSerialization            (* PartitionKeyError::Serialization (type check / value / row length) *)
| TKey (e : c03_error).     (* the other PartitionKeyError classes *)

(* one bind marker: RawValue read back from what SerializedValues::add_value wrote *)
Definition typed_raw (t : ctype) (c : cell) : option raw_value :=
  match c with
  | CNull => Some RNull
  | CUnset => Some RUnset
  | CVal v => match ser_value true t v with Ok b => Some (RValue b) | Err _ => None end
  end.

(* the row: one cell per column spec, in marker order; a length mismatch is a serialization
   error (WrongColumnCount), as is the first cell that does not serialize *)
Fixpoint typed_row (cols : list ctype) (cells : list cell) : option (list raw_value) :=
  match cols, cells with
  | [], [] => Some []
  | t :: ts, c :: cs =>
      match typed_raw t c with
      | None => None
      | Some r => match typed_row ts cs with None => None | Some rs => Some (r :: rs) end
      end
  | _, _ => None
  end.

Definition ps_calculate_token_typed (checks : bool) (p : partitioner) (cols : list ctype)
    (wire : list N) (cells : list cell) : result typed_error (option Z) :=
  match typed_row cols cells with
  | None => Err TSerialization
  | Some raws =>
      match ps_calculate_token checks p (length cols) wire raws with
      | Ok t => Ok t
      | Err e => Err (TKey e)
      end
  end.

Definition ps_compute_partition_key_typed (checks : bool) (cols : list ctype) (wire : list N)
    (cells : list cell) : result typed_error bytes :=
  match typed_row cols cells with
  | None => Err TSerialization
  | Some raws =>
      match ps_compute_partition_key checks (length cols) wire raws with
      | Ok b => Ok b
      | Err e => Err (TKey e)
      end
  end.

(* SPECIFICATION: component j of the key is the protocol encoding (C01's Enc) of the value
   bound to the marker announced as pk index j *)
Definition typed_components_ok (cols : list ctype) (wire : list N) (cells : list cell)
    (comps : list bytes) : Prop :=
  Forall2 (fun i b => exists v, nth (N.to_nat i) cells CNull = CVal v /\
                                Enc (nth (N.to_nat i) cols (TNative NBlob)) v b) wire comps.
