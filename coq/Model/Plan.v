(* Model of scylla/src/policies/load_balancing/{default.rs (pick, fallback and their helpers),
   plan.rs (Plan)} on top of Model/Replicas.v (property C05).  Executable definitions only;
   proofs are in Proofs/Plan_proofs.v.

   A cluster is the ring of C04 + the keyspaces (name, strategy; all of them precomputed, as
   ClusterState::new does) + per node `enabled` (Node::is_enabled: has a pool / passes the host
   filter) and `connected` (Node::is_connected).  [shf n] is the shard the request's token
   maps to on node n (with_computed_shard); it is one value per node for one request.
   A target is (node, Option<Shard>).  Latency awareness is not modelled (never enabled in the
   correspondence check): pick_predicate = is_alive.
   All randomness is an oracle:  [cho site len]  the index drawn from 0..len at a call site,
   [shuf site l]  the permutation produced by a shuffle. *)
From SV Require Import Base.Prelude Model.Ring Model.Replicas.
Open Scope Z_scope.

Inductive pref := PAny | PDc (d : N) | PDcRack (d r : N).       (* NodeLocationPreference *)
Definition pref_dc (p : pref) : option N :=
  match p with PAny => None | PDc d | PDcRack d _ => Some d end.

Record policy := {
  pol_pref : option pref;          (* None = inherit the request's (session-level) preference *)
  pol_token_aware : bool;
  pol_failover : bool              (* permit_dc_failover *)
  (* enable_shuffling_replicas only fixes the seed of the shuffles: one particular oracle *)
}.

Record request := {
  rq_token : option Z;
  rq_ks : option N;                (* keyspace of RoutingInfo.table, None = no table *)
  rq_lwt : bool;                   (* should_route_as_lwt(): confirmed LWT or serial consistency *)
  rq_pref : pref                   (* RoutingInfo.node_location_preference *)
}.

Definition target := (N * option N)%type.

(* NodeLocationCriteria *)
Inductive crit := CAny | CDc (d : N) | CRack (d r : N).
Definition crit_dc (c : crit) : option N :=
  match c with CAny => None | CDc d | CRack d _ => Some d end.

(* DefaultPolicyTargetComparator::eq *)
Definition target_cmp (a b : target) : bool :=
  N.eqb (fst a) (fst b) &&
  match snd a, snd b with
  | Some s1, Some s2 => N.eqb s1 s2
  | _, _ => true
  end.
(* tuple equality used by Plan to filter the picked target out *)
Definition target_eqb (a b : target) : bool :=
  N.eqb (fst a) (fst b) && oeqb (snd a) (snd b).

(* itertools unique_by over a HashSet keyed by the comparator (hash = host id): an element is
   kept iff no element kept before compares equal to it *)
Fixpoint dedup_aux (kept : list target) (l : list target) : list target :=
  match l with
  | [] => []
  | x :: r => if existsb (target_cmp x) kept then dedup_aux kept r else x :: dedup_aux (x :: kept) r
  end.
Definition dedup (l : list target) : list target := dedup_aux [] l.

Definition rotate {A} (k : nat) (l : list A) : list A := skipn k l ++ firstn k l.

Fixpoint ks_lookup (ks : list (N * strategy)) (k : N) : option strategy :=
  match ks with
  | [] => None
  | (k', s) :: r => if N.eqb k' k then Some s else ks_lookup r k
  end.

Section Plan.
  Variables (dcf rackf : N -> option N) (g : ring N) (keyspaces : list (N * strategy)).
  Variables (enabled connected : N -> bool) (shf : N -> N).
  Variables (pol : policy) (rq : request).

  Definition pre : list strategy := map snd keyspaces.
  (* DefaultPolicy::is_alive = node.is_connected(); a node without a pool is never connected *)
  Definition alive (n : N) : bool := enabled n && connected n.

  (* ProcessedRoutingInfo *)
  Definition eff_pref : pref := match pol_pref pol with Some p => p | None => rq_pref rq end.
  Definition token_strategy : option (Z * strategy) :=
    if pol_token_aware pol then
      match rq_token rq, rq_ks rq with
      | Some t, Some k => match ks_lookup keyspaces k with Some s => Some (t, s) | None => None end
      | _, _ => None
      end
    else None.
  Definition failover_possible : bool :=
    match pref_dc eff_pref with Some _ => pol_failover pol | None => false end.

  Definition all_nodes : list N := unique_nodes g.
  (* preferred_node_set *)
  Definition local_nodes : list N :=
    match pref_dc eff_pref with
    | Some d => unique_nodes (dc_ring dcf g d)
    | None => all_nodes
    end.

  Definition rack_is (r n : N) : bool := oeqb (rackf n) (Some r).
  (* make_rack_predicate / make_sharded_rack_predicate *)
  Definition crit_ok (c : crit) (n : N) : bool :=
    match c with CRack _ r => rack_is r n | _ => true end.

  Definition rset_for (t : Z) (s : strategy) (c : crit) : rset :=
    replicas_for dcf rackf g pre t s (crit_dc c).
  Definition reps_iter (t : Z) (s : strategy) (c : crit) : list N :=
    rs_iter dcf rackf g pre t (rset_for t s c).
  Definition reps_ordered (t : Z) (s : strategy) (c : crit) : list N :=
    fst (rs_ordered dcf rackf g pre t (rset_for t s c)).

  (* filtered_replicas: [det] = ReplicaOrder::Deterministic *)
  Definition filtered_replicas (t : Z) (s : strategy) (c : crit) (pred : N -> bool) (det : bool) : list N :=
    filter (fun n => pred n && crit_ok c n) (if det then reps_ordered t s c else reps_iter t s c).

  (* which of the chained groups exist for this policy / request *)
  Definition crit_rack : option crit :=
    match eff_pref with PDcRack d r => Some (CRack d r) | _ => None end.
  Definition crit_local : option crit :=
    match pref_dc eff_pref with Some d => Some (CDc d) | None => None end.
  Definition remote_allowed : bool :=
    match pref_dc eff_pref with None => true | Some _ => failover_possible end.

  Section Oracles.
    Variables (cho : nat -> nat -> nat) (shuf : nat -> list N -> list N).

    (* ---------------------------------------------------------------- fallback() *)
    (* maybe_shuffled_replicas *)
    Definition maybe_shuffled (site : nat) (t : Z) (s : strategy) (c : crit) : list N :=
      if rq_lwt rq then filtered_replicas t s c alive true
      else shuf site (filtered_replicas t s c alive false).

    Definition fb_replicas : list target :=
      match token_strategy with
      | Some (t, s) =>
          map (fun n => (n, Some (shf n)))
            ((match crit_rack with Some c => maybe_shuffled 1 t s c | None => [] end) ++
             (match crit_local with Some c => maybe_shuffled 2 t s c | None => [] end) ++
             (if remote_allowed then maybe_shuffled 3 t s CAny else []))
      | None => []
      end.

    (* randomly_rotated_nodes / round_robin_nodes *)
    Definition round_robin (site : nat) (nodes : list N) (pred : N -> bool) : list N :=
      filter pred (rotate (cho site (List.length nodes)) nodes).

    Definition fb_nodes : list target :=
      map (fun n => (n, None))
        ((match crit_rack with
          | Some c => round_robin 4 local_nodes (fun n => alive n && crit_ok c n)
          | None => []
          end) ++
         round_robin 5 local_nodes alive ++
         (if failover_possible then round_robin 6 all_nodes alive else []) ++
         filter enabled local_nodes ++
         (if failover_possible then filter enabled all_nodes else [])).

    Definition fallback : list target := dedup (fb_replicas ++ fb_nodes).

    (* ---------------------------------------------------------------- pick() *)
    Inductive picked := Computed (n : N) | ToBeComputedInFallback.

    (* pick_replica *)
    Definition pick_replica (site : nat) (t : Z) (s : strategy) (c : crit) : option picked :=
      if rq_lwt rq then
        (* pick_first_replica *)
        match c with
        | CAny => match reps_ordered t s CAny with
                  | [] => None
                  | primary :: _ => Some (if alive primary then Computed primary else ToBeComputedInFallback)
                  end
        | _ => match filtered_replicas t s c alive true with
               | [] => None
               | n :: _ => Some (Computed n)
               end
        end
      else
        (* pick_random_replica -> ReplicaSet::choose_filtered *)
        let it := reps_iter t s c in
        match nth_error it (cho site (List.length it)) with
        | None => None                                  (* `self.choose(rng)?` on an empty set *)
        | Some happy =>
            if alive happy && crit_ok c happy then Some (Computed happy)
            else let f := filter (fun n => alive n && crit_ok c n) it in
                 option_map Computed (nth_error f (cho (site + 10) (List.length f)))
        end.

    (* pick_node *)
    Definition pick_node (site : nat) (nodes : list N) (pred : N -> bool) : option N :=
      find pred (rotate (cho site (List.length nodes)) nodes).

    (* the token-unaware part of pick(): the first of five attempts that finds a node *)
    Definition node_steps : list (option N) :=
      [ match crit_rack with
        | Some c => pick_node 24 local_nodes (fun n => alive n && crit_ok c n)
        | None => None
        end;
        pick_node 25 local_nodes alive;
        if failover_possible then pick_node 26 all_nodes alive else None;
        pick_node 27 local_nodes enabled;
        if failover_possible then pick_node 28 all_nodes enabled else None ].
    Fixpoint first_node (l : list (option N)) : option target :=
      match l with
      | [] => None
      | Some n :: _ => Some (n, None)
      | None :: r => first_node r
      end.
    Definition pick_nodes_part : option target := first_node node_steps.

    (* the token-aware part: up to three pick_replica attempts; each `if let Some(picked)` returns *)
    Definition replica_steps (t : Z) (s : strategy) : list (option picked) :=
      [ match crit_rack with Some c => pick_replica 21 t s c | None => None end;
        match crit_local with Some c => pick_replica 22 t s c | None => None end;
        if remote_allowed then pick_replica 23 t s CAny else None ].
    Fixpoint first_picked (l : list (option picked)) (k : option target) : option target :=
      match l with
      | [] => k
      | Some (Computed n) :: _ => Some (n, Some (shf n))
      | Some ToBeComputedInFallback :: _ => None          (* left to fallback() *)
      | None :: r => first_picked r k
      end.

    Definition pick : option target :=
      match token_strategy with
      | Some (t, s) => first_picked (replica_steps t s) pick_nodes_part
      | None => pick_nodes_part
      end.

    (* ---------------------------------------------------------------- Plan *)
    (* Created -> Picked -> Fallback: the fallback iterator without the picked target; when pick
       returns None the first fallback element plays that role.  (The random shard of
       with_random_shard_if_unknown does not change which nodes appear.) *)
    Definition plan : list target :=
      match pick with
      | Some p => p :: filter (fun x => negb (target_eqb x p)) fallback
      | None => match fallback with
                | [] => []
                | f :: rest => f :: filter (fun x => negb (target_eqb x f)) rest
                end
      end.
  End Oracles.

  (* ======================= the property, as predicates on an observed plan ================= *)
  (* nodes the plan may and must name: the preferred datacenter's nodes when a datacenter is
     preferred and failover is not permitted, else every token-owning node *)
  Definition restricted_dc : option N :=
    match pref_dc eff_pref with
    | Some d => if pol_failover pol then None else Some d
    | None => None
    end.
  Definition permitted_with (an : list N) (n : N) : bool :=
    mem n an && match restricted_dc with Some d => in_dc dcf d n | None => true end.
  Definition permitted (n : N) : bool := permitted_with all_nodes n.

  (* replicas of the request's token: restricted to the preferred datacenter / unrestricted *)
  Definition rep_local : list N :=
    match token_strategy, crit_local with
    | Some (t, s), Some c => reps_iter t s c
    | _, _ => []
    end.
  Definition rep_any : list N :=
    match token_strategy with
    | Some (t, s) => reps_iter t s CAny
    | None => []
    end.

  (* the eight groups of the plan, in order; 8 = the node may not be named at all.
     [an ln rl ra] = all_nodes, local_nodes, rep_local, rep_any (passed in so that the
     extracted acceptor computes them once per plan) *)
  Definition group_with (an ln rl ra : list N) (n : N) : nat :=
    let in_rack := match crit_rack with Some c => crit_ok c n | None => false end in
    let has_local := match crit_local with Some _ => true | None => false end in
    if in_rack && alive n && mem n rl then 0%nat
    else if has_local && alive n && mem n rl then 1%nat
    else if remote_allowed && alive n && mem n ra then 2%nat
    else if in_rack && alive n && mem n ln then 3%nat
    else if alive n && mem n ln then 4%nat
    else if failover_possible && alive n && mem n an then 5%nat
    else if enabled n && mem n ln then 6%nat
    else if failover_possible && enabled n && mem n an then 7%nat
    else 8%nat.
  Definition group_of (n : N) : nat := group_with all_nodes local_nodes rep_local rep_any n.

  Fixpoint nondecreasing (l : list nat) : bool :=
    match l with
    | [] => true
    | x :: r => match r with [] => true | y :: _ => (x <=? y)%nat end && nondecreasing r
    end.

  (* LWT: the replica part of every plan is this one sequence *)
  Definition lwt_sequence : list N :=
    match token_strategy with
    | Some (t, s) =>
        uniq ((match crit_rack with Some c => filtered_replicas t s c alive true | None => [] end) ++
              (match crit_local with Some c => filtered_replicas t s c alive true | None => [] end) ++
              (if remote_allowed then filtered_replicas t s CAny alive true else []))
    | None => []
    end.

  Definition P_nodup (p : list N) : Prop := NoDup p.
  (* only token-owning nodes are named (a node outside the ring has no group) *)
  Definition P_ring (p : list N) : Prop := forall n, In n p -> In n all_nodes.
  Definition P_filter (p : list N) : Prop := forall n, In n p -> enabled n = true.
  Definition P_locality (p : list N) : Prop :=
    forall d, pref_dc eff_pref = Some d -> pol_failover pol = false ->
    forall n, In n p -> in_dc dcf d n = true.
  Definition P_complete (p : list N) : Prop :=
    forall n, In n all_nodes -> enabled n = true ->
      (forall d, pref_dc eff_pref = Some d -> pol_failover pol = false -> in_dc dcf d n = true) ->
      In n p.
  Definition P_order (p : list N) : Prop :=
    forall i j a b, (i < j)%nat -> nth_error p i = Some a -> nth_error p j = Some b ->
      (group_of a <= group_of b)%nat.
  Definition P_lwt (p : list N) : Prop :=
    rq_lwt rq = true -> filter (fun n => (group_of n <? 3)%nat) p = lwt_sequence.

  (* the acceptor evaluated on every real plan *)
  Definition plan_matches (p : list N) : bool :=
    let an := all_nodes in
    let grp := group_with an local_nodes rep_local rep_any in
    let ok := fun n => enabled n && permitted_with an n in
    nodupb p &&
    forallb ok p &&
    forallb (fun n => mem n p) (filter ok an) &&
    nondecreasing (map grp p) &&
    (if rq_lwt rq then list_eqb (filter (fun n => (grp n <? 3)%nat) p) lwt_sequence else true).

  (* what pick() may return: a member of the first non-empty group; for LWT the head of the LWT
     sequence, or nothing at all when the primary replica is down (left to fallback) *)
  Definition min_group_with (an : list N) (grp : N -> nat) : nat :=
    fold_right (fun n acc => Nat.min (grp n) acc) 8%nat an.
  Definition min_group : nat := min_group_with all_nodes group_of.
  Definition pick_matches (o : option N) : bool :=
    let an := all_nodes in
    let grp := group_with an local_nodes rep_local rep_any in
    let mg := min_group_with an grp in
    match o with
    | Some n => (grp n =? mg)%nat && (grp n <? 8)%nat &&
                (if rq_lwt rq && (grp n <? 3)%nat
                 then match lwt_sequence with x :: _ => N.eqb x n | [] => false end else true)
    | None => (mg =? 8)%nat ||
              (* LWT without a usable local replica: the ring's primary replica is down *)
              (rq_lwt rq && remote_allowed &&
               match token_strategy with
               | Some (t, s) => match reps_ordered t s CAny with
                                | primary :: _ => negb (alive primary) && (2 <=? mg)%nat
                                | [] => false
                                end
               | None => false
               end)
    end.
End Plan.

(* ---- liveness read twice ------------------------------------------------------------------
   Plan::next calls pick() first and fallback() only when a second target is asked for; a node's
   pool may change state in between.  [en1 co1] = the liveness pick() saw, [en2 co2] = what
   fallback() sees (all of it at once: the part of the iterator chain that is evaluated lazily
   is read at that one later moment).  Only the branch in which pick() returned a target is
   modelled this way (when pick() returns None the fallback iterator is created at once). *)
Definition plan_two_reads (dcf rackf : N -> option N) (g : ring N) (keyspaces : list (N * strategy))
    (en1 co1 en2 co2 : N -> bool) (shf : N -> N) (pol : policy) (rq : request)
    (cho : nat -> nat -> nat) (shuf : nat -> list N -> list N) : option (list target) :=
  match pick dcf rackf g keyspaces en1 co1 shf pol rq cho with
  | Some p => Some (p :: filter (fun x => negb (target_eqb x p))
                               (fallback dcf rackf g keyspaces en2 co2 shf pol rq cho shuf))
  | None => None
  end.

(* the acceptor for one observed plan whose first target was taken under [en1 co1] and the rest
   under [en2 co2] (kind L of the correspondence check).  [inserts h pre post]: the lists obtained
   by putting h somewhere into post (after the reversed prefix pre).  The later plan's target for
   the picked node carries a shard iff the node is then in a replica group (group < 3); the picked
   target does iff it was picked from a replica group; Plan removes the later target only when
   the two are equal. *)
Fixpoint inserts (h : N) (pre post : list N) : list (list N) :=
  (rev pre ++ h :: post) ::
  match post with
  | [] => []
  | x :: r => inserts h (x :: pre) r
  end.
Definition two_reads_matches (dcf rackf : N -> option N) (g : ring N) (keyspaces : list (N * strategy))
    (en1 co1 en2 co2 : N -> bool) (pol : policy) (rq : request) (p : list N) : bool :=
  match p with
  | [] => false
  | h :: rest =>
      let g1 := group_of dcf rackf g keyspaces en1 co1 pol rq h in
      let g2 := group_of dcf rackf g keyspaces en2 co2 pol rq h in
      let pm2 := plan_matches dcf rackf g keyspaces en2 co2 pol rq in
      pick_matches dcf rackf g keyspaces en1 co1 pol rq (Some h) &&
      (if (8 <=? g2)%nat then negb (mem h rest) && pm2 rest                       (* not allowed any more *)
       else if Bool.eqb (g1 <? 3)%nat (g2 <? 3)%nat
            then negb (mem h rest) && existsb pm2 (inserts h [] rest)             (* equal target: removed *)
            else mem h rest && pm2 rest)                                          (* other annotation: kept *)
  end.

(* what every two-read plan must keep whatever the liveness change was (the viol / diff split of
   kind L on a plan the acceptor above refused): the first target was enabled when it was chosen
   and is permitted; every later target is enabled under the later liveness and permitted; the
   later targets name no node twice; and the picked node is not named again unless its annotation
   changed (it is still allowed later and moved between a replica group and a non-replica group) *)
Definition two_reads_safe_b (dcf rackf : N -> option N) (g : ring N) (keyspaces : list (N * strategy))
    (en1 co1 en2 co2 : N -> bool) (pol : policy) (rq : request) (p : list N) : bool :=
  match p with
  | [] => false
  | h :: rest =>
      let g1 := group_of dcf rackf g keyspaces en1 co1 pol rq h in
      let g2 := group_of dcf rackf g keyspaces en2 co2 pol rq h in
      en1 h && permitted dcf g pol rq h &&
      forallb (fun n => en2 n && permitted dcf g pol rq n) rest &&
      nodupb rest &&
      negb (mem h rest && ((g2 <? 8)%nat && Bool.eqb (g1 <? 3)%nat (g2 <? 3)%nat))
  end.
