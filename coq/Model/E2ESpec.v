(* End-to-end half of C13: the observation of Model/E2EAttempts.v (request frames of one logical
   request as a mock cluster sees them, with arrival and answer instants), judged against the
   model of speculative execution of Model/Spec.v.

   Certificate: the fibers (Model/E2EAttempts.v: per fiber its part of the plan and its outcome
   stream, checked against the execution-loop model), and a SCHEDULE of `execute` -- a list of
   Spec labels (Timer / Complete f out).  The checker runs Spec.run on the schedule and checks
   that the schedule is compatible with what was observed:
   - Complete f out: fiber f ran to its end, out is the model's result of fiber f, and its last
     answer was logged before the call returned; a fiber without any frame may complete only with
     None (it found the shared plan empty), and only if every node that is not cut was handed out;
   - order: a completion is not placed before one whose answer was logged more than [margin]
     earlier; a completion placed before the timer tick that started fiber k was logged before
     fiber k's first frame arrived; the last answer of a fiber that is not completed in the
     schedule was logged no more than [margin] before the completion that made the call return;
   - fiber k's first frame arrives no earlier than k retry intervals after the call started;
   - what the schedule returns is what the caller got.
   Timing is only used through one-sided bounds that hold for every scheduling of the process and
   through [margin] (answer instants closer than that are treated as simultaneous: both orders
   are allowed).

   Executable definitions only; proofs in Proofs/E2ESpec_proofs.v. *)
From SV Require Import Base.Prelude Model.Retry Model.Fiber Model.E2EAttempts.
From SV Require Model.Spec.
Open Scope N_scope.

(* ---- the error types of the two models ---------------------------------------------------- *)
Definition conv_db (d : db_error) : Spec.db_error :=
  match d with
  | DbSyntaxError => Spec.SyntaxError | DbInvalid => Spec.Invalid
  | DbAlreadyExists => Spec.AlreadyExists | DbFunctionFailure => Spec.FunctionFailure
  | DbAuthenticationError => Spec.AuthenticationError | DbUnauthorized => Spec.Unauthorized
  | DbConfigError => Spec.ConfigError | DbUnavailable _ _ => Spec.Unavailable
  | DbOverloaded => Spec.Overloaded | DbIsBootstrapping => Spec.IsBootstrapping
  | DbTruncateError => Spec.TruncateError | DbReadTimeout _ _ _ => Spec.ReadTimeout
  | DbWriteTimeout _ _ _ => Spec.WriteTimeout | DbReadFailure => Spec.ReadFailure
  | DbWriteFailure => Spec.WriteFailure | DbUnprepared => Spec.Unprepared
  | DbServerError => Spec.ServerError | DbProtocolError => Spec.ProtocolError
  | DbRateLimitReached => Spec.RateLimitReached | DbOther => Spec.OtherDb
  end.

Definition conv_err (e : attempt_error) : Spec.attempt_error :=
  match e with
  | ESerializationError => Spec.SerializationError
  | ECqlRequestSerialization => Spec.CqlRequestSerialization
  | EUnableToAllocStreamId => Spec.UnableToAllocStreamId
  | EBrokenConnectionError => Spec.BrokenConnectionError
  | EBodyExtensionsParseError => Spec.BodyExtensionsParseError
  | ECqlResultParseError => Spec.CqlResultParseError
  | ECqlErrorParseError => Spec.CqlErrorParseError
  | EDbError d => Spec.DbError (conv_db d)
  | EUnexpectedResponse => Spec.UnexpectedResponse
  | ERepreparedIdChanged => Spec.RepreparedIdChanged
  | ERepreparedIdMissingInBatch => Spec.RepreparedIdMissingInBatch
  | ENonfinishedPagingState => Spec.NonfinishedPagingState
  end.

Definition conv_last (e : last_err) : Spec.request_error :=
  match e with
  | LConn => Spec.ConnectionPoolError
  | LAttempt a => Spec.LastAttemptError (conv_err a)
  end.

(* what fiber number i yields to `execute`; a success is tagged with the fiber's number *)
Definition conv_result (i : nat) (r : fiber_result N) : Spec.fiber_out :=
  match r with
  | RCompleted _ | RIgnoredWriteError _ => Some (Ok (N.of_nat i))
  | RFailed e => Some (Err (conv_last e))
  | REmptyPlan | RPending => None
  end.

(* ---- per-fiber data derived from the fiber certificates ------------------------------------- *)
Record finfo := mkFinfo {
  fi_frames : list frame;
  fi_cert : cert;
  fi_res : option (fiber_result N)
}.

Definition finfos (p : policy) (idem : bool) (cl0 : consistency) (down : list N)
           (cs : list cert) (assign : list nat) (frs : list frame) : list finfo :=
  map (fun ic => let fr := sub_frames (fst ic) assign frs in
                 mkFinfo fr (snd ic) (fiber_check p idem cl0 down (snd ic) fr))
      (indexed cs).

Definition fi_finished (fi : finfo) : bool :=
  match fi_res fi with
  | Some r => fiber_finished (fi_cert fi) r
  | None => false
  end.
(* instant the fiber's last answer was logged / its first frame arrived *)
Definition fi_done (fi : finfo) : option N :=
  match rev (fi_frames fi) with
  | f :: _ => if answered f then Some (f_done f) else None
  | [] => None
  end.
Definition fi_start (fi : finfo) : option N :=
  match fi_frames fi with f :: _ => Some (f_arr f) | [] => None end.

(* the observable side of one schedule label *)
Record env := mkEnv {
  e_fis : list finfo;
  e_t0 : N;              (* the call started no earlier *)
  e_tret : N;            (* the call returned no later *)
  e_interval : N;
  e_margin : N;
  e_exhausted : bool;    (* every node whose connection is not cut got a frame: the plan is used up *)
  e_co : option N        (* coordinator named by the result, when the API exposes it *)
}.

(* [lo, hi]: the instant fiber f completed lies in it.  A fiber with frames completes when its last
   answer is processed (the answer instant itself is used: the margin absorbs the difference); a
   fiber without frames some time between its timer tick and the return of the call. *)
Definition comp_window (e : env) (f : nat) : option (N * N) :=
  match nth_error (e_fis e) f with
  | Some fi =>
      match fi_frames fi with
      | [] => Some (e_t0 e + N.of_nat f * e_interval e, e_tret e)
      | _ :: _ => match fi_done fi with Some d => Some (d, d) | None => None end
      end
  | None => Some (e_t0 e + N.of_nat f * e_interval e, e_tret e)
  end.

(* may [Complete f out] be a label of the schedule? *)
Definition complete_ok (e : env) (f : nat) (out : Spec.fiber_out) : bool :=
  match nth_error (e_fis e) f with
  | Some fi =>
      fi_finished fi
      && (match out with None => e_exhausted e | Some _ => true end)
      && match fi_res fi with
         | Some r => if Spec.fiber_out_eq_dec out (conv_result f r) then true else false
         | None => false
         end
      && match fi_frames fi with
         | [] => e_exhausted e
         | _ :: _ => match fi_done fi with Some d => d <=? e_tret e | None => false end
         end
  | None =>
      (* a fiber the mock never saw: it found the shared plan empty *)
      e_exhausted e
      && match out with None => true | Some _ => false end
      && (e_t0 e + N.of_nat f * e_interval e <=? e_tret e)
  end.

(* upper bound of the instant fiber k was started *)
Definition start_hi (e : env) (k : nat) : N :=
  match nth_error (e_fis e) k with
  | Some fi => match fi_start fi with Some a => a | None => e_tret e end
  | None => e_tret e
  end.

(* walks the schedule: every label is enabled in the model and compatible with the observation;
   [seen] = lower bounds of the completions so far *)
Fixpoint walk (e : env) (s : Spec.state) (ls : list Spec.label) (seen : list N) : bool :=
  match ls with
  | [] => true
  | l :: rest =>
      match Spec.step s l with
      | None => false
      | Some s' =>
          match l with
          | Spec.Timer =>
              (if (Spec.started s <? Spec.started s')%nat
               then forallb (fun lo => lo <=? start_hi e (Spec.started s)) seen
               else true)
              && walk e s' rest seen
          | Spec.Complete f out =>
              complete_ok e f out
              && match comp_window e f with
                 | Some (lo, hi) =>
                     forallb (fun lo' => lo' <=? hi + e_margin e) seen && walk e s' rest (lo :: seen)
                 | None => false
                 end
          end
      end
  end.

(* lower bound of the last completion of the schedule (the one that made the call return) *)
Fixpoint last_completion (e : env) (ls : list Spec.label) (acc : option N) : option N :=
  match ls with
  | [] => acc
  | Spec.Timer :: rest => last_completion e rest acc
  | Spec.Complete f _ :: rest =>
      last_completion e rest (match comp_window e f with Some (lo, _) => Some lo | None => acc end)
  end.

(* fibers that are still running when the call returns were cancelled: the last answer any of them
   got was logged no more than [margin] before the completion that made the call return (a fiber
   whose last answer is older has either run to its end -- then it completed -- or sent its next
   frame long ago) *)
Definition leftovers_ok (e : env) (s : Spec.state) (ls : list Spec.label) : bool :=
  match last_completion e ls None with
  | None => false
  | Some tl =>
      forallb (fun g => match nth_error (e_fis e) g with
                        | Some fi =>
                            match fi_done fi with
                            | Some d => negb (d + e_margin e <? tl)
                            | None => true
                            end
                        | None => true
                        end) (Spec.running s)
  end.

(* fiber k's first frame: not before k retry intervals after the call started *)
Definition starts_ok (e : env) : bool :=
  forallb (fun kfi => match fi_start (snd kfi) with
                      | Some a => e_t0 e + N.of_nat (fst kfi) * e_interval e <=? a
                      | None => true
                      end) (indexed (e_fis e)).

(* what `execute` returned against what the caller got *)
Definition rres_match (e : env) (R : Spec.rres) (o : ores) : bool :=
  match R with
  | Ok tag =>
      match nth_error (e_fis e) (N.to_nat tag) with
      | Some fi => match fi_res fi with Some r => res_match r o && coord_match (e_co e) r | None => false end
      | None => false
      end
  | Err Spec.EmptyPlan => match o with OEmptyPlan => true | _ => false end
  | Err re =>
      match o with
      | OFailed le => if Spec.request_error_eq_dec re (conv_last le) then true else false
      | _ => false
      end
  end.

Definition mk_env (p : policy) (idem : bool) (cl0 : consistency) (nodes down : list N)
           (interval : N) (cs : list cert) (assign : list nat) (frs : list frame)
           (t0 tret margin : N) (co : option N) : env :=
  mkEnv (finfos p idem cl0 down cs assign frs) t0 tret interval margin
        (nodes_covered nodes down frs) co.

(* gate open *)
Definition check_spec (p : policy) (idem : bool) (cl0 : consistency) (nodes down : list N)
           (max : nat) (interval : N) (cs : list cert) (assign : list nat) (frs : list frame)
           (ls : list Spec.label) (t0 tret margin : N) (o : ores) (co : option N) : bool :=
  let e := mk_env p idem cl0 nodes down interval cs assign frs t0 tret margin co in
  multi_ok p idem cl0 nodes down max cs assign frs
  && nodupb nodes
  && overlap_ok (1 + max) frs
  && starts_ok e
  && walk e (Spec.init max) ls []
  && match Spec.run (Spec.init max) ls with
     | Some s =>
         (List.length cs <=? Spec.started s)%nat
         && ((Spec.started s <=? List.length cs)%nat || e_exhausted e)
         && leftovers_ok e s ls
         && match Spec.returned s with
            | Some R => rres_match e R o
            | None => false
            end
     | None => false
     end.

(* the whole judgement of one logical request for C13: gate closed = one fiber run to its end and
   never two frames in flight (E2EAttempts.check_single); gate open = the above *)
Definition e2e_check13 (p : policy) (idem : bool) (spec : option (nat * N)) (cl0 : consistency)
           (nodes down : list N) (cs : list cert) (assign : list nat) (frs : list frame)
           (ls : list Spec.label) (t0 tret margin : N) (o : ores) (co : option N) : bool :=
  match gate_open idem (option_map fst spec), spec with
  | Some max, Some (_, interval) =>
      check_spec p idem cl0 nodes down max interval cs assign frs ls t0 tret margin o co
  | _, _ =>
      match cs with
      | [c] => check_single p idem cl0 nodes down c frs tret o co && overlap_ok 1 frs
      | _ => false
      end
  end.

(* ---- the property on the observation itself, for rejected observations ----------------------- *)
(* gate closed: never two frames in flight; gate open: never more than 1 + max, never two on one node *)
Definition prop_overlap (idem : bool) (spec : option nat) (frs : list frame) : bool :=
  match gate_open idem spec with
  | None => overlap_ok 1 frs
  | Some max => overlap_ok (1 + max) frs
  end.

(* "the call returns the first result that is a success or a definitive error", directly on the
   frames.  An answer is REAL when it ends its fiber with a result `execute` returns at once: a
   success, or an error that no built-in retry policy retries and that is not ignorable
   (final_definitive, see Proofs/E2ESpec_proofs.v final_definitive_spec).  A frame WINS when its
   answer is what the caller got (rows: on the node the result names as coordinator; an error: the
   same error variant; a void result -- BATCH, ignored write error -- names no frame).
   The property fails when some real answer was logged more than [margin] before EVERY winning
   answer: the call returned a later answer although an earlier real one was there.  (Nothing is
   said when no frame wins: ignored write errors, pool errors.) *)
Definition final_definitive (e : attempt_error) : bool :=
  match e with
  | EDbError (DbSyntaxError | DbInvalid | DbAlreadyExists | DbFunctionFailure | DbAuthenticationError
              | DbUnauthorized | DbConfigError | DbProtocolError) => true
  | _ => false
  end.
Definition real_ans (a : answer) : bool :=
  match a with AnsOk => true | AnsErr e => final_definitive e | AnsNone => false end.
Definition wins (o : ores) (co : option N) (f : frame) : bool :=
  match o, f_ans f with
  | OCompleted, AnsOk => match co with Some c => c =? f_node f | None => true end
  | OFailed (LAttempt e), AnsErr e' => if Spec.attempt_error_eq_dec (conv_err e) (conv_err e') then true else false
  | _, _ => false
  end.
Definition prop_first_real (margin : N) (o : ores) (co : option N) (frs : list frame) : bool :=
  let ws := filter (wins o co) frs in
  is_nil ws
  || forallb (fun g => negb (real_ans (f_ans g))
                       || existsb (fun w => negb (f_done g + margin <? f_done w)) ws) frs.

(* "... and otherwise the last error once every started execution has finished and none may still be
   started", directly on the frames: when the caller got an IGNORABLE error, (a) no frame is still
   unanswered when the call returns, and (b) unless connections were cut, either every node got a
   frame (plan used up) or at least 1 + max frames were sent (an execution sends at least one frame
   while the plan is not used up, so fewer frames = fewer executions). *)
Definition ignorable_res (o : ores) : bool :=
  match o with
  | OFailed e => Spec.can_be_ignored (Err (conv_last e))
  | _ => false
  end.
Definition distinct_nodes (frs : list frame) : nat := List.length (nodup N.eq_dec (map f_node frs)).
Definition prop_last_error (max nnodes : nat) (down : list N) (tret : N) (o : ores) (frs : list frame) : bool :=
  negb (ignorable_res o)
  || (forallb (fun f => answered f && (f_done f <=? tret)) frs
      && (negb (is_nil down) || (nnodes <=? distinct_nodes frs)%nat || (1 + max <=? List.length frs)%nat)).
