(* Model of scylla/src/routing/locator/token_ring.rs and of the ring part of
   replication_info.rs (property C04).  Executable definitions only; proofs are in
   Proofs/Ring_proofs.v.

   Rust types: Token.value : i64 (here Z); a node is identified by its host id (Node's Eq and
   Hash use host_id only) — here N.  Datacenter / rack names are N; the node attributes are two
   functions  dcf, rackf : N -> option N  (a node id has one datacenter and one rack, which is
   what "the same Arc<Node>" guarantees in the code). *)
From SV Require Import Base.Prelude.
Open Scope Z_scope.

Definition ring (A : Type) := list (Z * A).

(* ---- TokenRing::new : `ring.sort_by_key(|a| a.0)` is a STABLE sort ------------------- *)
Fixpoint ins {A} (x : Z * A) (l : ring A) : ring A :=
  match l with
  | [] => [x]
  | y :: r => if fst y <=? fst x then y :: ins x r else x :: l
  end.
Definition sort_ring {A} (l : ring A) : ring A := fold_left (fun acc x => ins x acc) l [].

(* ---- TokenRing::ring_range_full -------------------------------------------------------
   `self.ring.partition_point(|e| e.0 < token)` : on a slice sorted by token this is the first
   index whose token is not lower than the given one, i.e. the number of lower tokens
   (members sharing a token are never skipped). *)
Definition count_lt {A} (t : Z) (l : ring A) : nat := List.length (filter (fun e => fst e <? t) l).
Definition landing {A} (l : ring A) (t : Z) : nat := count_lt t l.

(* `self.ring[i..].iter().chain(self.ring.iter()).take(self.ring.len())` *)
Definition ring_range_full {A} (l : ring A) (t : Z) : ring A :=
  let k := landing l t in skipn k l ++ firstn k l.
Definition ring_range {A} (l : ring A) (t : Z) : list A := map snd (ring_range_full l t).
(* get_elem_for_token : `self.ring_range(token).next()` *)
Definition get_entry_for_token {A} (l : ring A) (t : Z) : option (Z * A) := hd_error (ring_range_full l t).
Definition get_elem_for_token {A} (l : ring A) (t : Z) : option A := hd_error (ring_range l t).

(* ---- itertools `.unique()` : first occurrences, in order ------------------------------ *)
Section Uniq.
  Context {A : Type} (eqb : A -> A -> bool).
  Definition mem_by (x : A) (l : list A) : bool := existsb (eqb x) l.
  Fixpoint uniq_aux (seen l : list A) : list A :=
    match l with
    | [] => []
    | x :: r => if mem_by x seen then uniq_aux seen r else x :: uniq_aux (x :: seen) r
    end.
  Definition uniq_by (l : list A) : list A := uniq_aux [] l.
  Fixpoint remove_by (x : A) (l : list A) : list A :=
    match l with
    | [] => []
    | y :: r => if eqb x y then remove_by x r else y :: remove_by x r
    end.
End Uniq.

Definition mem (x : N) (l : list N) : bool := mem_by N.eqb x l.
Definition uniq (l : list N) : list N := uniq_by N.eqb l.
Definition oeqb (a b : option N) : bool :=
  match a, b with
  | None, None => true
  | Some x, Some y => N.eqb x y
  | _, _ => false
  end.

Fixpoint filter_map {A B} (f : A -> option B) (l : list A) : list B :=
  match l with
  | [] => []
  | x :: r => match f x with Some y => y :: filter_map f r | None => filter_map f r end
  end.

(* ---- specification side: "clockwise from the token" -----------------------------------
   Written independently of the binary search: the ring positions whose token is >= t in ring
   order, followed by the positions whose token is < t. *)
Definition clockwise {A} (l : ring A) (t : Z) : ring A :=
  filter (fun e => t <=? fst e) l ++ filter (fun e => fst e <? t) l.

(* tokens strictly increasing (sorted, no token twice) / weakly increasing *)
Fixpoint sorted_strict {A} (l : ring A) : Prop :=
  match l with
  | [] => True
  | x :: r => match r with [] => True | y :: _ => fst x < fst y end /\ sorted_strict r
  end.
Fixpoint sorted_weak {A} (l : ring A) : Prop :=
  match l with
  | [] => True
  | x :: r => match r with [] => True | y :: _ => fst x <= fst y end /\ sorted_weak r
  end.
Fixpoint sorted_strictb {A} (l : ring A) : bool :=
  match l with
  | [] => true
  | x :: r => match r with [] => true | y :: _ => fst x <? fst y end && sorted_strictb r
  end.
