(* A second, independent formulation of the Murmur3 specification of property C03: Austin
   Appleby's MurmurHash3_x64_128 as published (C++: uint64_t arithmetic, seed 0), with
   Cassandra's one deviation (a tail byte is sign-extended before it is shifted in).  Words are
   integers in [0, 2^64); the loop walks the data block by block (no index arithmetic), the tail
   is a descending loop (no switch).  Not extracted; Proofs/MurmurRef_proofs.v proves it equal,
   for every byte string, to the unsigned reading of the Java-style hash3_x64_128. *)
From SV Require Import Base.Prelude Base.Bytes.
Open Scope Z_scope.

Definition u64 (z : Z) : Z := z mod 2 ^ 64.                     (* uint64_t wrap-around *)
Definition umul (a b : Z) : Z := u64 (a * b).
Definition uadd (a b : Z) : Z := u64 (a + b).
Definition ushl (a k : Z) : Z := u64 (a * 2 ^ k).               (* a << k *)
Definition ushr (a k : Z) : Z := a / 2 ^ k.                     (* a >> k on an unsigned word *)
Definition urotl (x r : Z) : Z := Z.lor (ushl x r) (ushr x (64 - r)).

Definition u_c1 : Z := 0x87c37b91114253d5.
Definition u_c2 : Z := 0x4cf5ad432745937f.

Definition u_fmix (k : Z) : Z :=
  let k := Z.lxor k (ushr k 33) in
  let k := umul k 0xff51afd7ed558ccd in
  let k := Z.lxor k (ushr k 33) in
  let k := umul k 0xc4ceb9fe1a85ec53 in
  Z.lxor k (ushr k 33).

(* little-endian load of a byte string *)
Fixpoint u_le (b : bytes) : Z :=
  match b with
  | [] => 0
  | x :: r => Z.of_N x + 256 * u_le r
  end.

(* one 16-byte block *)
Definition u_mix (h : Z * Z) (k1 k2 : Z) : Z * Z :=
  let '(h1, h2) := h in
  let k1 := umul k1 u_c1 in let k1 := urotl k1 31 in let k1 := umul k1 u_c2 in
  let h1 := Z.lxor h1 k1 in
  let h1 := urotl h1 27 in let h1 := uadd h1 h2 in let h1 := uadd (umul h1 5) 0x52dce729 in
  let k2 := umul k2 u_c2 in let k2 := urotl k2 33 in let k2 := umul k2 u_c1 in
  let h2 := Z.lxor h2 k2 in
  let h2 := urotl h2 31 in let h2 := uadd h2 h1 in let h2 := uadd (umul h2 5) 0x38495ab5 in
  (h1, h2).

(* the first n blocks of the data; returns the state and the unread rest *)
Fixpoint u_blocks (n : nat) (data : bytes) (h : Z * Z) : (Z * Z) * bytes :=
  match n with
  | O => (h, data)
  | S n' =>
      u_blocks n' (skipn 16 data)
               (u_mix h (u64 (u_le (firstn 8 data))) (u64 (u_le (firstn 8 (skipn 8 data)))))
  end.

(* Cassandra: the tail byte goes through a signed Java byte, i.e. (uint64_t)(int8_t)b *)
Definition u_tail_byte (b : N) : Z := if (b <? 128)%N then Z.of_N b else Z.of_N b + (2 ^ 64 - 256).

(* for (i = hi-1; i >= lo; i--) k ^= tail[i] << (8 * (i - lo)) *)
Definition u_tail_word (tail : bytes) (lo hi : nat) : Z :=
  fold_left (fun k i => Z.lxor k (ushl (u_tail_byte (nth i tail 0%N)) (Z.of_nat (8 * (i - lo)))))
            (rev (seq lo (hi - lo))) 0.

Definition u_hash3_x64_128 (data : bytes) : Z * Z :=
  let len := length data in
  let '((h1, h2), tail) := u_blocks (len / 16) data (0, 0) in
  let r := length tail in
  let h2 := if (8 <? r)%nat
            then Z.lxor h2 (umul (urotl (umul (u_tail_word tail 8 r) u_c2) 33) u_c1) else h2 in
  let h1 := if (0 <? r)%nat
            then Z.lxor h1 (umul (urotl (umul (u_tail_word tail 0 (Nat.min 8 r)) u_c1) 31) u_c2) else h1 in
  let h1 := Z.lxor h1 (Z.of_nat len) in
  let h2 := Z.lxor h2 (Z.of_nat len) in
  let h1 := uadd h1 h2 in
  let h2 := uadd h2 h1 in
  let h1 := u_fmix h1 in
  let h2 := u_fmix h2 in
  let h1 := uadd h1 h2 in
  let h2 := uadd h2 h1 in
  (h1, h2).

(* the token: the first word read as a signed 64-bit integer, Long.MIN_VALUE -> Long.MAX_VALUE *)
Definition u_token (data : bytes) : Z :=
  let h1 := fst (u_hash3_x64_128 data) in
  let v := if h1 <? 2 ^ 63 then h1 else h1 - 2 ^ 64 in
  if v =? - 2 ^ 63 then 2 ^ 63 - 1 else v.
