(* Model of ShardAwarePortRange::new (scylla/src/routing/sharding.rs), property C11.
   Executable definitions only; proofs are in Proofs/ShardRange_proofs.v.

       pub fn new(range: impl Into<RangeInclusive<u16>>) -> Result<Self, InvalidShardAwarePortRange> {
           let range = range.into();
           if range.is_empty() || range.start() < &1024 {
               return Err(InvalidShardAwarePortRange);
           }
           Ok(Self(range))
       }

   `lo..=hi` with lo, hi : u16 (here N, both <= 65535).  `RangeInclusive::is_empty` of a range that
   was never iterated is `!(start <= end)`, i.e. end < start.  Ok(Self(range)) keeps both bounds. *)
From SV Require Import Base.Prelude Model.Shard.
Open Scope N_scope.

(* the first port an application may use: ports 0-1023 are reserved *)
Definition first_unreserved_port : N := 1024.

Definition port_range_new (lo hi : N) : option (N * N) :=
  if (hi <? lo) || (lo <? first_unreserved_port) then None else Some (lo, hi).

(* the two public-API paths through the constructor, random index / pivot as oracle arguments:
   ShardAwarePortRange::new(lo..=hi) followed by draw_source_port_for_shard_from_range /
   iter_source_ports_for_shard_from_range.  A refused range produces nothing. *)
Definition draw_port_new (n s lo hi : N) (idx : nat) : option N :=
  match port_range_new lo hi with
  | None => None
  | Some (a, b) => draw_port n s a b idx
  end.
Definition iter_ports_new (n s lo hi : N) (pivot : nat) : list N :=
  match port_range_new lo hi with
  | None => []
  | Some (a, b) => iter_ports n s a b pivot
  end.
