(* Model of the stream-id machinery of scylla/src/network/connection.rs  (property C02).
   Executable definitions only; proofs are in Proofs/Streams_proofs.v.

   Part 1  StreamIdSet            (connection.rs 2442-2471): 512 words of 64 bits, allocate, free
   Part 2  ResponseHandlerMap     (2357-2440) with OrphanageTracker (2317-2355, its key set)
   Part 3  one connection as an interleaving semantics: RouterHandle::send_request (136-175),
           OrphanhoodNotifier (194-223), writer (1714-1768) / alloc_stream_id (1695-1712),
           reader (1629-1693), orphaner (1774-1807), end of router (1609-1627), and the peer.

   Rust types: stream ids are i16 (only 0..32767 occur here), RequestId = u64, bitmap words u64.
   All are N.  A ResponseHandler is (request id, token): the token stands for the oneshot
   sender, i.e. for the caller that waits on the matching receiver. *)
From SV Require Import Base.Prelude.
From Coq Require Import FMapPositive.
Open Scope N_scope.

(* ---------------------------------------------------------------- generic association maps *)
(* HashMap<K, V> with K = N: insertion replaces, removal of an absent key is a no-op.  Only the
   lookup function [aget] is observable (the hook sorts what it reads out of a HashMap). *)
Section AssocMap.
  Context {V : Type}.
  Fixpoint aget (k : N) (m : list (N * V)) : option V :=
    match m with
    | [] => None
    | (k', v) :: r => if k' =? k then Some v else aget k r
    end.
  Fixpoint arem (k : N) (m : list (N * V)) : list (N * V) :=
    match m with
    | [] => []
    | (k', v) :: r => if k' =? k then arem k r else (k', v) :: arem k r
    end.
  Definition aput (k : N) (v : V) (m : list (N * V)) : list (N * V) := (k, v) :: arem k m.
End AssocMap.

(* The two HashMaps of ResponseHandlerMap (handlers, request_to_stream) are finite maps with the
   same interface, represented as the standard library's binary tries (FMapPositive) so that
   the extracted model can run the full 32768-id sequences; key k is stored at N.succ_pos k.
   Again only [mget] is observable. *)
Definition nmap (V : Type) : Type := PositiveMap.t V.
Definition mkey (k : N) : positive := N.succ_pos k.
Definition mempty {V : Type} : nmap V := PositiveMap.empty V.
Definition mget {V : Type} (k : N) (m : nmap V) : option V := PositiveMap.find (mkey k) m.
Definition mput {V : Type} (k : N) (v : V) (m : nmap V) : nmap V := PositiveMap.add (mkey k) v m.
Definition mrem {V : Type} (k : N) (m : nmap V) : nmap V := PositiveMap.remove (mkey k) m.
Definition melements {V : Type} (m : nmap V) : list (N * V) :=
  map (fun e => (Pos.pred_N (fst e), snd e)) (PositiveMap.elements m).

(* HashMap<i16, Instant> key set of the OrphanageTracker *)
Definition smem (x : N) (l : list N) : bool := existsb (N.eqb x) l.
Definition sadd (x : N) (l : list N) : list N := if smem x l then l else x :: l.
Definition srem (x : N) (l : list N) : list N := filter (fun y => negb (y =? x)) l.

(* ---------------------------------------------------------------- Part 1: StreamIdSet *)

Definition nwords : nat := 512.               (* (i16::MAX as usize + 1) / 64 *)
Definition nids : N := 32768.
Definition word_full : N := 2 ^ 64 - 1.       (* !0u64 *)

(* u64::trailing_ones: number of consecutive one bits starting at bit 0 *)
Fixpoint trailing_ones_fuel (fuel : nat) (w : N) : N :=
  match fuel with
  | O => 0
  | S k => if N.odd w then 1 + trailing_ones_fuel k (N.div2 w) else 0
  end.
Definition trailing_ones (w : N) : N := trailing_ones_fuel 64 w.

(* StreamIdSet::new *)
Definition sid_new : list N := repeat 0 nwords.

(* StreamIdSet::allocate: first block that is not !0; off = trailing_ones; block |= 1 << off;
   id = off as i16 + block_id as i16 * 64 (at most 63 + 511*64 = 32767: no i16 overflow, proved
   as part of C02_bitmap_alloc). *)
Fixpoint alloc_from (block_id : N) (ws : list N) : option (N * list N) :=
  match ws with
  | [] => None
  | w :: r =>
      if negb (w =? word_full) then
        let off := trailing_ones w in
        Some (off + block_id * 64, N.lor w (N.shiftl 1 off) :: r)
      else
        match alloc_from (block_id + 1) r with
        | Some (sid, r') => Some (sid, w :: r')
        | None => None
        end
  end.
Definition sid_alloc (ws : list N) : option (N * list N) := alloc_from 0 ws.

Fixpoint update_nth (n : nat) (f : N -> N) (l : list N) : list N :=
  match l, n with
  | [], _ => []            (* Rust: index out of bounds panics; unreachable for an i16 >= 0 *)
  | x :: r, O => f x :: r
  | x :: r, S k => x :: update_nth k f r
  end.

(* StreamIdSet::free: used_bitmap[id / 64] &= !(1 << (id % 64)) *)
Definition sid_free (ws : list N) (sid : N) : list N :=
  update_nth (N.to_nat (sid / 64))
             (fun w => N.land w (N.lxor word_full (N.shiftl 1 (sid mod 64)))) ws.

(* abstraction: is the id reserved? *)
Definition used (ws : list N) (sid : N) : bool :=
  N.testbit (nth (N.to_nat (sid / 64)) ws 0) (sid mod 64).

Definition wf_words (ws : list N) : Prop :=
  List.length ws = nwords /\ Forall (fun w => w < 2 ^ 64) ws.

(* ---------------------------------------------------------------- Part 2: ResponseHandlerMap *)

Record hmap := mk_hmap {
  hm_words : list N;                        (* stream_set.used_bitmap *)
  hm_handlers : nmap (N * N);               (* handlers: stream id -> (request id, token) *)
  hm_r2s : nmap N;                          (* request_to_stream *)
  hm_orphans : list N                       (* orphanage_tracker.orphans (keys) *)
}.

Definition hm_new : hmap := mk_hmap sid_new mempty mempty [].

Inductive alloc_res := AllocOk (sid : N) | AllocFull | AllocPanic.

(* ResponseHandlerMap::allocate.  [AllocPanic] is the branch `assert!(prev_handler.is_none())`
   failing; C02_no_panic shows it is never taken on a connection. *)
Definition hm_allocate (m : hmap) (rid tok : N) : hmap * alloc_res :=
  match sid_alloc (hm_words m) with
  | Some (sid, ws') =>
      let m' := mk_hmap ws' (mput sid (rid, tok) (hm_handlers m)) (mput rid sid (hm_r2s m))
                        (hm_orphans m) in
      match mget sid (hm_handlers m) with
      | None => (m', AllocOk sid)
      | Some _ => (m', AllocPanic)
      end
  | None => (m, AllocFull)
  end.

(* ResponseHandlerMap::orphan *)
Definition hm_orphan (m : hmap) (rid : N) : hmap :=
  match mget rid (hm_r2s m) with
  | Some sid =>
      mk_hmap (hm_words m) (mrem sid (hm_handlers m)) (mrem rid (hm_r2s m))
              (sadd sid (hm_orphans m))
  | None => m
  end.

Inductive lookup_res := LOrphaned | LHandler (rid tok : N) | LMissing.

(* ResponseHandlerMap::lookup: the bit is cleared first, in all three cases *)
Definition hm_lookup (m : hmap) (sid : N) : hmap * lookup_res :=
  let ws := sid_free (hm_words m) sid in
  if smem sid (hm_orphans m) then
    (mk_hmap ws (hm_handlers m) (hm_r2s m) (srem sid (hm_orphans m)), LOrphaned)
  else
    match mget sid (hm_handlers m) with
    | Some (rid, tok) =>
        (mk_hmap ws (mrem sid (hm_handlers m)) (mrem rid (hm_r2s m)) (hm_orphans m),
         LHandler rid tok)
    | None => (mk_hmap ws (hm_handlers m) (hm_r2s m) (hm_orphans m), LMissing)
    end.

(* ResponseHandlerMap::into_handlers *)
Definition hm_into_handlers (m : hmap) : list (N * (N * N)) := melements (hm_handlers m).

(* is the sender standing for [tok] still held by the map? (hook: is_pending) *)
Definition hm_holds (m : hmap) (tok : N) : bool :=
  existsb (fun e => snd (snd e) =? tok) (melements (hm_handlers m)).

(* operation sequences for the state-machine tie *)
Inductive op :=
| OpAlloc (rid tok : N) | OpOrphan (rid : N) | OpLookup (sid : N) | OpProbe (tok : N).
Inductive op_res :=
| RAlloc (r : alloc_res) (tok : N) | RUnit | RLookup (r : lookup_res) | RProbe (b : bool).

Definition hm_step (m : hmap) (o : op) : hmap * op_res :=
  match o with
  | OpAlloc rid tok => let '(m', r) := hm_allocate m rid tok in (m', RAlloc r tok)
  | OpOrphan rid => (hm_orphan m rid, RUnit)
  | OpLookup sid => let '(m', r) := hm_lookup m sid in (m', RLookup r)
  | OpProbe tok => (m, RProbe (hm_holds m tok))
  end.

Fixpoint hm_run (m : hmap) (ops : list op) : hmap * list op_res :=
  match ops with
  | [] => (m, [])
  | o :: r => let '(m1, x) := hm_step m o in
              let '(m2, xs) := hm_run m1 r in (m2, x :: xs)
  end.

(* ---------------------------------------------------------------- Part 3: one connection *)

(* what a caller finds in its oneshot receiver *)
Inductive outcome :=
| Resp (answers : N)      (* a response frame; [answers] = ghost: the request id of the request
                             the peer produced this frame for *)
| ErrAlloc                (* InternalRequestError::UnableToAllocStreamId *)
| ErrBroken.              (* the connection broke (router sent the error / channel closed) *)

Record conn := mk_conn {
  c_hm : hmap;                    (* handler_map (behind the StdMutex) *)
  c_next_rid : N;                 (* request_id_generator *)
  c_queue : list N;               (* submit_channel: request ids of queued tasks, FIFO; the
                                     task's handler is (rid, rid): token = request id *)
  c_notices : list N;             (* orphan_notification channel, FIFO *)
  c_writing : list (N * N);       (* ghost: (stream id, request id) written by the writer, not yet
                                     received by the peer (BufWriter, socket), FIFO *)
  c_owed : list (N * N);          (* ghost: received by the peer, not yet answered *)
  c_inflight : list (N * N);      (* ghost: answered by the peer, not yet read by the reader, FIFO:
                                     (stream id of the frame, request id it answers) *)
  c_mailbox : list (N * outcome); (* what was sent into the oneshot of token t *)
  c_completed : list (N * outcome); (* callers whose send_request returned *)
  c_cancelled : list N;           (* callers that dropped their send_request future *)
  c_broken : bool
}.

Definition conn_init : conn := mk_conn hm_new 0 [] [] [] [] [] [] [] [] false.

(* ids reserved on the peer's side of the story: written and not yet read back *)
Definition pending (s : conn) : list (N * N) := c_writing s ++ c_owed s ++ c_inflight s.

Inductive label :=
| Submit           (* a caller enters send_request: fresh request id, task enqueued *)
| SubmitDropped    (* ... and is dropped while waiting for channel capacity: no task, one notice *)
| WriterTake       (* writer: recv/try_recv one task, alloc_stream_id, write_all *)
| PeerRecv         (* the oldest written frame reaches the peer *)
| PeerAnswer (sid : N)  (* the peer answers one request it received, in any order *)
| ReaderDeliver    (* reader: one frame read, lookup, send to the handler *)
| Cancel (rid : N) (* a waiting caller drops its future: OrphanhoodNotifier::drop *)
| OrphanerTake     (* orphaner: one notice received, orphan *)
| Complete (rid : N) (* a caller's receiver yields; notifier disabled; send_request returns *)
| Break.           (* any I/O error, keepalive timeout or orphan threshold: router ends *)

(* remove the first entry with stream id [sid] *)
Fixpoint extract (sid : N) (l : list (N * N)) : option (N * list (N * N)) :=
  match l with
  | [] => None
  | (s, r) :: t =>
      if s =? sid then Some (r, t)
      else match extract sid t with
           | Some (r', t') => Some (r', (s, r) :: t')
           | None => None
           end
  end.

Definition is_waiting (s : conn) (rid : N) : bool :=
  (rid <? c_next_rid s) && negb (smem rid (c_cancelled s)) &&
  match aget rid (c_completed s) with None => true | Some _ => false end.

Definition set_hm (s : conn) (m : hmap) : conn :=
  mk_conn m (c_next_rid s) (c_queue s) (c_notices s) (c_writing s) (c_owed s) (c_inflight s)
          (c_mailbox s) (c_completed s) (c_cancelled s) (c_broken s).

Definition step (s : conn) (l : label) : option conn :=
  match l with
  | Complete rid =>
      if is_waiting s rid then
        match aget rid (c_mailbox s) with
        | Some o =>
            Some (mk_conn (c_hm s) (c_next_rid s) (c_queue s) (c_notices s) (c_writing s)
                          (c_owed s) (c_inflight s) (c_mailbox s)
                          ((rid, o) :: c_completed s) (c_cancelled s) (c_broken s))
        | None =>
            if c_broken s then
              Some (mk_conn (c_hm s) (c_next_rid s) (c_queue s) (c_notices s) (c_writing s)
                            (c_owed s) (c_inflight s) (c_mailbox s)
                            ((rid, ErrBroken) :: c_completed s) (c_cancelled s) (c_broken s))
            else None
        end
      else None
  | Cancel rid =>
      if is_waiting s rid then
        Some (mk_conn (c_hm s) (c_next_rid s) (c_queue s) (c_notices s ++ [rid]) (c_writing s)
                      (c_owed s) (c_inflight s) (c_mailbox s) (c_completed s)
                      (rid :: c_cancelled s) (c_broken s))
      else None
  | _ =>
    if c_broken s then None else
    match l with
    | Submit =>
        let rid := c_next_rid s in
        Some (mk_conn (c_hm s) (rid + 1) (c_queue s ++ [rid]) (c_notices s) (c_writing s)
                      (c_owed s) (c_inflight s) (c_mailbox s) (c_completed s) (c_cancelled s)
                      false)
    | SubmitDropped =>
        let rid := c_next_rid s in
        Some (mk_conn (c_hm s) (rid + 1) (c_queue s) (c_notices s ++ [rid]) (c_writing s)
                      (c_owed s) (c_inflight s) (c_mailbox s) (c_completed s)
                      (rid :: c_cancelled s) false)
    | WriterTake =>
        match c_queue s with
        | [] => None
        | rid :: q =>
            match hm_allocate (c_hm s) rid rid with
            | (m', AllocOk sid) =>
                Some (mk_conn m' (c_next_rid s) q (c_notices s) (c_writing s ++ [(sid, rid)])
                              (c_owed s) (c_inflight s) (c_mailbox s) (c_completed s)
                              (c_cancelled s) false)
            | (_, AllocFull) =>
                (* the handler comes back; it is sent UnableToAllocStreamId; the batch ends *)
                Some (mk_conn (c_hm s) (c_next_rid s) q (c_notices s) (c_writing s) (c_owed s)
                              (c_inflight s) ((rid, ErrAlloc) :: c_mailbox s) (c_completed s)
                              (c_cancelled s) false)
            | (_, AllocPanic) =>
                (* the router task panics: the connection is gone *)
                Some (mk_conn (c_hm s) (c_next_rid s) q (c_notices s) (c_writing s) (c_owed s)
                              (c_inflight s) (c_mailbox s) (c_completed s) (c_cancelled s) true)
            end
        end
    | PeerRecv =>
        match c_writing s with
        | [] => None
        | e :: w =>
            Some (mk_conn (c_hm s) (c_next_rid s) (c_queue s) (c_notices s) w (c_owed s ++ [e])
                          (c_inflight s) (c_mailbox s) (c_completed s) (c_cancelled s) false)
        end
    | PeerAnswer sid =>
        match extract sid (c_owed s) with
        | Some (rid, owed') =>
            Some (mk_conn (c_hm s) (c_next_rid s) (c_queue s) (c_notices s) (c_writing s) owed'
                          (c_inflight s ++ [(sid, rid)]) (c_mailbox s) (c_completed s)
                          (c_cancelled s) false)
        | None => None
        end
    | ReaderDeliver =>
        match c_inflight s with
        | [] => None
        | (sid, ans) :: fl =>
            match hm_lookup (c_hm s) sid with
            | (m', LHandler _ tok) =>
                Some (mk_conn m' (c_next_rid s) (c_queue s) (c_notices s) (c_writing s)
                              (c_owed s) fl ((tok, Resp ans) :: c_mailbox s) (c_completed s)
                              (c_cancelled s) false)
            | (m', LOrphaned) =>
                Some (mk_conn m' (c_next_rid s) (c_queue s) (c_notices s) (c_writing s)
                              (c_owed s) fl (c_mailbox s) (c_completed s) (c_cancelled s) false)
            | (m', LMissing) =>
                (* UnexpectedStreamId: the reader returns an error, the router ends *)
                Some (mk_conn m' (c_next_rid s) (c_queue s) (c_notices s) (c_writing s)
                              (c_owed s) fl (c_mailbox s) (c_completed s) (c_cancelled s) true)
            end
        end
    | OrphanerTake =>
        match c_notices s with
        | [] => None
        | rid :: ns =>
            Some (mk_conn (hm_orphan (c_hm s) rid) (c_next_rid s) (c_queue s) ns (c_writing s)
                          (c_owed s) (c_inflight s) (c_mailbox s) (c_completed s)
                          (c_cancelled s) false)
        end
    | Break =>
        Some (mk_conn (c_hm s) (c_next_rid s) (c_queue s) (c_notices s) (c_writing s) (c_owed s)
                      (c_inflight s) (c_mailbox s) (c_completed s) (c_cancelled s) true)
    | Complete _ | Cancel _ => None
    end
  end.

Fixpoint run (s : conn) (ls : list label) : option conn :=
  match ls with
  | [] => Some s
  | l :: r => match step s l with Some s' => run s' r | None => None end
  end.

Definition reachable (s : conn) : Prop := exists ls, run conn_init ls = Some s.

(* ---------------------------------------------------------------- specification for the tie *)
(* The property, stated on an observed operation sequence of the handler map alone (written from
   the property text, not from the code).  The checker keeps the list of outstanding ids: id ->
   (request id, token, abandoned?).  It is meaningful when request ids and tokens are not
   duplicated ([sm_applicable]); the driver evaluates it on the IMPLEMENTATION's results when
   they differ from the model's.
   - an allocated id is below 32768 and is not outstanding (no reuse before the answer);
   - allocation fails only when all 32768 ids are outstanding, and gives the same handler back;
   - a lookup (an answer arriving on that id) yields exactly the handler that was allocated with
     that id, or "orphaned" when that request was abandoned, or "missing" when the id is not
     outstanding; afterwards the id is no longer outstanding. *)
Definition spec_state := list (N * (N * (N * bool))).

Definition mark_orphan (rid : N) (st : spec_state) : spec_state :=
  map (fun e => let '(sid, (r, (t, o))) := e in if r =? rid then (sid, (r, (t, true))) else e) st.

Definition sm_check_step (st : spec_state) (o : op) (r : op_res) : option spec_state :=
  match o, r with
  | OpAlloc rid tok, RAlloc (AllocOk sid) _ =>
      if (sid <? nids) && match aget sid st with None => true | Some _ => false end
      then Some (aput sid (rid, (tok, false)) st) else None
  | OpAlloc rid tok, RAlloc AllocFull t =>
      if (t =? tok) && (N.of_nat (List.length st) =? nids) then Some st else None
  | OpOrphan rid, RUnit => Some (mark_orphan rid st)
  | OpLookup sid, RLookup res =>
      match aget sid st, res with
      | Some (rid, (tok, false)), LHandler rid' tok' =>
          if (rid =? rid') && (tok =? tok') then Some (arem sid st) else None
      | Some (_, (_, true)), LOrphaned => Some (arem sid st)
      | None, LMissing => Some st
      | _, _ => None
      end
  | OpProbe tok, RProbe b =>
      if Bool.eqb b (existsb (fun e => (fst (snd (snd e)) =? tok) && negb (snd (snd (snd e)))) st)
      then Some st else None
  | _, _ => None
  end.

Fixpoint sm_check_from (st : spec_state) (ops : list op) (rs : list op_res) : bool :=
  match ops, rs with
  | [], [] => true
  | o :: ops', r :: rs' =>
      match sm_check_step st o r with
      | Some st' => sm_check_from st' ops' rs'
      | None => false
      end
  | _, _ => false
  end.
Definition sm_check (ops : list op) (rs : list op_res) : bool := sm_check_from [] ops rs.

Fixpoint nodupb (l : list N) : bool :=
  match l with [] => true | x :: r => negb (smem x r) && nodupb r end.
Definition alloc_rids (ops : list op) : list N :=
  flat_map (fun o => match o with OpAlloc rid _ => [rid] | _ => [] end) ops.
Definition alloc_toks (ops : list op) : list N :=
  flat_map (fun o => match o with OpAlloc _ tok => [tok] | _ => [] end) ops.
Definition sm_applicable (ops : list op) : bool :=
  nodupb (alloc_rids ops) && nodupb (alloc_toks ops).

(* the reader calls lookup only with a non-negative i16 *)
Definition op_in_range (o : op) : Prop :=
  match o with OpLookup sid => sid < nids | _ => True end.
