(* Byte-level model of RawTablet::from_custom_payload (tablets.rs l.66-121): the value of the
   custom-payload key "tablets-routing-v1" is decoded as the CQL value
       tuple<bigint, bigint, list<tuple<uuid, int>>>
   WITHOUT its outer [bytes] length, through the TYPED deserialisers
   `<(i64, i64, ListlikeIterator<(Uuid, i32)>) as DeserializeValue>::deserialize`
   (scylla-cql-core/src/deserialize/value.rs: impl_tuple, impl_fixed_numeric_type, Uuid,
   ListlikeIterator, FixedLengthBytesSequenceIterator), in the order the code runs:
     1. the three tuple fields (a field is NULL when no bytes are left; the list of a null /
        absent field is empty; trailing bytes after the third field are ignored; the list's
        element count is read here, its elements are NOT),
     2. `last <= first` -> WrongTokenRange,
     3. the lazy iteration over the replicas, collected into a Result: per element a [bytes]
        read, the (uuid, int) tuple, then `shard.try_into::<u32>()`; the first failure of any of
        them ends it (Deserialization or ShardNum, whichever element fails first).
   The type check against the static RAW_TABLETS_CQL_TYPE always succeeds (it is the type the
   tuple impl expects), so TabletParsingError::TypeCheck is unreachable.
   The primitives read_int / read_cql_bytes / read_count / exact_len and the error kinds are
   those of Model/Cql.v (C01/C17); this file does NOT use Cql.deser_value, which is the untyped
   CqlValue decoder (it turns empty cells into CqlValue::Empty, the typed i64/uuid/int do not). *)
From SV Require Import Base.Prelude Base.Bytes Model.Cql Model.Tablets.
Open Scope Z_scope.

(* outcome of from_custom_payload when the key is present *)
Inductive pres :=
| P_Ok (first last : Z) (reps : list raw_replica)   (* RawTablet { first_token, last_token, replicas } *)
| P_Deser (e : de_err)                             (* TabletParsingError::Deserialization; e = leaf kind *)
| P_WrongTokenRange
| P_ShardNum.

(* one element of a tuple value (impl_tuple): no bytes left -> null, else FrameSlice::read_cql_bytes *)
Definition tuple_field (b : bytes) : dres (option bytes * bytes) :=
  match b with
  | [] => Ok (None, [])
  | _ => match read_cql_bytes b with
         | None => Err DE_RawCqlBytesRead
         | Some (ob, r) => Ok (ob, r)
         end
  end.

(* impl_fixed_numeric_type!(i64 / i32): ensure_not_null_slice, ensure_exact_length, from_be_bytes *)
Definition typed_int (k : nat) (ob : option bytes) : dres Z :=
  match ob with
  | None => Err DE_ExpectedNonNull
  | Some s => exact_len k s (fun s => Ok (dec_signed s))
  end.

(* Uuid: 16 bytes, u128::from_be_bytes *)
Definition typed_uuid (ob : option bytes) : dres N :=
  match ob with
  | None => Err DE_ExpectedNonNull
  | Some s => exact_len 16 s (fun s => Ok (be_dec s))
  end.

(* ListlikeIterator::deserialize: a null cell is the empty iterator; otherwise the count
   (types::read_int_length: negative -> error) and the remaining bytes *)
Definition list_open (ob : option bytes) : dres (N * bytes) :=
  match ob with
  | None => Ok (0%N, [])
  | Some s => read_count s
  end.

(* <(Uuid, i32)>::deserialize on one raw item of the list *)
Definition replica_item (ob : option bytes) : dres (N * Z) :=
  match ob with
  | None => Err DE_ExpectedNonNull                 (* ensure_not_null_frame_slice of the tuple *)
  | Some s =>
    rbind (tuple_field s) (fun f1 =>
    rbind (typed_uuid (fst f1)) (fun u =>
    rbind (tuple_field (snd f1)) (fun f2 =>
    rbind (typed_int 4 (fst f2)) (fun sh => Ok (u, sh)))))
  end.

Inductive ires := I_Ok (r : list raw_replica) | I_Deser (e : de_err) | I_ShardNum.

(* FixedLengthBytesSequenceIterator::next x ListlikeIterator::next x the shard conversion,
   collected; [n] comes from the wire (up to 2^31-1), so the loop runs on fuel (1 + number of
   remaining bytes; every successful read consumes at least 4 bytes: parse_items_fuel) *)
Fixpoint parse_items (fuel : nat) (n : N) (b : bytes) : ires :=
  if (n =? 0)%N then I_Ok [] else
  match fuel with
  | O => I_Deser DE_OutOfFuel
  | S fuel' =>
    match read_cql_bytes b with
    | None => I_Deser DE_RawCqlBytesRead
    | Some (ob, r) =>
      match replica_item ob with
      | Err e => I_Deser e
      | Ok (u, sh) =>
        if sh <? 0 then I_ShardNum
        else match parse_items fuel' (n - 1)%N r with
             | I_Ok rest => I_Ok ((u, Z.to_N sh) :: rest)
             | other => other
             end
      end
    end
  end.

(* the header: first bound, second bound, (count, bytes of the elements) *)
Definition parse_header (b : bytes) : dres (Z * Z * (N * bytes)) :=
  rbind (tuple_field b) (fun f1 =>
  rbind (typed_int 8 (fst f1)) (fun a =>
  rbind (tuple_field (snd f1)) (fun f2 =>
  rbind (typed_int 8 (fst f2)) (fun bb =>
  rbind (tuple_field (snd f2)) (fun f3 =>
  rbind (list_open (fst f3)) (fun cnt => Ok (a, bb, cnt))))))).

Definition parse_payload (b : bytes) : pres :=
  match parse_header b with
  | Err e => P_Deser e
  | Ok (a, bb, (n, items)) =>
    if bb <=? a then P_WrongTokenRange
    else match parse_items (S (List.length items)) n items with
         | I_Deser e => P_Deser e
         | I_ShardNum => P_ShardNum
         | I_Ok reps => P_Ok (token_new (wrap64 (a + 1))) (token_new bb) reps
         end
  end.

(* a payload received for table k, as bytes: from_custom_payload, then ClusterState::update_tablets *)
Definition step_bytes (s : info) (k : tkey) (b : bytes) (known : list node) : option info :=
  match parse_payload b with
  | P_Ok first last r => info_add s k (from_raw_tablet first last r known)
  | _ => Some s
  end.

(* the value-level event a byte payload amounts to: an accepted payload is the Learn of its
   decoded content, a refused one is a refused Learn (C15_bytes_as_learn) *)
Definition learn_of_bytes (k : tkey) (b : bytes) (known : list node) : op :=
  match parse_payload b with
  | P_Ok first last r => Learn k (first - 1) last (map (fun hs => (fst hs, Z.of_N (snd hs))) r) known
  | _ => Learn k 0 0 [] known
  end.

(* what ScyllaDB sends: the encoder the harness uses, for the round trip *)
Definition enc_replica (hs : N * Z) : bytes :=
  framed (framed (be_enc 16 (fst hs)) ++ framed (enc_signed 4 (snd hs))).
Definition enc_payload (a b : Z) (raw : list (N * Z)) : bytes :=
  framed (enc_signed 8 a) ++ framed (enc_signed 8 b) ++
  framed (be32 (N.of_nat (List.length raw)) ++ flat_map enc_replica raw).
