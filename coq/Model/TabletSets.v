(* Model of the tablet-backed ReplicaSet of scylla/src/routing/locator/mod.rs (property C04):
   `ReplicaLocator::replicas_for_token` on a table that has tablets returns
   `ReplicaSetInner::PlainSharded(&[(Arc<Node>, Shard)])` — the tablet's replica list (restricted
   to a datacenter: its per-datacenter list), or the empty slice when no tablet owns the token.
   The tablet map itself is C15's model (Model/Tablets.v).  Executable definitions only. *)
From SV Require Import Base.Prelude Model.Tablets.
Open Scope Z_scope.

Definition tset := list replica.
Definition ts_of (o : option (list replica)) : tset := match o with Some l => l | None => [] end.

(* replicas_for_token, tablets branch *)
Definition ts_for (l : list tablet) (tok : Z) (dc : option N) : tset :=
  ts_of (match dc with
         | Some d => dc_replicas_for_token l tok d
         | None => replicas_for_token l tok
         end).

(* the views: (host id, shard) pairs — the shard is the tablet's, not a computed one *)
Definition ts_len (s : tset) : nat := List.length s.
Definition ts_iter (s : tset) : list (N * N) := map (fun r => (host (fst r), snd r)) s.
Definition ts_nth (s : tset) (k : nat) : option (N * N) :=
  if (List.length s <=? k)%nat then None else nth_error (ts_iter s) k.
Definition ts_choose (s : tset) (index : nat) : option (N * N) :=
  if (List.length s =? 0)%nat then None else nth_error (ts_iter s) index.
Definition ts_ordered (s : tset) : list (N * N) := ts_iter s.      (* AlreadyRingOrdered *)

(* ReplicaSetIteratorInner::PlainSharded { replicas, idx }: next, nth, size_hint *)
Inductive top := TNext | TNth (k : nat).
Definition ts_next (s : tset) (idx : nat) : option (N * N) * nat :=
  match nth_error (ts_iter s) idx with
  | Some x => (Some x, S idx)
  | None => (None, idx)
  end.
Definition ts_nth_op (s : tset) (n idx : nat) : option (N * N) * nat :=
  let idx' := (idx + n)%nat in
  if (List.length s <=? idx')%nat then (None, List.length s) else ts_next s idx'.
Definition ts_size_hint (s : tset) (idx : nat) : nat * nat := ((List.length s - idx)%nat, (List.length s - idx)%nat).
Fixpoint ts_run (s : tset) (ops : list top) (idx : nat) : list (option (N * N) * (nat * nat)) :=
  match ops with
  | [] => []
  | op :: r => let (o, idx') := match op with TNext => ts_next s idx | TNth k => ts_nth_op s k idx end in
               (o, ts_size_hint s idx') :: ts_run s r idx'
  end.

(* what the operations mean on the iterated sequence *)
Fixpoint plist_run {A} (ops : list top) (l : list A) : list (option A * (nat * nat)) :=
  match ops with
  | [] => []
  | TNext :: r => (hd_error l, (List.length (tl l), List.length (tl l))) :: plist_run r (tl l)
  | TNth k :: r => (nth_error l k, (List.length (skipn (S k) l), List.length (skipn (S k) l))) :: plist_run r (skipn (S k) l)
  end.
