(* The documentation's rules for the enforce_order flavor of derive(SerializeValue) /
   derive(DeserializeValue) with names checked, written as an inductive relation - one constructor per
   documented sentence (scylla-macros/src/lib.rs) - independently of the tables of Model/Derive.v
   (no search over sub-sequences, no "longest selection", no class predicate).  Specification only:
   nothing here is extracted. *)
From SV Require Import Base.Prelude Base.Bytes Model.Derive.
From Coq Require Import Ascii String.
Open Scope N_scope.

(* [ord_bind fs db used p rest]: the declared (non-skipped) fields [fs] are laid over the UDT's field
   list [db]; [used] are the fields that are bound, [p] the UDT fields they are bound to (in order),
   [rest] the UDT fields after the last declared field. *)
Inductive ord_bind : list vfield -> list dbfield -> list vfield -> list dbfield -> list dbfield -> Prop :=
(* no declared field is left: whatever follows in the UDT is excess *)
| ob_done : forall rest, ord_bind [] rest [] [] rest
(* "enforce_order: the fields in the Rust struct [are] in the same order as the fields in the UDT":
   the next declared field is the next UDT field, by name *)
| ob_field : forall f fs ty db used p rest,
    ord_bind fs db used p rest ->
    ord_bind (f :: fs) ((vf_name f, ty) :: db) (f :: used) ((vf_name f, ty) :: p) rest
(* "allow_missing: if the UDT definition does not contain this field [it is ignored on serialization /
   initialized with Default::default()]": only then may a declared field be passed over *)
| ob_missing : forall f fs db used p rest,
    vf_am f = true -> ~ In (vf_name f) (map fst db) ->
    ord_bind fs db used p rest ->
    ord_bind (f :: fs) db used p rest.

(* "forbid_excess_udt_fields: forces Rust struct to have all the fields present in UDT"; by default
   "excess UDT fields in the suffix of the UDT definition" are ignored *)
Definition excess_ok (forbid : bool) (rest : list dbfield) : Prop := forbid = true -> rest = [].

(* the documented type check: a binding exists, excess fields are tolerated or not, and every bound
   field's own type check accepts the UDT field's type *)
Definition doc_rel_typeck_ordered (d : vdesc) (db : list dbfield) : Prop :=
  exists used p rest,
    ord_bind (nonskipped (vd_fields d)) db used p rest /\ excess_ok (vd_forbid d) rest /\
    Forall2 (fun f c => accepts (vf_ty f) (snd c) = true) used p.

(* the documented serialization: the bound fields' own serializations, in the UDT's order *)
Definition doc_rel_ser_ordered (d : vdesc) (db : list dbfield) (cells : list cell) : Prop :=
  exists used p rest,
    ord_bind (nonskipped (vd_fields d)) db used p rest /\ excess_ok (vd_forbid d) rest /\
    Forall2 (fun fc cl => ser_field (vf_ty (fst fc)) (vf_val (fst fc)) (snd (snd fc)) = Some cl)
            (combine used p) cells.
