(* Model of the GLUE between the pieces of token-aware routing (property C12):
     scylla/src/client/session.rs            Session::execute (routing info from the prepared
                                             statement + token), Session::run_request
     scylla/src/policies/load_balancing/     DefaultPolicy::{pick, fallback} over an arbitrary
       default.rs, plan.rs                   ReplicaSet (ring based OR tablet based), Plan
     scylla/src/routing/locator/mod.rs       ReplicaLocator::replicas_for_token (tablets take
                                             precedence over the ring), with_computed_shard
     scylla/src/client/execution.rs          NodeAttemptTarget::get_connection, the target loop
     scylla/src/cluster/node.rs              Node::{sharder, connection_for_shard, is_connected}
     scylla/src/network/connection_pool.rs   NodeConnectionPool::{connection_for_shard,
                                             connection_for_shard_helper, sharder, is_connected},
                                             PoolRefiller::{handle_ready_connection, maybe_reshard,
                                             remove_connection, update_shared_conns}
   It IMPORTS the models of the pieces and composes them:
     Model/PartKey.v + Murmur.v (C03)  token of the bound key,
     Model/Ring.v + Replicas.v (C04)   replica sets of ring tables,
     Model/Plan.v (C05)                the node groups of pick()/fallback(), de-duplication, Plan,
     Model/Shard.v (C11)               shard_of,
     Model/Tablets.v (C15)             tablet lookup.
   Executable definitions only; proofs are in Proofs/Route_proofs.v.

   Randomness = oracles, as in Plan.v:  [cho site len]  an index drawn from 0..len,
   [shufp site l]  a shuffle of a list of (node, shard) replicas. *)
From SV Require Import Base.Prelude Base.Bytes Model.Ring Model.Replicas Model.Plan Model.Shard.
From SV Require Model.Murmur Model.PartKey Model.Tablets.
Open Scope Z_scope.

(* ====================================================================================== *)
(* 1. connection pools                                                                     *)
(* ====================================================================================== *)

(* a connection: its identity (Arc::ptr_eq) and the ShardInfo parsed from the SUPPORTED frame of
   that connection: (SCYLLA_SHARD, SCYLLA_NR_SHARDS, SCYLLA_SHARDING_IGNORE_MSB) *)
Record conn := mkConn { cid : N; cinfo : option (N * N * N) }.

(* `shard_info.map_or(0, |s| s.shard)` : the shard the SERVER reported for this connection *)
Definition conn_shard (c : conn) : N :=
  match cinfo c with Some (s, _, _) => s | None => 0%N end.
(* `shard_info.map(|s| s.get_sharder())` : Sharder { nr_shards, msb_ignore } *)
Definition conn_sharder (c : conn) : option (N * N) :=
  match cinfo c with Some (_, nr, msb) => Some (nr, msb) | None => None end.

(* MaybePoolConnections as a request sees it (ArcSwap::load) *)
Inductive pool_view :=
| PoolDown                                          (* Initializing | Broken: with_connections = Err *)
| PoolNotSharded (conns : list conn)                (* Ready(NotSharded) *)
| PoolSharded (nr msb : N) (slots : list (list conn)).   (* Ready(Sharded { sharder, connections }) *)

(* NodeConnectionPool::is_connected *)
Definition pool_connected (p : pool_view) : bool :=
  match p with PoolDown => false | _ => true end.
(* NodeConnectionPool::sharder *)
Definition pool_sharder (p : pool_view) : option (N * N) :=
  match p with PoolSharded nr msb _ => Some (nr, msb) | _ => None end.
Definition pool_conns (p : pool_view) : list conn :=
  match p with
  | PoolDown => []
  | PoolNotSharded conns => conns
  | PoolSharded _ _ slots => concat slots
  end.

Section PoolChoice.
  Variable cho : nat -> nat -> nat.

  (* choose_random_connection_from_slice *)
  Definition choose_conn (site : nat) (v : list conn) : option conn :=
    match v with
    | [] => None
    | [c] => Some c
    | _ => nth_error v (cho site (List.length v))
    end.

  (* Vec::swap_remove *)
  Definition swap_remove {A} (i : nat) (l : list A) : list A :=
    match rev l with
    | [] => []
    | lst :: r => let body := rev r in
                  if (i =? List.length body)%nat then body
                  else firstn i body ++ lst :: skipn (S i) body
    end.

  (* the `while !shards_to_try.is_empty()` loop of connection_for_shard_helper *)
  Fixpoint try_shards (fuel site : nat) (to_try : list N) (slots : list (list conn)) : option conn :=
    match fuel with
    | O => None
    | S f =>
        match to_try with
        | [] => None                          (* unreachable!("... supposedly non-empty pool") *)
        | _ =>
            let idx := cho site (List.length to_try) in
            let shard := nth idx to_try 0%N in
            match choose_conn (S site) (nth (N.to_nat shard) slots []) with
            | Some c => Some c
            | None => try_shards f (S (S site)) (swap_remove idx to_try) slots
            end
        end
    end.

  (* `shard.try_into().unwrap_or_else(|_| 0)` : Shard = u32 -> u16 *)
  Definition shard_u16 (shard : N) : N := if (shard <=? 65535)%N then shard else 0%N.

  (* NodeConnectionPool::connection_for_shard ; None = Err(ConnectionPoolError) *)
  Definition connection_for_shard (p : pool_view) (shard : N) : option conn :=
    match p with
    | PoolDown => None
    | PoolNotSharded conns => choose_conn 40 conns
    | PoolSharded nr msb slots =>
        let s16 := shard_u16 shard in
        match match nth_error slots (N.to_nat s16) with
              | Some v => choose_conn 41 v
              | None => None                        (* "Requested shard is out of bounds" *)
              end with
        | Some c => Some c
        | None => try_shards (S (N.to_nat nr)) 42 (nrange 0 (N.to_nat nr)) slots
        end
    end.
End PoolChoice.

(* ---- PoolRefiller: how connections get into the slots ---------------------------------- *)
Inductive pool_size := PerHost (n : nat) | PerShard (n : nat).

(* PoolRefiller { sharder, conns, excess_connections } *)
Record refiller := mkRef {
  rf_sharder : option (N * N); rf_conns : list (list conn); rf_excess : list conn }.
(* PoolRefiller::new : "we assume the node does not have any shards" *)
Definition rf_init : refiller := mkRef None [[]] [].

Definition sharder_eqb (a b : option (N * N)) : bool :=
  match a, b with
  | None, None => true
  | Some (n1, m1), Some (n2, m2) => N.eqb n1 n2 && N.eqb m1 m2
  | _, _ => false
  end.

(* maybe_reshard: a new sharder throws every connection away and resizes the slots *)
Definition maybe_reshard (r : refiller) (sh : option (N * N)) : refiller :=
  if sharder_eqb (rf_sharder r) sh then r
  else mkRef sh (repeat [] (match sh with Some (nr, _) => N.to_nat nr | None => 1%nat end)) [].

Fixpoint set_slot {A} (i : nat) (x : A) (l : list A) : list A :=
  match l, i with
  | [], _ => []
  | _ :: r, O => x :: r
  | y :: r, S j => y :: set_slot j x r
  end.

Definition active_count (r : refiller) : nat := List.length (concat (rf_conns r)).
Definition rf_is_full (size : pool_size) (r : refiller) : bool :=
  match size with
  | PerHost n => (n <=? active_count r)%nat
  | PerShard n => forallb (fun v => (n <=? List.length v)%nat) (rf_conns r)
  end.
Definition excess_limit (size : pool_size) (r : refiller) : nat :=
  match size with
  | PerShard _ => (10 * match rf_sharder r with Some (nr, _) => N.to_nat nr | None => 1 end)%nat
  | PerHost _ => 0%nat
  end.

(* handle_ready_connection, the Ok arm (the connection already uses the right keyspace);
   [requested] = the connection was opened through the shard-aware port for a chosen shard.
   `self.conns[shard_id]` : ShardInfo guarantees shard < nr_shards (C11_parse_ok). *)
Definition handle_ready (size : pool_size) (r : refiller) (c : conn) (requested : bool) : refiller :=
  let r1 := maybe_reshard r (conn_sharder c) in
  let shard_id := N.to_nat (conn_shard c) in
  let slot := nth shard_id (rf_conns r1) [] in
  let can_be_accepted :=
    match size with
    | PerHost n => (active_count r1 <? n)%nat
    | PerShard n => (List.length slot <? n)%nat
    end in
  if can_be_accepted then
    mkRef (rf_sharder r1) (set_slot shard_id (slot ++ [c]) (rf_conns r1)) (rf_excess r1)
  else if requested then r1            (* excess shard-aware connection: dropped, retried later *)
  else let ex := rf_excess r1 ++ [c] in
       mkRef (rf_sharder r1) (rf_conns r1)
             (if (excess_limit size r1 <? List.length ex)%nat then [] else ex).

Definition conn_eqb (a b : conn) : bool := N.eqb (cid a) (cid b).
Fixpoint index_conn (c : conn) (v : list conn) : option nat :=
  match v with
  | [] => None
  | x :: r => if conn_eqb c x then Some O else option_map S (index_conn c r)
  end.

(* remove_connection *)
Definition remove_conn (r : refiller) (c : conn) : refiller :=
  let shard_id := N.to_nat (conn_shard c) in
  match (if (shard_id <? List.length (rf_conns r))%nat
         then index_conn c (nth shard_id (rf_conns r) []) else None) with
  | Some idx =>
      mkRef (rf_sharder r)
            (set_slot shard_id (swap_remove idx (nth shard_id (rf_conns r) [])) (rf_conns r))
            (rf_excess r)
  | None =>
      match index_conn c (rf_excess r) with
      | Some idx => mkRef (rf_sharder r) (rf_conns r) (swap_remove idx (rf_excess r))
      | None => r
      end
  end.

(* one iteration of PoolRefiller::run that touches the connections *)
Inductive pool_event :=
| EvReady (c : conn) (requested : bool)     (* a connection finished its handshake *)
| EvBroken (c : conn).                      (* a connection reported an error *)

Definition pool_step (size : pool_size) (r : refiller) (e : pool_event) : refiller :=
  match e with
  | EvReady c requested =>
      let r1 := handle_ready size r c requested in
      if rf_is_full size r1 then mkRef (rf_sharder r1) (rf_conns r1) [] else r1
  | EvBroken c => remove_conn r c
  end.
Definition pool_run (size : pool_size) (evs : list pool_event) : refiller :=
  fold_left (pool_step size) evs rf_init.

(* update_shared_conns: what the requests see *)
Definition rf_view (r : refiller) : pool_view :=
  if forallb (fun v => match v with [] => true | _ => false end) (rf_conns r) then PoolDown
  else match rf_sharder r with
       | Some (nr, msb) => PoolSharded nr msb (rf_conns r)
       | None => PoolNotSharded (nth 0 (rf_conns r) [])
       end.

(* a connection's ShardInfo as ShardInfo::try_from accepts it (C11_parse_ok) *)
Definition conn_ok (c : conn) : Prop :=
  match cinfo c with Some (s, nr, _) => (s < nr)%N | None => True end.
Definition event_ok (e : pool_event) : Prop :=
  match e with EvReady c _ => conn_ok c | EvBroken _ => True end.

(* what the refiller maintains (Route_proofs.pool_run_wf) and what the rest relies on *)
Definition slots_wf (sh : option (N * N)) (slots : list (list conn)) : Prop :=
  List.length slots = match sh with Some (nr, _) => N.to_nat nr | None => 1%nat end /\
  forall i c, In c (nth i slots []) -> conn_sharder c = sh /\ N.to_nat (conn_shard c) = i.
Definition pool_wf (p : pool_view) : Prop :=
  match p with
  | PoolDown => True
  | PoolNotSharded conns => conns <> [] /\ forall c, In c conns -> cinfo c = None
  | PoolSharded nr msb slots => slots_wf (Some (nr, msb)) slots /\ concat slots <> []
  end.
(* boolean version for the driver's input *)
Definition pool_wfb (p : pool_view) : bool :=
  match p with
  | PoolDown => true
  | PoolNotSharded conns =>
      negb (match conns with [] => true | _ => false end) &&
      forallb (fun c => match cinfo c with None => true | Some _ => false end) conns
  | PoolSharded nr msb slots =>
      (List.length slots =? N.to_nat nr)%nat &&
      forallb (fun iv => forallb (fun c => sharder_eqb (conn_sharder c) (Some (nr, msb)) &&
                                          N.eqb (conn_shard c) (fst iv)) (snd iv))
              (combine (nrange 0 (List.length slots)) slots) &&
      negb (match concat slots with [] => true | _ => false end)
  end.

(* ====================================================================================== *)
(* 2. replica sources: ring tables and tablet tables                                        *)
(* ====================================================================================== *)

Definition sreplica := (N * N)%type.                  (* (NodeRef, Shard) *)
(* a ReplicaSet per location criterion: what into_iter() and what into_replicas_ordered() yield *)
Record rsource := mkSrc { src_iter : crit -> list sreplica; src_ordered : crit -> list sreplica }.

(* with_computed_shard : node.sharder().map(|s| s.shard_of(token)).unwrap_or(0) *)
Definition computed_shard (p : pool_view) (t : Z) : N :=
  match pool_sharder p with Some (nr, msb) => shard_of nr msb t | None => 0%N end.

(* the cluster as ONE request sees it (one ClusterState snapshot + the pools) *)
Record cluster := mkCluster {
  c_dcf : N -> option N;                 (* Node::datacenter *)
  c_rackf : N -> option N;               (* Node::rack *)
  c_ring : ring N;                       (* the locator's global ring *)
  c_keyspaces : list (N * strategy);     (* ClusterState::keyspaces : name -> strategy *)
  c_pre : list strategy;                 (* strategies handed to the precomputation: those of the
                                            keyspaces that are not tablet based *)
  c_enabled : N -> bool;                 (* Node::is_enabled : the node has a pool *)
  c_pool : N -> pool_view;               (* that pool's shared connections *)
  c_tablets : Tablets.info               (* the locator's TabletsInfo *)
}.
(* Node::is_connected ; DefaultPolicy::is_alive *)
Definition c_connected (cl : cluster) (n : N) : bool := pool_connected (c_pool cl n).
Definition c_alive (cl : cluster) (n : N) : bool := alive (c_enabled cl) (c_connected cl) n.

(* Plain / FilteredSimple / ChainedNTS sets of a ring table, each node with its computed shard *)
Definition ring_source (cl : cluster) (t : Z) (s : strategy) : rsource :=
  let sh := fun n => (n, computed_shard (c_pool cl n) t) in
  let rs := fun c => replicas_for (c_dcf cl) (c_rackf cl) (c_ring cl) (c_pre cl) t s (crit_dc c) in
  mkSrc (fun c => map sh (rs_iter (c_dcf cl) (c_rackf cl) (c_ring cl) (c_pre cl) t (rs c)))
        (fun c => map sh (fst (rs_ordered (c_dcf cl) (c_rackf cl) (c_ring cl) (c_pre cl) t (rs c)))).

(* PlainSharded: the tablet's own (node, shard) list, both views in "tablet definition order";
   no tablet for the token = the empty set *)
Definition tab_reps (l : option (list Tablets.replica)) : list sreplica :=
  match l with
  | Some rs => map (fun r => (Tablets.host (fst r), snd r)) rs
  | None => []
  end.
Definition tablet_reps (s : Tablets.info) (k : Tablets.tkey) (t : Z) (dc : option N) : list sreplica :=
  tab_reps (match dc with
            | Some d => Tablets.lookup_dc s k t d       (* dc_replicas_for_token *)
            | None => Tablets.lookup s k t              (* replicas_for_token *)
            end).
Definition tablet_source (s : Tablets.info) (k : Tablets.tkey) (t : Z) : rsource :=
  let f := fun c => tablet_reps s k t (crit_dc c) in mkSrc f f.

(* TokenWithStrategy::new + `if let (Some(ts), Some(table_spec))` + replicas_for_token's
   `if let Some(tablets) = self.tablets.tablets_for_table(table_spec)` *)
Definition route_source (cl : cluster) (pol : policy) (rq : request) (table : option Tablets.tkey)
  : option rsource :=
  match token_strategy (c_keyspaces cl) pol rq, table with
  | Some (t, s), Some k =>
      match Tablets.find_table (c_tablets cl) k with
      | Some _ => Some (tablet_source (c_tablets cl) k t)
      | None => Some (ring_source cl t s)
      end
  | _, _ => None
  end.

(* ====================================================================================== *)
(* 3. pick() / fallback() / Plan over an arbitrary replica source                           *)
(*    (the token-unaware parts are Plan.v's, unchanged)                                     *)
(* ====================================================================================== *)
Section GPlan.
  Variables (dcf rackf : N -> option N) (g : ring N) (enabled connected : N -> bool).
  Variables (pol : policy) (rq : request) (src : option rsource).
  Variables (cho : nat -> nat -> nat) (shufp : nat -> list sreplica -> list sreplica).

  Definition sr_ok (c : crit) (x : sreplica) : bool :=
    alive enabled connected (fst x) && crit_ok rackf c (fst x).

  (* filtered_replicas *)
  Definition g_filtered (s : rsource) (c : crit) (det : bool) : list sreplica :=
    filter (sr_ok c) (if det then src_ordered s c else src_iter s c).
  (* maybe_shuffled_replicas *)
  Definition g_maybe_shuffled (site : nat) (s : rsource) (c : crit) : list sreplica :=
    if rq_lwt rq then g_filtered s c true else shufp site (g_filtered s c false).

  Definition to_target (x : sreplica) : target := (fst x, Some (snd x)).

  Definition g_fb_replicas : list target :=
    match src with
    | Some s =>
        map to_target
          ((match crit_rack pol rq with Some c => g_maybe_shuffled 1 s c | None => [] end) ++
           (match crit_local pol rq with Some c => g_maybe_shuffled 2 s c | None => [] end) ++
           (if remote_allowed pol rq then g_maybe_shuffled 3 s CAny else []))
    | None => []
    end.

  Definition g_fallback : list target :=
    dedup (g_fb_replicas ++ fb_nodes dcf rackf g enabled connected pol rq cho).

  Inductive gpicked := GComputed (x : sreplica) | GToBeComputedInFallback.

  (* pick_replica : pick_first_replica (LWT) / pick_random_replica -> choose_filtered *)
  Definition g_pick_replica (site : nat) (s : rsource) (c : crit) : option gpicked :=
    if rq_lwt rq then
      match c with
      | CAny => match src_ordered s CAny with
                | [] => None
                | primary :: _ =>
                    Some (if alive enabled connected (fst primary)
                          then GComputed primary else GToBeComputedInFallback)
                end
      | _ => match g_filtered s c true with
             | [] => None
             | x :: _ => Some (GComputed x)
             end
      end
    else
      let it := src_iter s c in
      match nth_error it (cho site (List.length it)) with
      | None => None
      | Some happy =>
          if sr_ok c happy then Some (GComputed happy)
          else let f := g_filtered s c false in
               option_map GComputed (nth_error f (cho (site + 10) (List.length f)))
      end.

  Definition g_replica_steps (s : rsource) : list (option gpicked) :=
    [ match crit_rack pol rq with Some c => g_pick_replica 21 s c | None => None end;
      match crit_local pol rq with Some c => g_pick_replica 22 s c | None => None end;
      if remote_allowed pol rq then g_pick_replica 23 s CAny else None ].
  Fixpoint g_first_picked (l : list (option gpicked)) (k : option target) : option target :=
    match l with
    | [] => k
    | Some (GComputed x) :: _ => Some (to_target x)
    | Some GToBeComputedInFallback :: _ => None
    | None :: r => g_first_picked r k
    end.

  Definition g_pick : option target :=
    match src with
    | Some s => g_first_picked (g_replica_steps s)
                               (pick_nodes_part dcf rackf g enabled connected pol rq cho)
    | None => pick_nodes_part dcf rackf g enabled connected pol rq cho
    end.

  (* Plan: Created -> Picked -> Fallback *)
  Definition g_plan : list target :=
    match g_pick with
    | Some p => p :: filter (fun x => negb (target_eqb x p)) g_fallback
    | None => match g_fallback with
              | [] => []
              | f :: rest => f :: filter (fun x => negb (target_eqb x f)) rest
              end
    end.
End GPlan.

(* ====================================================================================== *)
(* 4. one execution of a prepared statement: Session::execute -> run_request -> the fiber    *)
(* ====================================================================================== *)

(* what Session::execute reads off the PreparedStatement *)
Record statement := mkStmt {
  st_table : option Tablets.tkey;       (* get_table_spec(): table spec of the FIRST bind column of
                                           the PREPARED metadata; None without bind columns *)
  st_ncols : nat;                       (* col_specs.len() *)
  st_wire : list N;                     (* pk indexes as announced by the server *)
  st_part : Murmur.partitioner;         (* get_partitioner_name() *)
  st_lwt : bool                         (* is_confirmed_lwt() *)
}.
(* the execution profile / session part *)
Record exec_cfg := mkCfg {
  ex_pol : policy;                      (* the DefaultPolicy in force *)
  ex_pref : pref;                       (* Session::node_location_preference *)
  ex_serial_cl : bool                   (* consistency is Serial | LocalSerial *)
}.

(* the RoutingInfo built by Session::execute; Err = PartitionKeyError, nothing is sent.
   [true] = C03's overflow-checks flag: the harness is a debug build; inside C03's quantifier
   (key_ok) both settings give the same token (C03_token holds for either) *)
Definition routing_request (st : statement) (cfg : exec_cfg) (values : list PartKey.raw_value)
  : result PartKey.c03_error request :=
  match PartKey.ps_calculate_token true (st_part st) (st_ncols st) (st_wire st) values with
  | Err e => Err e
  | Ok tok =>
      Ok {| rq_token := tok;
            rq_ks := option_map fst (st_table st);
            rq_lwt := st_lwt st || ex_serial_cl cfg;       (* should_route_as_lwt *)
            rq_pref := ex_pref cfg |}
  end.

Section Exec.
  Variables (cl : cluster) (cho : nat -> nat -> nat) (shufp : nat -> list sreplica -> list sreplica).

  Definition route_plan (cfg : exec_cfg) (st : statement) (rq : request) : list target :=
    g_plan (c_dcf cl) (c_rackf cl) (c_ring cl) (c_enabled cl) (c_connected cl) (ex_pol cfg) rq
           (route_source cl (ex_pol cfg) rq (st_table st)) cho shufp.

  (* Plan::with_random_shard_if_unknown *)
  Definition with_random_shard (x : target) : N * N :=
    (fst x,
     match snd x with
     | Some s => s
     | None => N.of_nat (cho 30 (match pool_sharder (c_pool cl (fst x)) with
                                 | Some (nr, _) => N.to_nat nr | None => 1%nat end))
     end).

  (* Node::connection_for_shard : get_pool()? . connection_for_shard(shard) *)
  Definition node_connection (n shard : N) : option conn :=
    if c_enabled cl n then connection_for_shard cho (c_pool cl n) shard else None.

  (* `'targets_in_plan: for target in request_plan`: a target whose pool gives no connection is
     skipped; the first attempt is sent on the first connection obtained *)
  Fixpoint first_attempt (p : list target) : option (N * conn) :=
    match p with
    | [] => None
    | x :: r =>
        let ns := with_random_shard x in
        match node_connection (fst ns) (snd ns) with
        | Some c => Some (fst ns, c)
        | None => first_attempt r
        end
    end.

  (* the whole thing: where (node, connection) the first frame of the request goes *)
  Definition route (cfg : exec_cfg) (st : statement) (values : list PartKey.raw_value)
    : result PartKey.c03_error (option (N * conn)) :=
    match routing_request st cfg values with
    | Err e => Err e
    | Ok rq => Ok (first_attempt (route_plan cfg st rq))
    end.
End Exec.

(* ====================================================================================== *)
(* 5. SPECIFICATION (from the property text) and the acceptors of the correspondence check   *)
(* ====================================================================================== *)

(* The owners of a token of a table, with the shard that owns it on each of them:
   the tablet covering the token when the table has known tablets (no covering tablet: nobody is
   known to own it), else the replicas the keyspace's strategy places on the ring, each with
   ScyllaDB's shard_of for that node's shard count (0 on a node without shards). *)
Definition spec_owner_shard (p : pool_view) (t : Z) : N :=
  match pool_sharder p with Some (nr, msb) => spec_shard_of nr msb t | None => 0%N end.
Definition owners (cl : cluster) (k : Tablets.tkey) (t : Z) (s : strategy) : list sreplica :=
  match Tablets.find_table (c_tablets cl) k with
  | Some _ => tab_reps (Tablets.lookup (c_tablets cl) k t)
  | None => map (fun n => (n, spec_owner_shard (c_pool cl n) t))
                (spec_replicas (c_dcf cl) (c_rackf cl) (c_ring cl) t s None)
  end.

(* the nodes the load-balancing configuration permits: the preferred datacenter's when one is
   preferred and failover is not permitted, else all *)
Definition permitted_dc (cl : cluster) (pol : policy) (rq : request) (n : N) : bool :=
  match restricted_dc pol rq with Some d => in_dc (c_dcf cl) d n | None => true end.
(* reachable and permitted *)
Definition usable (cl : cluster) (pol : policy) (rq : request) (n : N) : bool :=
  c_alive cl n && permitted_dc cl pol rq n.

(* "the pool has a connection bound to shard s" *)
Definition pool_has_shard (p : pool_view) (s : N) : bool :=
  existsb (fun c => N.eqb (conn_shard c) s) (pool_conns p).

(* acceptor of the pool tie: a request aimed at (node, shard [want]) through connection_for_shard
   was served by a connection whose server-side shard is [sh] *)
Definition accept_conn_shard (p : pool_view) (want sh : N) : bool :=
  pool_has_shard p sh &&
  match pool_sharder p with
  | Some _ => if pool_has_shard p (shard_u16 want) then N.eqb sh (shard_u16 want) else true
  | None => true
  end.

(* acceptor of the refiller tie: the pool the model's refiller holds after the observed history of
   connections becoming ready / being cut is the observed pool (server-side shards, slot by slot) *)
Definition refill_ok (size : pool_size) (evs : list pool_event) (final : list N) : bool :=
  list_eqb (map conn_shard (concat (rf_conns (pool_run size evs)))) final.

(* the connections the model's refiller LETS GO along a history (a surplus connection dropped at once,
   the excess list trimmed when the pool becomes full or over its limit, everything on a resharding):
   held before the step or arriving with it, and no longer held after it *)
Definition rf_held (r : refiller) : list conn := concat (rf_conns r) ++ rf_excess r.
Definition released_step (size : pool_size) (r : refiller) (e : pool_event) : list conn :=
  match e with
  | EvReady c _ =>
      filter (fun x => negb (existsb (conn_eqb x) (rf_held (pool_step size r e)))) (rf_held r ++ [c])
  | EvBroken _ => []
  end.
Fixpoint refill_released (size : pool_size) (r : refiller) (evs : list pool_event) : list conn :=
  match evs with
  | [] => []
  | e :: t => released_step size r e ++ refill_released size (pool_step size r e) t
  end.
(* a released connection as the mock can name it: (server-side shard, shard count it was told) *)
Definition conn_key (c : conn) : N * N :=
  (conn_shard c, match cinfo c with Some (_, nr, _) => nr | None => 0%N end).
Definition count_key (k : N * N) (l : list (N * N)) : nat :=
  List.length (filter (fun x => N.eqb (fst x) (fst k) && N.eqb (snd x) (snd k)) l).
Definition same_keys (a b : list (N * N)) : bool :=
  (List.length a =? List.length b)%nat && forallb (fun k => (count_key k a =? count_key k b)%nat) a.
(* second acceptor of the refiller tie: the pool connections the CLIENT closed during the history are,
   as a multiset of (shard, shard count), the ones the model lets go *)
Definition refill_closed_ok (size : pool_size) (evs : list pool_event) (closed : list (N * N)) : bool :=
  same_keys (map conn_key (refill_released size rf_init evs)) closed.
(* how many ready connections the model's refiller has let go (dropped at once or trimmed) *)
Definition refill_dropped (size : pool_size) (evs : list pool_event) : nat :=
  let r := pool_run size evs in
  let ready := List.length (filter (fun e => match e with EvReady _ _ => true | _ => false end) evs) in
  let broken := List.length (filter (fun e => match e with EvBroken _ => true | _ => false end) evs) in
  (ready - broken - List.length (concat (rf_conns r)) - List.length (rf_excess r))%nat.

(* THE PROPERTY for one execution, given where its first frame was seen:
   [obs] = Some (node, server-side shard of the connection) | None = nothing was sent *)
Definition route_prop (cl : cluster) (cfg : exec_cfg) (st : statement)
           (values : list PartKey.raw_value) (obs : option (N * N)) : Prop :=
  forall k t s,
    st_table st = Some k ->
    PartKey.ps_calculate_token true (st_part st) (st_ncols st) (st_wire st) values = Ok (Some t) ->
    pol_token_aware (ex_pol cfg) = true ->
    ks_lookup (c_keyspaces cl) (fst k) = Some s ->
    forall rq, routing_request st cfg values = Ok rq ->
    let own := owners cl k t s in
    (exists r, In r own /\ usable cl (ex_pol cfg) rq (fst r) = true) ->
    exists n sh r,
      obs = Some (n, sh) /\
      (* ... the first attempt goes to such a replica ... *)
      In r own /\ fst r = n /\ usable cl (ex_pol cfg) rq n = true /\
      (* ... one in the preferred datacenter when that datacenter holds a reachable replica ... *)
      (forall d, pref_dc (eff_pref (ex_pol cfg) rq) = Some d ->
         (exists r', In r' own /\ c_alive cl (fst r') = true /\ in_dc (c_dcf cl) d (fst r') = true) ->
         in_dc (c_dcf cl) d n = true) /\
      (* ... on a connection bound to the owning shard whenever the pool has one (a tablet that
         lists the node twice, with two shards, owns the token on both: either is accepted) *)
      (pool_sharder (c_pool cl n) <> None ->
       exists r', In r' own /\ fst r' = n /\
                  (pool_has_shard (c_pool cl n) (shard_u16 (snd r')) = true -> sh = shard_u16 (snd r'))).

(* ---- the acceptor ----------------------------------------------------------------------- *)
(* the location criteria pick()/fallback() go through, in order *)
Definition allowed_crits (pol : policy) (rq : request) : list crit :=
  (match crit_rack pol rq with Some c => [c] | None => [] end) ++
  (match crit_local pol rq with Some c => [c] | None => [] end) ++
  (if remote_allowed pol rq then [CAny] else []).

Fixpoint first_nonempty {A} (l : list (list A)) : list A :=
  match l with
  | [] => []
  | [] :: r => first_nonempty r
  | x :: _ => x
  end.

Section Accept.
  Variables (cl : cluster) (cfg : exec_cfg) (rq : request) (src : option rsource).
  Let pol := ex_pol cfg.
  Let al := alive (c_enabled cl) (c_connected cl).

  (* the live replicas of the first location criterion that has any (LWT: in ring order) *)
  Definition replica_cands : list sreplica :=
    match src with
    | Some s => first_nonempty
                  (map (fun c => g_filtered (c_rackf cl) (c_enabled cl) (c_connected cl) s c (rq_lwt rq))
                       (allowed_crits pol rq))
    | None => []
    end.
  (* the live nodes of the first node group that has any *)
  Definition node_cands : list N :=
    let ln := local_nodes (c_dcf cl) (c_ring cl) pol rq in
    let an := all_nodes (c_ring cl) in
    first_nonempty
      [ match crit_rack pol rq with
        | Some c => filter (fun n => al n && crit_ok (c_rackf cl) c n) ln
        | None => []
        end;
        filter al ln;
        if failover_possible pol rq then filter al an else [] ].

  (* is [sh] a possible server-side shard of the connection chosen on node n for shard [want] *)
  Definition accept_shard (n : N) (want : option N) (sh : N) : bool :=
    let p := c_pool cl n in
    match pool_sharder p, want with
    | Some _, Some w =>
        if pool_has_shard p (shard_u16 w) then N.eqb sh (shard_u16 w) else pool_has_shard p sh
    | _, _ => pool_has_shard p sh
    end.

  (* the model's set of possible first attempts contains [obs] *)
  Definition accept_obs (obs : option (N * N)) : bool :=
    match replica_cands with
    | x :: rest =>
        match obs with
        | Some (n, sh) =>
            if rq_lwt rq then N.eqb n (fst x) && accept_shard n (Some (snd x)) sh
            else existsb (fun y => N.eqb n (fst y) && accept_shard n (Some (snd y)) sh) (x :: rest)
        | None => false
        end
    | [] =>
        match node_cands, obs with
        | [], None => true
        | l, Some (n, sh) => mem n l && accept_shard n None sh
        | _, _ => false
        end
    end.
End Accept.

(* route_ok cluster key observed_first_target: evaluated by the driver on every real trace *)
Definition route_ok (cl : cluster) (cfg : exec_cfg) (st : statement)
           (values : list PartKey.raw_value) (obs : option (N * N)) : bool :=
  match routing_request st cfg values with
  | Err _ => match obs with None => true | Some _ => false end
  | Ok rq => accept_obs cl cfg rq (route_source cl (ex_pol cfg) rq (st_table st)) obs
  end.

(* the cluster description the driver builds is well formed *)
Definition cluster_wfb (cl : cluster) (nodes : list N) : bool :=
  forallb (fun n => pool_wfb (c_pool cl n) &&
                    (c_enabled cl n || negb (pool_connected (c_pool cl n)))) nodes.

(* the property as an executable predicate on the observation, phrased with the specification
   only (evaluated by the driver when the acceptor rejects: viol or diff) *)
Definition prop_obs_ok (cl : cluster) (cfg : exec_cfg) (st : statement)
           (values : list PartKey.raw_value) (spec_tok : option Z) (obs : option (N * N)) : bool :=
  match st_table st, spec_tok, routing_request st cfg values with
  | Some k, Some t, Ok rq =>
      if negb (pol_token_aware (ex_pol cfg)) then true else
      match ks_lookup (c_keyspaces cl) (fst k) with
      | None => true
      | Some s =>
          let own := owners cl k t s in
          let us := filter (fun r => usable cl (ex_pol cfg) rq (fst r)) own in
          match us with
          | [] => true
          | _ =>
              match obs with
              | None => false
              | Some (n, sh) =>
                  existsb (fun r => N.eqb (fst r) n) us &&
                  match pref_dc (eff_pref (ex_pol cfg) rq) with
                  | Some d =>
                      negb (existsb (fun r => c_alive cl (fst r) && in_dc (c_dcf cl) d (fst r)) own)
                      || in_dc (c_dcf cl) d n
                  | None => true
                  end &&
                  match pool_sharder (c_pool cl n) with
                  | None => true
                  | Some _ =>
                      existsb (fun r => N.eqb (fst r) n &&
                                        (negb (pool_has_shard (c_pool cl n) (shard_u16 (snd r)))
                                         || N.eqb sh (shard_u16 (snd r)))) own
                  end
              end
          end
      end
  | _, _, _ => true
  end.

(* helpers for the driver: node attribute functions from association lists *)
Fixpoint assoc_pool (l : list (N * pool_view)) (n : N) : pool_view :=
  match l with
  | [] => PoolDown
  | (k, v) :: r => if N.eqb k n then v else assoc_pool r n
  end.
(* the slots of a sharded pool from the (shard of each connection) list *)
Definition slots_of (nr msb : N) (shards : list N) : list (list conn) :=
  map (fun i => map (fun ks => mkConn (fst ks) (Some (i, nr, msb)))
                    (filter (fun ks => N.eqb (snd ks) i)
                            (combine (nrange 0 (List.length shards)) shards)))
      (nrange 0 (N.to_nat nr)).
Definition pool_of (sharder : option (N * N)) (shards : list N) : pool_view :=
  match shards with
  | [] => PoolDown
  | _ => match sharder with
         | Some (nr, msb) => PoolSharded nr msb (slots_of nr msb shards)
         | None => PoolNotSharded (map (fun i => mkConn i None) (nrange 0 (List.length shards)))
         end
  end.
