(* Model for property C20 ("after USE keyspace succeeds, all requests run on connections in that
   keyspace").  Executable definitions only; proofs are in Proofs/Keyspace_proofs.v.

   Modelled code (scylla-rust-driver):
   * network/connection.rs   VerifiedKeyspaceName::new / verify_keyspace_name_is_valid (2459-2511),
                             Connection::use_keyspace statement text (1296-1309),
                             Connection::verify_use_keyspace_result (1311-1341)
   * cluster/worker.rs       use_keyspace_result (767-797), ClusterWorker::work select! arms for
                             UseKeyspaceRequest / metadata application (325-362), send_use_keyspace
   * cluster/state.rs        new nodes are created with node_config.used_keyspace (~328)
   * network/connection_pool.rs   PoolRefiller: run (select! arms), handle_ready_connection (862-1037),
                             start_setting_keyspace_for_connection (1330-1354), use_keyspace (1282-1326),
                             remove_connection (1218-1275), maybe_reshard, start_opening_connection
   * client/session.rs       Session::use_keyspace (2002-2017)

   Strings are lists of Unicode scalar values (N): `chars().count()` counts scalar values, and
   `eq_ignore_ascii_case` on the UTF-8 bytes of two strings is the same as comparing the scalar
   values with A-Z folded (UTF-8 is injective and bytes < 128 only encode ASCII). *)
From SV Require Import Base.Prelude.
From Coq Require Import Ascii String.
Open Scope N_scope.

(* ====================================================================================== *)
(* 1. Names, statement text, response check, aggregation of results                      *)
(* ====================================================================================== *)

Definition name := list N.

(* 'a'..='z' | 'A'..='Z' | '0'..='9' | '_' *)
Definition is_ks_char (c : N) : bool :=
  ((97 <=? c) && (c <=? 122)) || ((65 <=? c) && (c <=? 90)) || ((48 <=? c) && (c <=? 57)) || (c =? 95).

(* BadKeyspaceName::{Empty, TooLong(_, len), IllegalCharacter(_, c)} *)
Inductive name_err := NEmpty | NTooLong (len : N) | NIllegal (c : N).

(* the `for character in keyspace_name.chars()` loop: the first character outside the class *)
Fixpoint first_illegal (s : name) : option N :=
  match s with
  | [] => None
  | c :: r => if is_ks_char c then first_illegal r else Some c
  end.

(* VerifiedKeyspaceName::verify_keyspace_name_is_valid: empty, then length (> 48), then characters *)
Definition verify_name (s : name) : result name_err unit :=
  match s with
  | [] => Err NEmpty
  | _ =>
      let len := N.of_nat (List.length s) in
      if 48 <? len then Err (NTooLong len)
      else match first_illegal s with
           | Some c => Err (NIllegal c)
           | None => Ok tt
           end
  end.

(* a verified keyspace name: (name, is_case_sensitive).  Equality of VerifiedKeyspaceName is the
   derived one: both fields. *)
Definition ks := (name * bool)%type.

(* VerifiedKeyspaceName::new *)
Definition make_verified (s : name) (cs : bool) : result name_err ks :=
  match verify_name s with
  | Ok _ => Ok (s, cs)
  | Err e => Err e
  end.

Fixpoint name_eqb (a b : name) : bool :=
  match a, b with
  | [], [] => true
  | x :: a', y :: b' => (x =? y) && name_eqb a' b'
  | _, _ => false
  end.
Definition ks_eqb (a b : ks) : bool := name_eqb (fst a) (fst b) && Bool.eqb (snd a) (snd b).

(* Connection::use_keyspace: format!("USE \"{}\"", name) / format!("USE {}", name) *)
Definition use_prefix : name := [85; 83; 69; 32].      (* "USE " *)
Definition dquote : N := 34.
Definition use_statement (k : ks) : name :=
  if snd k then use_prefix ++ [dquote] ++ fst k ++ [dquote] else use_prefix ++ fst k.

(* ---- specification of the name grammar (from the property text): [A-Za-z0-9_]{1,48} ---- *)
Definition alphabet : list N :=
  map N_of_ascii
      (list_ascii_of_string "abcdefghijklmnopqrstuvwxyzABCDEFGHIJKLMNOPQRSTUVWXYZ0123456789_").
Definition valid_name (s : name) : Prop :=
  (1 <= List.length s <= 48)%nat /\ Forall (fun c => In c alphabet) s.
Definition valid_nameb (s : name) : bool :=
  (1 <=? List.length s)%nat && (List.length s <=? 48)%nat &&
  forallb (fun c => existsb (N.eqb c) alphabet) s.

(* specification of the statement: reading the text back as  USE <identifier>  or
   USE "<identifier>"  where the identifier is the longest run of alphabet characters; it must
   consume the whole text, i.e. nothing but one identifier follows the fixed prefix / quotes *)
Fixpoint span_ident (s : name) : name * name :=
  match s with
  | [] => ([], [])
  | c :: r => if existsb (N.eqb c) alphabet
              then let (i, rest) := span_ident r in (c :: i, rest)
              else ([], s)
  end.
Fixpoint strip_prefix (p t : name) : option name :=
  match p, t with
  | [], _ => Some t
  | x :: p', y :: t' => if x =? y then strip_prefix p' t' else None
  | _ :: _, [] => None
  end.
Definition nonempty (s : name) : bool := match s with [] => false | _ => true end.
Definition parse_use (t : name) : option ks :=
  match strip_prefix use_prefix t with
  | None => None
  | Some [] => None
  | Some (c :: q) =>
      if c =? dquote then
        let (i, rest) := span_ident q in
        match rest with
        | [c'] => if (c' =? dquote) && nonempty i then Some (i, true) else None
        | _ => None
        end
      else
        let (i, rest) := span_ident (c :: q) in
        match rest with
        | [] => if nonempty i then Some (i, false) else None
        | _ => None
        end
  end.

(* ---- response check ------------------------------------------------------------------- *)

(* u8::to_ascii_lowercase on every byte (identity above 127) *)
Definition to_lower (c : N) : N := if (65 <=? c) && (c <=? 90) then c + 32 else c.

(* str::eq_ignore_ascii_case: same length and bytewise equal after ASCII lower-casing *)
Fixpoint eq_ci (a b : name) : bool :=
  match a, b with
  | [], [] => true
  | x :: a', y :: b' => (to_lower x =? to_lower y) && eq_ci a' b'
  | _, _ => false
  end.

(* what the server answered to a USE statement, as far as verify_use_keyspace_result looks *)
Inductive reply := RSetKeyspace (n : name) | RError | ROther.
(* Ok | KeyspaceNameMismatch | RequestError(DbError) | RequestError(UnexpectedResponse) *)
Inductive vres := VOk | VMismatch | VDbError | VUnexpected.

Definition verify_result (k : ks) (r : reply) : vres :=
  match r with
  | RSetKeyspace n => if eq_ci n (fst k) then VOk else VMismatch
  | RError => VDbError
  | ROther => VUnexpected
  end.

(* the name a CQL server stores for `USE x` (unquoted identifiers are lower-cased) / `USE "x"` *)
Definition canon (k : ks) : name := if snd k then fst k else map to_lower (fst k).

(* ---- cluster::use_keyspace_result ------------------------------------------------------ *)

(* one per-connection (or per-node) outcome: Ok | broken-connection error | any other error;
   the tag identifies the error value so that "which one is returned" is part of the model *)
Inductive cres := COk | CBroken (tag : N) | CErr (tag : N).
(* Ok | Err(broken) | Err(other) | the `unwrap()` on an empty iterator *)
Inductive ares := AOk | ABroken (tag : N) | AErr (tag : N) | APanic.

Fixpoint agg (was_ok : bool) (broken : option N) (l : list cres) : ares :=
  match l with
  | [] => if was_ok then AOk
          else match broken with Some t => ABroken t | None => APanic end
  | COk :: r => agg true broken r
  | CBroken t :: r => agg was_ok (Some t) r
  | CErr t :: _ => AErr t
  end.
Definition use_keyspace_result (l : list cres) : ares := agg false None l.

Definition is_broken (x : cres) : bool := match x with CBroken _ => true | _ => false end.
Definition is_err (x : cres) : bool := match x with CErr _ => true | _ => false end.
Definition is_ok (x : cres) : bool := match x with COk => true | _ => false end.

(* ====================================================================================== *)
(* 2. One node's connection pool (PoolRefiller) together with the server side of its      *)
(*    connections.  One label = one select! arm of PoolRefiller::run, one step of the     *)
(*    task spawned by PoolRefiller::use_keyspace, or one event on the server side.        *)
(* ====================================================================================== *)

(* where a connection object is:  not created | future in `ready_connections` opening it |
   future in `ready_connections` running `USE k` on it | in `conns` (= shared_conns, visible
   to requests) | in `excess_connections` | dropped *)
Inductive phase := Unborn | Opening | Setting (k : ks) | InPool | Excess | Gone.

(* state of one `conn.use_keyspace(&keyspace_name)` future of a pool-level use *)
Inductive status := NotSent | Sent | Done (r : cres).

(* the task spawned by PoolRefiller::use_keyspace: keyspace, the connections cloned from
   `self.conns` at that moment, one future per connection *)
Record use_rec := mkUse { uid : nat; uks : ks; cov : list nat; stat : nat -> status }.

(* what the pool answers through response_sender: Ok | Err(broken connection) | any other Err *)
Inductive panswer := PAOk | PABroken | PAErr.

Record pool := mkPool {
  cur : option ks;                      (* PoolRefiller.current_keyspace *)
  cur_uid : option nat;                 (* the use request that set it (None: constructor argument) *)
  next : nat;                           (* connection objects created so far *)
  unext : nat;                          (* use requests received so far *)
  ph : nat -> phase;
  alive : nat -> bool;                  (* router task of the connection still running *)
  acked : nat -> option name;           (* SERVER side: keyspace acknowledged on that connection *)
  told : nat -> list ks;                (* every USE submitted on that connection, in order *)
  wire : nat -> list (nat * ks);        (* USE frames of pool-level uses submitted, not yet answered *)
  pending : list use_rec;               (* spawned use tasks that have not answered yet *)
  log : list (nat * panswer)            (* answers given to callers *)
}.

Definition upd {A} (f : nat -> A) (c : nat) (v : A) : nat -> A :=
  fun x => if Nat.eqb x c then v else f x.

Definition set_cur s v u := mkPool v u (next s) (unext s) (ph s) (alive s) (acked s) (told s) (wire s) (pending s) (log s).
Definition set_next s v := mkPool (cur s) (cur_uid s) v (unext s) (ph s) (alive s) (acked s) (told s) (wire s) (pending s) (log s).
Definition set_unext s v := mkPool (cur s) (cur_uid s) (next s) v (ph s) (alive s) (acked s) (told s) (wire s) (pending s) (log s).
Definition set_ph s v := mkPool (cur s) (cur_uid s) (next s) (unext s) v (alive s) (acked s) (told s) (wire s) (pending s) (log s).
Definition set_alive s v := mkPool (cur s) (cur_uid s) (next s) (unext s) (ph s) v (acked s) (told s) (wire s) (pending s) (log s).
Definition set_acked s v := mkPool (cur s) (cur_uid s) (next s) (unext s) (ph s) (alive s) v (told s) (wire s) (pending s) (log s).
Definition set_told s v := mkPool (cur s) (cur_uid s) (next s) (unext s) (ph s) (alive s) (acked s) v (wire s) (pending s) (log s).
Definition set_wire s v := mkPool (cur s) (cur_uid s) (next s) (unext s) (ph s) (alive s) (acked s) (told s) v (pending s) (log s).
Definition set_pending s v := mkPool (cur s) (cur_uid s) (next s) (unext s) (ph s) (alive s) (acked s) (told s) (wire s) v (log s).
Definition set_log s v := mkPool (cur s) (cur_uid s) (next s) (unext s) (ph s) (alive s) (acked s) (told s) (wire s) (pending s) v.

(* PoolRefiller::new(.., current_keyspace, ..): the keyspace a new node's pool starts with *)
Definition init (k0 : option ks) : pool :=
  mkPool k0 None 0 0 (fun _ => Unborn) (fun _ => true) (fun _ => None) (fun _ => []) (fun _ => [])
         [] [].

(* the three outcomes of the `can_be_accepted` decision in handle_ready_connection: pushed to
   `conns` | pushed to `excess_connections` | dropped (retry through the non-shard-aware port).
   The counts the real decision depends on are abstracted into this oracle. *)
Inductive accept := Accept | ToExcess | Retry.

Inductive label :=
| OpenStart                                       (* start_opening_connection *)
| OpenReady (c : nat) (ok reshard : bool) (a : accept)
                                                  (* ready_connections arm, event of an opening future *)
| SetKsDone (c : nat) (r : option reply) (reshard : bool) (a : accept)
                                                  (* ready_connections arm, event of a keyspace-setting
                                                     future; None = the connection broke *)
| ClearExcess                                     (* excess_connections.clear() *)
| UseKeyspace (raw : name) (cs : bool)            (* Session::use_keyspace -> ... -> use_keyspace arm *)
| UseSend (u c : nat)                             (* the use task submits its USE on connection c *)
| UseAck (c : nat) (r : reply)                    (* the server answers the oldest USE frame on c *)
| ConnBreak (c : nat)                             (* the connection's router dies *)
| ConnError (c : nat)                             (* connection_errors arm -> remove_connection *)
| UseDone (u : nat) (a : panswer)                 (* join_all finished; response_sender.send *)
| UseTimeout (u : nat)                            (* tokio::time::timeout(connect_timeout, ..) fired *)
| Request (c : nat).                              (* a request picks connection c from shared_conns *)

Definition is_accept (a : accept) : bool := match a with Accept => true | _ => false end.

(* maybe_reshard: a different sharder clears `conns` and `excess_connections` *)
Definition resharded (f : nat -> phase) : nat -> phase :=
  fun x => match f x with InPool | Excess => Gone | p => p end.

(* the tail of handle_ready_connection's Ok branch.  After a reshard the pool is empty, so the
   connection is always accepted (the targets are NonZero): reshard with another outcome is not
   a behaviour of the code. *)
Definition accept_path (s : pool) (c : nat) (reshard : bool) (a : accept) : option pool :=
  if reshard && negb (is_accept a) then None
  else
    let ph1 := if reshard then resharded (ph s) else ph s in
    Some (set_ph s (upd ph1 c (match a with Accept => InPool | ToExcess => Excess | Retry => Gone end))).

(* `evt.keyspace_name.as_ref() != Some(keyspace)` *)
Definition evks_differs (evks : option ks) (k : ks) : bool :=
  match evks with Some k' => negb (ks_eqb k' k) | None => true end.

(* handle_ready_connection, Ok((connection, error_receiver)) branch *)
Definition ready_path (s : pool) (c : nat) (evks : option ks) (reshard : bool) (a : accept)
  : option pool :=
  match cur s with
  | Some k =>
      if evks_differs evks k
      then (* start_setting_keyspace_for_connection: USE k is the next thing sent on c *)
        Some (set_told (set_ph s (upd (ph s) c (Setting k))) (upd (told s) c (told s c ++ [k])))
      else accept_path s c reshard a
  | None => accept_path s c reshard a
  end.

Definition set_stat (r : use_rec) (c : nat) (v : status) : use_rec :=
  mkUse (uid r) (uks r) (cov r) (upd (stat r) c v).
Definition upd_use (l : list use_rec) (u : nat) (f : use_rec -> use_rec) : list use_rec :=
  map (fun r => if Nat.eqb (uid r) u then f r else r) l.
Definition find_use (l : list use_rec) (u : nat) : option use_rec :=
  find (fun r => Nat.eqb (uid r) u) l.
Definition drop_use (l : list use_rec) (u : nat) : list use_rec :=
  filter (fun r => negb (Nat.eqb (uid r) u)) l.
Definition mem (c : nat) (l : list nat) : bool := existsb (Nat.eqb c) l.

Definition is_done (x : status) : bool := match x with Done _ => true | _ => false end.
Definition outcome (x : status) : cres := match x with Done r => r | _ => CErr 0 end.

(* what the spawned task sends back: Ok(()) for no connections, otherwise use_keyspace_result *)
Definition answer_of (r : use_rec) : panswer :=
  match cov r with
  | [] => PAOk
  | _ => match use_keyspace_result (map (fun c => outcome (stat r c)) (cov r)) with
         | AOk => PAOk
         | ABroken _ => PABroken
         | AErr _ | APanic => PAErr
         end
  end.
Definition panswer_eqb (a b : panswer) : bool :=
  match a, b with PAOk, PAOk | PABroken, PABroken | PAErr, PAErr => true | _, _ => false end.

(* the connections in `self.conns`, in ascending id order (the real order - shard-major, push
   order, swap_remove - only selects WHICH of several non-broken errors is reported) *)
Definition pool_conns (s : pool) : list nat :=
  filter (fun c => match ph s c with InPool => true | _ => false end) (seq 0 (next s)).

Definition step (s : pool) (l : label) : option pool :=
  match l with
  | OpenStart =>
      let c := next s in
      Some (set_next (set_alive (set_ph s (upd (ph s) c Opening)) (upd (alive s) c true)) (S c))
  | OpenReady c ok reshard a =>
      match ph s c with
      | Opening =>
          if ok then ready_path s c None reshard a
          else Some (set_ph s (upd (ph s) c Gone))      (* ConnectionSetupError::Connection *)
      | _ => None
      end
  | SetKsDone c r reshard a =>
      match ph s c with
      | Setting k =>
          match r with
          | None =>                                       (* broken while setting the keyspace *)
              Some (set_alive (set_ph s (upd (ph s) c Gone)) (upd (alive s) c false))
          | Some rep =>
              if alive s c then
                let s1 := match rep with
                          | RSetKeyspace n => set_acked s (upd (acked s) c (Some n))
                          | _ => s
                          end in
                match verify_result k rep with
                | VOk => ready_path s1 c (Some k) reshard a
                | _ => Some (set_ph s1 (upd (ph s1) c Gone))   (* ConnectionSetupError::Keyspace *)
                end
              else None
          end
      | _ => None
      end
  | ClearExcess =>
      Some (set_ph s (fun x => match ph s x with Excess => Gone | p => p end))
  | UseKeyspace raw cs =>
      match make_verified raw cs with
      | Err _ => Some s                                   (* rejected locally, nothing is sent *)
      | Ok k =>
          let u := unext s in
          let r := mkUse u k (pool_conns s) (fun _ => NotSent) in
          Some (set_unext (set_pending (set_cur s (Some k) (Some u)) (pending s ++ [r])) (S u))
      end
  | UseSend u c =>
      match find_use (pending s) u with
      | Some r =>
          if mem c (cov r) then
            match stat r c with
            | NotSent =>
                if alive s c then
                  Some (set_pending
                          (set_told (set_wire s (upd (wire s) c (wire s c ++ [(u, uks r)])))
                                    (upd (told s) c (told s c ++ [uks r])))
                          (upd_use (pending s) u (fun r => set_stat r c Sent)))
                else
                  Some (set_pending s (upd_use (pending s) u (fun r => set_stat r c (Done (CBroken 0)))))
            | _ => None
            end
          else None
      | None => None
      end
  | UseAck c rep =>
      if alive s c then
        match wire s c with
        | (u, k) :: rest =>
            let s1 := match rep with
                      | RSetKeyspace n => set_acked s (upd (acked s) c (Some n))
                      | _ => s
                      end in
            let res := match verify_result k rep with VOk => COk | _ => CErr 0 end in
            Some (set_pending (set_wire s1 (upd (wire s1) c rest))
                    (upd_use (pending s1) u
                       (fun r => match stat r c with Sent => set_stat r c (Done res) | _ => r end)))
        | [] => None
        end
      else None
  | ConnBreak c =>
      if alive s c && (c <? next s)%nat then
        Some (set_pending (set_wire (set_alive s (upd (alive s) c false)) (upd (wire s) c []))
                (map (fun r => match stat r c with Sent => set_stat r c (Done (CBroken 0)) | _ => r end)
                     (pending s)))
      else None
  | ConnError c =>
      if alive s c then None
      else match ph s c with
           | InPool | Excess => Some (set_ph s (upd (ph s) c Gone))
           | _ => None
           end
  | UseDone u a =>
      match find_use (pending s) u with
      | Some r =>
          if forallb (fun c => is_done (stat r c)) (cov r) && panswer_eqb a (answer_of r)
          then Some (set_log (set_pending s (drop_use (pending s) u)) (log s ++ [(u, a)]))
          else None
      | None => None
      end
  | UseTimeout u =>
      match find_use (pending s) u with
      | Some r =>
          match cov r with
          | [] => None
          | _ => Some (set_log (set_pending s (drop_use (pending s) u)) (log s ++ [(u, PAErr)]))
          end
      | None => None
      end
  | Request c =>
      match ph s c with InPool => Some s | _ => None end
  end.

Fixpoint run (s : pool) (ls : list label) : option pool :=
  match ls with
  | [] => Some s
  | l :: r => match step s l with Some s' => run s' r | None => None end
  end.

Definition reachable (k0 : option ks) (s : pool) : Prop := exists ls, run (init k0) ls = Some s.

Definition is_use (l : label) : bool := match l with UseKeyspace _ _ => true | _ => false end.
Definition no_use (ls : list label) : bool := forallb (fun l => negb (is_use l)) ls.

(* the server has acknowledged, on connection c, a keyspace whose name equals k's ignoring ASCII
   case - exactly what verify_use_keyspace_result establishes *)
Definition matchesb (s : pool) (c : nat) (k : ks) : bool :=
  match acked s c with Some n => eq_ci n (fst k) | None => false end.

(* ====================================================================================== *)
(* 3. The cluster worker: use-keyspace requests vs. metadata application                  *)
(* ====================================================================================== *)

(* ClusterWorker: node_config.used_keyspace, the node set of the published ClusterState, for every
   node object the keyspace its pool was constructed with, and the fan-outs performed so far
   (request id, keyspace, nodes of the state snapshot the request was sent to). *)
Record worker := mkWorker {
  used : option ks;
  nodes : list nat;
  born : nat -> option ks;
  nnext : nat;
  fans : list (nat * ks * list nat)
}.
Definition winit (n0 : nat) : worker :=
  mkWorker None (seq 0 n0) (fun _ => None) n0 [].

Inductive wlabel :=
| WUse (k : ks)                         (* use_keyspace_channel arm *)
| WApply (keep : list nat) (nnew : nat) (* metadata_updates arm (awaited to completion inside the arm):
                                           surviving nodes + nnew nodes created by ClusterState::new_updated *)
.
Definition wstep (w : worker) (l : wlabel) : worker :=
  match l with
  | WUse k =>
      mkWorker (Some k) (nodes w) (born w) (nnext w) (fans w ++ [(List.length (fans w), k, nodes w)])
  | WApply keep nnew =>
      let fresh := seq (nnext w) nnew in
      mkWorker (used w)
               (filter (fun n => mem n keep) (nodes w) ++ fresh)
               (fun n => if mem n fresh then used w else born w n)
               (nnext w + nnew)%nat (fans w)
  end.
Definition wrun (w : worker) (ls : list wlabel) : worker := fold_left wstep ls w.

(* ====================================================================================== *)
(* 4. Acceptor for end-to-end traces (mock cluster + client-side events)                   *)
(* ====================================================================================== *)

(* One event of a canonicalised trace, in the order of one global sequence counter:
   ECall u k      client: use_keyspace call u for verified name k starts
   ERet u ok      client: call u returned (ok = Ok(()))
   EStart q       client: request q starts (Session::query_* is called)
   EFrame q a     mock: the frame of request q arrives on a connection whose acknowledged keyspace
                  at that moment is a *)
Inductive ev :=
| ECall (u : nat) (k : ks)
| ERet (u : nat) (ok : bool)
| EStart (q : nat)
| EFrame (q : nat) (a : option name).

Definition oname_eqb (a b : option name) : bool :=
  match a, b with
  | None, None => true
  | Some x, Some y => name_eqb x y
  | _, _ => false
  end.
Definition omem (a : option name) (l : list (option name)) : bool := existsb (oname_eqb a) l.

(* acceptor state: the keyspaces a connection may legitimately be in now (`base`); the calls in
   flight, each with a flag "no other call has been in flight since it started"; for every started
   request its own allowed set (base at its start + every call made since); the canonical names of
   the current group of overlapping calls (from the moment a call starts with none in flight until
   none is in flight again) and whether all of its calls that returned so far returned Ok.
   `base` collapses to one keyspace after an undisturbed successful call, and to the names of the
   group after a group of overlapping calls that ALL returned Ok (each of them made every connection
   acknowledge its keyspace, so a connection can only be in one of those); otherwise it only grows. *)
Record acc := mkAcc {
  base : list (option name);
  inflight : list (nat * (ks * bool));
  open : list (nat * list (option name));
  group : list (option name);
  gok : bool
}.
Definition acc_init (k0 : option name) : acc := mkAcc [k0] [] [] [] true.

Fixpoint lookup_q (q : nat) (l : list (nat * list (option name))) : option (list (option name)) :=
  match l with
  | [] => None
  | (q', a) :: r => if Nat.eqb q q' then Some a else lookup_q q r
  end.
Fixpoint lookup_u (u : nat) (l : list (nat * (ks * bool))) : option (ks * bool) :=
  match l with
  | [] => None
  | (u', k) :: r => if Nat.eqb u u' then Some k else lookup_u u r
  end.

(* the calls that have started and not yet returned (specification vocabulary) *)
Fixpoint pending_calls (tr : list ev) (p : list nat) : list nat :=
  match tr with
  | [] => p
  | ECall u _ :: r => pending_calls r (u :: p)
  | ERet u _ :: r => pending_calls r (filter (fun x => negb (Nat.eqb x u)) p)
  | _ :: r => pending_calls r p
  end.
Definition is_call (e : ev) : bool := match e with ECall _ _ => true | _ => false end.
Definition no_call (tr : list ev) : bool := forallb (fun e => negb (is_call e)) tr.
Definition starts (q : nat) (e : ev) : bool := match e with EStart q' => Nat.eqb q q' | _ => false end.

Definition acc_step (a : acc) (e : ev) : option acc :=
  match e with
  | ECall u k =>
      let n := Some (canon k) in
      Some (mkAcc (n :: base a)
                  ((u, (k, match inflight a with [] => true | _ => false end))
                     :: map (fun x => (fst x, (fst (snd x), false))) (inflight a))
                  (map (fun qa => (fst qa, n :: snd qa)) (open a))
                  (match inflight a with [] => [n] | _ => n :: group a end)
                  (match inflight a with [] => true | _ => gok a end))
  | ERet u ok =>
      match lookup_u u (inflight a) with
      | None => None
      | Some (k, clean) =>
          let rest := filter (fun x => negb (Nat.eqb (fst x) u)) (inflight a) in
          if ok && clean
          then Some (mkAcc [Some (canon k)] rest (open a) [] true)   (* an undisturbed call succeeded *)
          else
            let g := gok a && ok in
            Some (mkAcc (match rest with
                         | [] => if g then group a else base a   (* a group of overlapping calls ended *)
                         | _ => base a
                         end) rest (open a) (group a) g)
      end
  | EStart q => Some (mkAcc (base a) (inflight a) ((q, base a) :: open a) (group a) (gok a))
  | EFrame q x =>
      match lookup_q q (open a) with
      | None => None
      | Some al => if omem x al then Some a else None
      end
  end.

Fixpoint acc_run (a : acc) (tr : list ev) : option acc :=
  match tr with
  | [] => Some a
  | e :: r => match acc_step a e with Some a' => acc_run a' r | None => None end
  end.
Definition accept_trace (k0 : option name) (tr : list ev) : bool :=
  match acc_run (acc_init k0) tr with Some _ => true | None => false end.

(* the index (position in the trace) of the first rejected event, for the driver's report *)
Fixpoint first_reject (a : acc) (tr : list ev) (i : nat) : option nat :=
  match tr with
  | [] => None
  | e :: r => match acc_step a e with Some a' => first_reject a' r (S i) | None => Some i end
  end.

(* ====================================================================================== *)
(* 5. The property itself as a predicate on a trace (what the driver evaluates before it   *)
(*    says `viol`): some request that STARTED while the keyspace was established - by a    *)
(*    call that began with no call in flight, was not overlapped, returned Ok, and no call *)
(*    has started since - arrives on a connection whose acknowledged keyspace is not it.   *)
(* ====================================================================================== *)

Record pv := mkPv {
  pv_pend : list nat;                (* calls in flight *)
  pv_cand : option (nat * ks);       (* the call in flight that started alone and is still alone *)
  pv_est : option ks;                (* the established keyspace *)
  pv_open : list (nat * ks)          (* requests started while established, with that keyspace *)
}.
Definition pv_init : pv := mkPv [] None None [].

Fixpoint pv_lookup (q : nat) (l : list (nat * ks)) : option ks :=
  match l with
  | [] => None
  | (q', k) :: r => if Nat.eqb q q' then Some k else pv_lookup q r
  end.

(* None = the property is violated at this event *)
Definition pv_step (p : pv) (e : ev) : option pv :=
  match e with
  | ECall u k =>
      Some (mkPv (u :: pv_pend p) (match pv_pend p with [] => Some (u, k) | _ => None end) None [])
  | ERet u ok =>
      let pend := filter (fun x => negb (Nat.eqb x u)) (pv_pend p) in
      match pv_cand p with
      | Some (u', k) =>
          if Nat.eqb u' u then Some (mkPv pend None (if ok then Some k else None) (pv_open p))
          else Some (mkPv pend (pv_cand p) (pv_est p) (pv_open p))
      | None => Some (mkPv pend None (pv_est p) (pv_open p))
      end
  | EStart q =>
      let rest := filter (fun x => negb (Nat.eqb (fst x) q)) (pv_open p) in
      Some (mkPv (pv_pend p) (pv_cand p) (pv_est p)
                 (match pv_est p with Some k => (q, k) :: rest | None => rest end))
  | EFrame q x =>
      match pv_lookup q (pv_open p) with
      | Some k => if oname_eqb x (Some (canon k)) then Some p else None
      | None => Some p
      end
  end.
Fixpoint pv_run (p : pv) (tr : list ev) : option pv :=
  match tr with
  | [] => Some p
  | e :: r => match pv_step p e with Some p' => pv_run p' r | None => None end
  end.
Definition prop_violb (tr : list ev) : bool :=
  match pv_run pv_init tr with Some _ => false | None => true end.

(* the same property, declaratively (the decomposition used by C20_accept_sound): the trace contains a
   call u for k that starts with no call in flight, no call starts before it returns Ok, none after
   that, a request q starts, and its frame arrives (q not restarted meanwhile) on a connection whose
   acknowledged keyspace is not the canonical name of k *)
Definition decl_viol (tr : list ev) : Prop :=
  exists t1 u k t2 t3 q t4 x t5,
    tr = t1 ++ ECall u k :: t2 ++ ERet u true :: t3 ++ EStart q :: t4 ++ EFrame q x :: t5 /\
    pending_calls t1 [] = [] /\ no_call t2 = true /\ no_call t3 = true /\ no_call t4 = true /\
    forallb (fun e => negb (starts q e)) t4 = true /\ x <> Some (canon k).
(* call u does not return inside t (well-formed traces: a call returns once) *)
Definition no_ret (u : nat) (t : list ev) : bool :=
  forallb (fun e => match e with ERet u' _ => negb (Nat.eqb u' u) | _ => true end) t.

(* ====================================================================================== *)
(* 6. The whole session: cluster worker x one pool per node.                               *)
(*    Session::use_keyspace -> ClusterWorker (use_keyspace_channel arm: used_keyspace,      *)
(*    snapshot of the node set, spawned fan-out task) -> Node::use_keyspace ->              *)
(*    NodeConnectionPool::use_keyspace (request channel of that pool's refiller) -> the     *)
(*    pool model of section 2; join_all + use_keyspace_result on the way back.              *)
(*    Node objects (and their pools) are indexed by a number that is never reused.          *)
(* ====================================================================================== *)

(* what the fan-out task knows about one target node: request not yet handed to the pool's
   refiller | handed over, it became pool-level use [u] there | the pool answered *)
Inductive fstatus := FWait | FSent (u : nat) | FAns (a : panswer).

(* the task spawned by the use_keyspace_channel arm *)
Record fan := mkFan { fid : nat; fks : ks; ftargets : list nat; fstat : nat -> fstatus }.

Record sys := mkSys {
  sused : option ks;                 (* node_config.used_keyspace *)
  snodes : list nat;                 (* known_nodes of the published ClusterState *)
  snnext : nat;
  spool : nat -> pool;               (* the pool of every node object ever created *)
  sfans : list fan;                  (* fan-out tasks that have not answered the caller *)
  sfnext : nat;
  slog : list (nat * bool)           (* what Session::use_keyspace returned: (call, is Ok) *)
}.
Definition yinit (n0 : nat) : sys :=
  mkSys None (seq 0 n0) n0 (fun _ => init None) [] 0 [].

Inductive ylabel :=
| YUse (raw : name) (cs : bool)          (* Session::use_keyspace: validation, worker arm *)
| YDeliver (f n : nat)                   (* the request of call f reaches the refiller of node n *)
| YPool (n : nat) (l : label)            (* any other step of node n's pool / its connections *)
| YApply (keep : list nat) (nnew : nat)  (* metadata application: surviving + newly created nodes *)
| YReturn (f : nat) (ok : bool)          (* join_all over the nodes finished; the caller is answered *)
| YPick (n c : nat).                     (* a request picks node n (of the current state), connection c *)

Definition is_wait (x : fstatus) : bool := match x with FWait => true | _ => false end.
Definition is_ans (x : fstatus) : bool := match x with FAns _ => true | _ => false end.
Definition fsent_is (u : nat) (x : fstatus) : bool :=
  match x with FSent u' => Nat.eqb u u' | _ => false end.
Definition set_fstat (g : fan) (n : nat) (v : fstatus) : fan :=
  mkFan (fid g) (fks g) (ftargets g) (upd (fstat g) n v).
Definition deliverable (f n : nat) (g : fan) : bool :=
  Nat.eqb (fid g) f && mem n (ftargets g) && is_wait (fstat g n).
Definition all_answered (g : fan) : bool := forallb (fun n => is_ans (fstat g n)) (ftargets g).
(* Node::use_keyspace hands the pool's answer through unchanged *)
Definition node_outcome (x : fstatus) : cres :=
  match x with FAns PAOk => COk | FAns PABroken => CBroken 0 | _ => CErr 0 end.
Definition fan_ok (g : fan) : bool :=
  match use_keyspace_result (map (fun n => node_outcome (fstat g n)) (ftargets g)) with
  | AOk => true | _ => false
  end.
(* the pool-level answer a step produces, if any *)
Definition answered_by (l : label) : option (nat * panswer) :=
  match l with
  | UseDone u a => Some (u, a)
  | UseTimeout u => Some (u, PAErr)
  | _ => None
  end.

Definition ystep (s : sys) (l : ylabel) : option sys :=
  match l with
  | YUse raw cs =>
      match make_verified raw cs with
      | Err _ => Some s
      | Ok k =>
          Some (mkSys (Some k) (snodes s) (snnext s) (spool s)
                      (sfans s ++ [mkFan (sfnext s) k (snodes s) (fun _ => FWait)])
                      (S (sfnext s)) (slog s))
      end
  | YDeliver f n =>
      match find (deliverable f n) (sfans s) with
      | None => None
      | Some g =>
          match make_verified (fst (fks g)) (snd (fks g)) with
          | Err _ => None
          | Ok _ =>
              match step (spool s n) (UseKeyspace (fst (fks g)) (snd (fks g))) with
              | None => None
              | Some p' =>
                  let u := unext (spool s n) in
                  Some (mkSys (sused s) (snodes s) (snnext s) (upd (spool s) n p')
                              (map (fun h => if deliverable f n h then set_fstat h n (FSent u) else h) (sfans s))
                              (sfnext s) (slog s))
              end
          end
      end
  | YPool n l =>
      if is_use l then None
      else match step (spool s n) l with
           | None => None
           | Some p' =>
               let fans' := match answered_by l with
                            | Some (u, a) =>
                                map (fun h => if fsent_is u (fstat h n) then set_fstat h n (FAns a) else h) (sfans s)
                            | None => sfans s
                            end in
               Some (mkSys (sused s) (snodes s) (snnext s) (upd (spool s) n p') fans' (sfnext s) (slog s))
           end
  | YApply keep nnew =>
      let fresh := seq (snnext s) nnew in
      Some (mkSys (sused s) (filter (fun n => mem n keep) (snodes s) ++ fresh) (snnext s + nnew)%nat
                  (fun n => if mem n fresh then init (sused s) else spool s n)
                  (sfans s) (sfnext s) (slog s))
  | YReturn f ok =>
      match find (fun g => Nat.eqb (fid g) f && all_answered g) (sfans s) with
      | None => None
      | Some g =>
          match ftargets g with
          | [] => None                     (* use_keyspace_result on an empty iterator panics *)
          | _ =>
              if Bool.eqb ok (fan_ok g)
              then Some (mkSys (sused s) (snodes s) (snnext s) (spool s)
                               (filter (fun h => negb (Nat.eqb (fid h) f && all_answered h)) (sfans s))
                               (sfnext s) (slog s ++ [(f, ok)]))
              else None
          end
      end
  | YPick n c =>
      if mem n (snodes s) then
        match ph (spool s n) c with InPool => Some s | _ => None end
      else None
  end.

Fixpoint yrun (s : sys) (ls : list ylabel) : option sys :=
  match ls with
  | [] => Some s
  | l :: r => match ystep s l with Some s' => yrun s' r | None => None end
  end.
Definition is_yuse (l : ylabel) : bool := match l with YUse _ _ => true | _ => false end.
Definition no_yuse (ls : list ylabel) : bool := forallb (fun l => negb (is_yuse l)) ls.

(* ====================================================================================== *)
(* 7. An honest server: a USE it accepts is answered with the canonical name of the        *)
(*    keyspace asked for (used to state what overlapping calls guarantee)                  *)
(* ====================================================================================== *)
Definition honest_reply (k : ks) (r : reply) : bool :=
  match r with RSetKeyspace n => name_eqb n (canon k) | _ => true end.
Definition honest_label (s : pool) (l : label) : bool :=
  match l with
  | SetKsDone c (Some r) _ _ => match ph s c with Setting k => honest_reply k r | _ => true end
  | UseAck c r => match wire s c with (_, k) :: _ => honest_reply k r | [] => true end
  | _ => true
  end.
(* run with an honest server *)
Fixpoint hrun (s : pool) (ls : list label) : option pool :=
  match ls with
  | [] => Some s
  | l :: r => if honest_label s l
              then match step s l with Some s' => hrun s' r | None => None end
              else None
  end.

(* ====================================================================================== *)
(* 8. USE statement texts seen by the server: what violates the second sentence of the     *)
(*    property (an invalid keyspace name is never interpolated into a statement)           *)
(* ====================================================================================== *)

Definition is_alpha (c : N) : bool := existsb (N.eqb c) alphabet.
(* characters that cannot smuggle anything in: identifier characters, blank, double quote, semicolon *)
Definition benign (c : N) : bool := is_alpha c || (c =? 32) || (c =? 34) || (c =? 59).

(* the maximal runs of identifier characters of a text, in order ([cur] = the run being read, reversed) *)
Fixpoint runs (cur : name) (t : name) : list name :=
  match t with
  | [] => match cur with [] => [] | _ => [rev cur] end
  | c :: r => if is_alpha c then runs (c :: cur) r
              else match cur with [] => runs [] r | _ => rev cur :: runs [] r end
  end.
Definition idents (t : name) : list name := runs [] t.
Definition kw_use : name := [85; 83; 69].      (* "USE" *)
Definition name_mem (i : name) (l : list name) : bool := existsb (name_eqb i) l.

(* a text that is not the model's but does no harm: only benign characters, and its identifiers are the
   keyword USE (any case) followed by at least one name, all of them requested valid names *)
Definition harmless (requested : list name) (t : name) : bool :=
  forallb benign t &&
  match idents t with
  | kw :: rest => eq_ci kw kw_use && (match rest with [] => false | _ => true end) &&
                  forallb (fun i => name_mem i requested) rest
  | [] => false
  end.

Inductive tverdict := TOk | TDiff | TViol.
(* verdict on one statement text, given the VALID names handed to use_keyspace so far *)
Definition text_verdict (callk : list ks) (t : name) : tverdict :=
  if name_mem t (map use_statement callk) then TOk
  else if harmless (map fst callk) t then TDiff else TViol.
(* the first text that is not the model's decides *)
Fixpoint texts_verdict (callk : list ks) (ts : list name) : tverdict * name :=
  match ts with
  | [] => (TOk, [])
  | t :: r => match text_verdict callk t with TOk => texts_verdict callk r | v => (v, t) end
  end.
