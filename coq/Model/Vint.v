(* Model of the vint / zig-zag codec of scylla-cql-core/src/frame/types.rs (l. 255-305), used by
   CQL `duration` values and by vectors with variable-width elements (property C01).
   Executable definitions only; proofs are in Proofs/Vint_proofs.v.

   Rust types: the unsigned codec works on u64 (here N, callers pass values < 2^64), the signed
   one on i64 (here Z in [-2^63, 2^63)).  Every wrap-around of the Rust code is explicit. *)
From SV Require Import Base.Prelude Base.Bytes.
Open Scope N_scope.

Definition two64 : N := 2 ^ 64.

(* ---- zig-zag ------------------------------------------------------------------------- *)

(* `(v << 1)` on i64: the top bit is shifted out, the result is re-read as signed *)
Definition shl1_i64 (v : Z) : Z := to_signed 64 (wrap_bits 64 (2 * v)).

(* fn zig_zag_encode(v: i64) -> u64 { ((v >> 63) ^ (v << 1)) as u64 }
   `v >> 63` is the arithmetic shift (0 or -1); `as u64` re-reads the i64 as unsigned. *)
Definition zigzag_encode (v : Z) : N :=
  wrap_bits 64 (Z.lxor (Z.shiftr v 63) (shl1_i64 v)).

(* fn zig_zag_decode(v: u64) -> i64 { ((v >> 1) as i64) ^ -((v & 1) as i64) } *)
Definition zigzag_decode (v : N) : Z :=
  Z.lxor (Z.of_N (v / 2)) (- Z.of_N (v mod 2)).

(* specification (protocol v5 §3 "[vint]"): non-negative n -> 2n, negative n -> -2n-1 *)
Definition spec_zigzag (v : Z) : N :=
  if (v <? 0)%Z then Z.to_N (- 2 * v - 1) else Z.to_N (2 * v).

(* ---- unsigned vint: encoder ------------------------------------------------------------ *)

(* u64::leading_zeros *)
Definition lz64 (v : N) : N := if v =? 0 then 64 else 63 - N.log2 v.

(* `(639 - 9 * v.leading_zeros()) >> 6` *)
Definition uvint_nbytes (v : N) : N := (639 - 9 * lz64 v) / 64.

(* `(length_bits as u64) << (8 * extra_bytes)` where `length_bits = !(0xff >> extra_bytes)`.
   The literal is an i32, so `!` yields the negative number -(2^(8-extra)); `as u64`
   sign-extends it to 2^64 - 2^(8-extra); the shift drops what leaves the 64-bit word. *)
Definition uvint_mask (extra : N) : N := ((two64 - 2 ^ (8 - extra)) * 2 ^ (8 * extra)) mod two64.

(* pub(crate) fn unsigned_vint_encode(v: u64, buf: &mut Vec<u8>) *)
Definition uvint_encode (v : N) : bytes :=
  let nb := uvint_nbytes v in
  if nb <=? 1 then [v mod 256]                                      (* buf.put_u8(v as u8) *)
  else if negb (nb =? 9) then
    let extra := nb - 1 in
    be_enc (N.to_nat nb) (N.lor v (uvint_mask extra))               (* v |= ...; put_uint(v, nb) *)
  else 255 :: be_enc 8 v.                                           (* put_u8(0xff); put_uint(v, 8) *)

(* pub(crate) fn vint_encode(v: i64, buf) *)
Definition vint_encode (v : Z) : bytes := uvint_encode (zigzag_encode v).

(* ---- unsigned vint: decoder ------------------------------------------------------------ *)

(* u8::leading_ones *)
Definition leading_ones8 (b : N) : N :=
  if b <? 128 then 0 else if b <? 192 then 1 else if b <? 224 then 2 else if b <? 240 then 3
  else if b <? 248 then 4 else if b <? 252 then 5 else if b <? 254 then 6 else if b <? 255 then 7
  else 8.

(* pub(crate) fn unsigned_vint_decode(buf: &mut &[u8]) -> Result<u64, io::Error>
   None = the io::Error (buffer exhausted); Some (value, remaining buffer) otherwise. *)
Definition uvint_decode (b : bytes) : option (N * bytes) :=
  match b with
  | [] => None                                                      (* read_u8 fails *)
  | first :: r =>
      let extra := leading_ones8 first in
      let v0 := if negb (extra =? 8)
                then (first mod 2 ^ (8 - extra)) * 2 ^ (8 * extra)  (* (first & (0xff >> extra)) << (8*extra) *)
                else 0 in
      if extra =? 0 then Some (v0, r)
      else match take (N.to_nat extra) r with                       (* read_uint::<BigEndian>(extra) *)
           | None => None
           | Some (x, r') => Some (v0 + be_dec x, r')
           end
  end.

(* pub(crate) fn vint_decode(buf) *)
Definition vint_decode (b : bytes) : option (Z * bytes) :=
  match uvint_decode b with
  | None => None
  | Some (u, r) => Some (zigzag_decode u, r)
  end.

(* ---- specification (protocol v5 §3 "[unsigned vint]") -------------------------------------
   The number of bytes is determined by the magnitude: values below 2^7 take one byte, below
   2^14 two, ... below 2^56 eight, anything larger nine.  A k-byte encoding (k <= 8) starts
   with k-1 one bits followed by a zero bit, then the value in the remaining 7k bits,
   big-endian; the 9-byte encoding is the byte 0xff followed by the 64-bit value. *)
Definition spec_uvint_len (v : N) : N :=
  if v <? 2 ^ 7 then 1 else if v <? 2 ^ 14 then 2 else if v <? 2 ^ 21 then 3
  else if v <? 2 ^ 28 then 4 else if v <? 2 ^ 35 then 5 else if v <? 2 ^ 42 then 6
  else if v <? 2 ^ 49 then 7 else if v <? 2 ^ 56 then 8 else 9.

Definition spec_uvint (v : N) : bytes :=
  let k := spec_uvint_len v in
  if k <=? 8
  then be_enc (N.to_nat k) ((256 - 2 ^ (9 - k)) * 256 ^ (k - 1) + v)
  else 255 :: be_enc 8 v.

Definition spec_vint (v : Z) : bytes := spec_uvint (spec_zigzag v).
