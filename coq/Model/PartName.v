(* Model of the partitioner selection of property C03:
     scylla/src/routing/partitioner.rs   PartitionerName::from_str
     scylla/src/client/session.rs        Session::prepare: extract_partitioner_name(..)
                                         .and_then(PartitionerName::from_str).unwrap_or_default()
     scylla/src/cluster/state.rs         do_compute_token: the same expression
   A name is a Coq [string] (one ascii per UTF-8 byte).  Executable definitions only; proofs
   are in Proofs/PartName_proofs.v. *)
From SV Require Import Base.Prelude Model.Murmur.
From Coq Require Import Ascii String.

Fixpoint is_prefix (p l : list ascii) : bool :=
  match p, l with
  | [], _ => true
  | a :: p', b :: l' => Ascii.eqb a b && is_prefix p' l'
  | _ :: _, [] => false
  end.

(* str::ends_with *)
Definition ends_with (s suffix : string) : bool :=
  is_prefix (rev (list_ascii_of_string suffix)) (rev (list_ascii_of_string s)).

Definition murmur3_suffix : string := "Murmur3Partitioner".
Definition cdc_suffix : string := "CDCPartitioner".

(* PartitionerName::from_str *)
Definition partitioner_from_str (name : string) : option partitioner :=
  if ends_with name murmur3_suffix then Some PMurmur3
  else if ends_with name cdc_suffix then Some PCdc
  else None.

(* `name.and_then(PartitionerName::from_str).unwrap_or_default()`; name = the partitioner
   column of the table's metadata, None when the table (or the column) is unknown;
   PartitionerName::default() = Murmur3 *)
Definition table_partitioner (name : option string) : partitioner :=
  match name with
  | Some s => match partitioner_from_str s with Some p => p | None => PMurmur3 end
  | None => PMurmur3
  end.

(* SPECIFICATION (property text: "tables using the CDC partitioner get the CDC token"): the
   partitioner classes a table can name *)
Definition murmur3_class : string := "org.apache.cassandra.dht.Murmur3Partitioner".
Definition cdc_class : string := "com.scylladb.dht.CDCPartitioner".
Definition random_class : string := "org.apache.cassandra.dht.RandomPartitioner".

(* ---- the chain from the metadata rows to the hasher of a prepared statement ---------------
     scylla/src/cluster/metadata/fetching.rs  query_table_partitioners, query_tables
     scylla/src/client/session.rs             Session::prepare, extract_partitioner_name *)

(* one row of `SELECT keyspace_name, table_name, partitioner FROM system_schema.scylla_tables` *)
Definition st_row : Type := (string * string) * option string.

(* rows.try_collect::<HashMap<(keyspace, table), Option<String>>>(): a later row with the same
   key replaces an earlier one; then `.remove(&(ks, table))` *)
Fixpoint partitioners_get (rows : list st_row) (ks t : string) (acc : option (option string))
  : option (option string) :=
  match rows with
  | [] => acc
  | ((k, n), p) :: r =>
      if (String.eqb k ks && String.eqb n t)%bool then partitioners_get r ks t (Some p)
      else partitioners_get r ks t acc
  end.

(* Table.partitioner = all_partitioners.remove(&keyspace_and_table_name).unwrap_or_default();
   [scylla_tables] = None when the query is answered with DbError::Invalid (Cassandra: the
   table does not exist), which the driver turns into an empty map *)
Definition table_meta_partitioner (scylla_tables : option (list st_row)) (ks t : string)
  : option string :=
  match scylla_tables with
  | None => None
  | Some rows => match partitioners_get rows ks t None with Some p => p | None => None end
  end.

(* Session::prepare: table_spec = the statement's table (None without bind columns),
   in_metadata = keyspaces.get(ks)?.tables.get(table)? succeeds *)
Definition prepared_partitioner (scylla_tables : option (list st_row)) (in_metadata : bool)
    (table_spec : option (string * string)) : partitioner :=
  match table_spec with
  | None => PMurmur3
  | Some (ks, t) =>
      if in_metadata then table_partitioner (table_meta_partitioner scylla_tables ks t)
      else PMurmur3
  end.

(* concrete names and rows used by the Examples of Props/C03.v *)
Definition ex_ks : string := "ks".
Definition ex_other : string := "other".
Definition ex_log : string := "log".
Definition ex_t : string := "t".
Definition ex_u : string := "u".
Definition ex_rows : list st_row :=
  [((ex_ks, ex_log), Some murmur3_class); ((ex_ks, ex_t), None); ((ex_ks, ex_log), Some cdc_class);
   ((ex_other, ex_log), Some murmur3_class)].

(* ---- the three schema fetch modes of a Session (session.rs: fetch_schema_metadata,
        fetch_full_schema_metadata -> SchemaMetadataFetchMode; fetching.rs fetch_metadata) ------
   Disabled: no keyspace is fetched, so extract_partitioner_name finds nothing.
   Minimal : the Table entries are built from the scylla_tables rows themselves.
   Full    : the Table entries are built from the column rows (query_tables_schema), each taking
             `all_partitioners.remove(..).unwrap_or_default()`; a table listed in
             system_schema.tables that has no column rows gets an empty Table, partitioner None.
   In Minimal and Full a table is in the metadata iff system_schema.tables lists it
   ([in_tables], query_tables). *)
Inductive fetch_mode := FetchDisabled | FetchMinimal | FetchFull.

Definition session_partitioner (fm : fetch_mode) (scylla_tables : option (list st_row))
    (in_tables has_columns : bool) (table_spec : option (string * string)) : partitioner :=
  match fm with
  | FetchDisabled => PMurmur3
  | FetchMinimal => prepared_partitioner scylla_tables in_tables table_spec
  | FetchFull =>
      if has_columns then prepared_partitioner scylla_tables in_tables table_spec else PMurmur3
  end.
