(* Model of the partitioner selection of property C03:
     scylla/src/routing/partitioner.rs   PartitionerName::from_str
     scylla/src/client/session.rs        Session::prepare: extract_partitioner_name(..)
                                         .and_then(PartitionerName::from_str).unwrap_or_default()
     scylla/src/cluster/state.rs         do_compute_token: the same expression
   A name is a Coq [string] (one ascii per UTF-8 byte).  Executable definitions only; proofs
   are in Proofs/PartName_proofs.v. *)
From SV Require Import Base.Prelude Model.Murmur.
From Coq Require Import Ascii String.

Fixpoint is_prefix (p l : list ascii) : bool :=
  match p, l with
  | [], _ => true
  | a :: p', b :: l' => Ascii.eqb a b && is_prefix p' l'
  | _ :: _, [] => false
  end.

(* str::ends_with *)
Definition ends_with (s suffix : string) : bool :=
  is_prefix (rev (list_ascii_of_string suffix)) (rev (list_ascii_of_string s)).

Definition murmur3_suffix : string := "Murmur3Partitioner".
Definition cdc_suffix : string := "CDCPartitioner".

(* PartitionerName::from_str *)
Definition partitioner_from_str (name : string) : option partitioner :=
  if ends_with name murmur3_suffix then Some PMurmur3
  else if ends_with name cdc_suffix then Some PCdc
  else None.

(* `name.and_then(PartitionerName::from_str).unwrap_or_default()`; name = the partitioner
   column of the table's metadata, None when the table (or the column) is unknown;
   PartitionerName::default() = Murmur3 *)
Definition table_partitioner (name : option string) : partitioner :=
  match name with
  | Some s => match partitioner_from_str s with Some p => p | None => PMurmur3 end
  | None => PMurmur3
  end.

(* SPECIFICATION (property text: "tables using the CDC partitioner get the CDC token"): the
   partitioner classes a table can name *)
Definition murmur3_class : string := "org.apache.cassandra.dht.Murmur3Partitioner".
Definition cdc_class : string := "com.scylladb.dht.CDCPartitioner".
Definition random_class : string := "org.apache.cassandra.dht.RandomPartitioner".
