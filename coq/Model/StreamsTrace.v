(* C02, second model file (executable definitions only; proofs in Proofs/StreamsTrace_proofs.v).

   Part 4  ResponseHandlerMap WITH the clock: OrphanageTracker (connection.rs 2317-2355) keeps the
           Instant at which each id was orphaned; old_orphans_count (2408-2411).  The clock is an
           abstract label [now : N] (nanoseconds of a monotonic clock) carried by each operation.
   Part 5  what an outside observer sees of one connection (the requests the callers submit, the
           frames the peer receives and sends, what the callers get back) and the acceptor
           [c02_trace_ok] for such a history, used by the end-to-end tie.
   Part 6  the frame reader seen as a function on the received byte stream: reuse of the reader
           model of Model/ConnFail.v ([parse_frame]), iterated. *)
From SV Require Import Base.Prelude Model.Streams.
From SV Require Model.ConnFail.
Open Scope N_scope.

(* ---------------------------------------------------------------- Part 4: the map with ages *)

Definition pair_eqb (a b : N * N) : bool := (fst a =? fst b) && (snd a =? snd b).

(* struct OrphanageTracker { orphans: HashMap<i16, Instant>, by_orphaning_times: BTreeSet<(Instant, i16)> } *)
Record otrack := mk_otrack {
  ot_orphans : list (N * N);      (* stream id -> time it was orphaned *)
  ot_by : list (N * N)            (* the set of (time, stream id) *)
}.
Definition ot_new : otrack := mk_otrack [] [].

(* insert: `now = Instant::now(); orphans.insert(id, now); by_orphaning_times.insert((now, id))` *)
Definition ot_insert (o : otrack) (sid now : N) : otrack :=
  mk_otrack (aput sid now (ot_orphans o))
            (if existsb (pair_eqb (now, sid)) (ot_by o) then ot_by o else (now, sid) :: ot_by o).

(* remove: `if let Some(time) = orphans.remove(&id) { by_orphaning_times.remove(&(time, id)) }` *)
Definition ot_remove (o : otrack) (sid : N) : otrack :=
  match aget sid (ot_orphans o) with
  | Some t => mk_otrack (arem sid (ot_orphans o))
                        (filter (fun e => negb (pair_eqb e (t, sid))) (ot_by o))
  | None => o
  end.

Definition ot_contains (o : otrack) (sid : N) : bool :=
  match aget sid (ot_orphans o) with Some _ => true | None => false end.

(* orphans_older_than(age): `minimal_age = Instant::now() - age;
   by_orphaning_times.range(..(minimal_age, i16::MAX)).count()` -- tuples below (minimal_age, 32767)
   in the lexicographic order.  (Instant - Duration panics below the clock's origin; the clock of a
   machine that has been up for more than [age] never is: [now - age] is the truncated
   subtraction.) *)
Definition is_old (minimal : N) (e : N * N) : bool :=
  (fst e <? minimal) || ((fst e =? minimal) && (snd e <? 32767)).
Definition ot_older_than (o : otrack) (now age : N) : N :=
  N.of_nat (List.length (filter (is_old (now - age)) (ot_by o))).

Definition old_age_ns : N := 1000000000.         (* OLD_AGE_ORPHAN_THRESHOLD = 1 s *)
Definition old_count_threshold : N := 1024.      (* OLD_ORPHAN_COUNT_THRESHOLD *)

Record thmap := mk_thmap {
  th_words : list N;
  th_handlers : nmap (N * N);
  th_r2s : nmap N;
  th_ot : otrack
}.
Definition th_new : thmap := mk_thmap sid_new mempty mempty ot_new.

(* ResponseHandlerMap::allocate: no clock is read, the orphanage is not looked at *)
Definition th_allocate (t : thmap) (rid tok : N) : thmap * alloc_res :=
  match sid_alloc (th_words t) with
  | Some (sid, ws') =>
      let t' := mk_thmap ws' (mput sid (rid, tok) (th_handlers t)) (mput rid sid (th_r2s t))
                         (th_ot t) in
      match mget sid (th_handlers t) with
      | None => (t', AllocOk sid)
      | Some _ => (t', AllocPanic)
      end
  | None => (t, AllocFull)
  end.

(* ResponseHandlerMap::orphan: the only place where the clock is stored *)
Definition th_orphan (t : thmap) (now rid : N) : thmap :=
  match mget rid (th_r2s t) with
  | Some sid => mk_thmap (th_words t) (mrem sid (th_handlers t)) (mrem rid (th_r2s t))
                         (ot_insert (th_ot t) sid now)
  | None => t
  end.

Definition th_lookup (t : thmap) (sid : N) : thmap * lookup_res :=
  let ws := sid_free (th_words t) sid in
  if ot_contains (th_ot t) sid then
    (mk_thmap ws (th_handlers t) (th_r2s t) (ot_remove (th_ot t) sid), LOrphaned)
  else
    match mget sid (th_handlers t) with
    | Some (rid, tok) =>
        (mk_thmap ws (mrem sid (th_handlers t)) (mrem rid (th_r2s t)) (th_ot t), LHandler rid tok)
    | None => (mk_thmap ws (th_handlers t) (th_r2s t) (th_ot t), LMissing)
    end.

(* ResponseHandlerMap::old_orphans_count *)
Definition th_old_orphans_count (t : thmap) (now : N) : N := ot_older_than (th_ot t) now old_age_ns.

Definition th_holds (t : thmap) (tok : N) : bool :=
  existsb (fun e => snd (snd e) =? tok) (melements (th_handlers t)).

(* an operation with the reading of the clock at the moment it runs *)
Inductive top := TOp (o : op) (now : N) | TCount (now : N).
Inductive top_res := TRes (r : op_res) | TCnt (n : N).

Definition th_step (t : thmap) (o : top) : thmap * top_res :=
  match o with
  | TOp (OpAlloc rid tok) _ => let '(t', r) := th_allocate t rid tok in (t', TRes (RAlloc r tok))
  | TOp (OpOrphan rid) now => (th_orphan t now rid, TRes RUnit)
  | TOp (OpLookup sid) _ => let '(t', r) := th_lookup t sid in (t', TRes (RLookup r))
  | TOp (OpProbe tok) _ => (t, TRes (RProbe (th_holds t tok)))
  | TCount now => (t, TCnt (th_old_orphans_count t now))
  end.

Fixpoint th_run (t : thmap) (ops : list top) : thmap * list top_res :=
  match ops with
  | [] => (t, [])
  | o :: r => let '(t1, x) := th_step t o in
              let '(t2, xs) := th_run t1 r in (t2, x :: xs)
  end.

(* forgetting the clock *)
Definition untimed (ops : list top) : list op :=
  flat_map (fun o => match o with TOp o _ => [o] | TCount _ => [] end) ops.
Definition untimed_res (rs : list top_res) : list op_res :=
  flat_map (fun r => match r with TRes r => [r] | TCnt _ => [] end) rs.
(* the same operations with other clock readings *)
Fixpoint same_ops (a b : list top) : Prop :=
  match a, b with
  | [], [] => True
  | TOp o _ :: a', TOp o' _ :: b' => o = o' /\ same_ops a' b'
  | TCount _ :: a', TCount _ :: b' => same_ops a' b'
  | _, _ => False
  end.
(* the untimed view of a timed map *)
Definition th_erase (t : thmap) : hmap :=
  mk_hmap (th_words t) (th_handlers t) (th_r2s t) (map fst (ot_orphans (th_ot t))).

(* ---------------------------------------------------------------- Part 5: observed histories *)

(* what a caller gets back *)
Inductive cout :=
| ORows (m : N)       (* a result whose row carries marker m *)
| OErrAlloc           (* UnableToAllocStreamId *)
| OOther.             (* any other error *)

(* One history, in the order of a common clock.  A request is named by its marker (the model's
   request id). *)
Inductive ev :=
| ESub (m : N)              (* a caller submits request m *)
| EIn (sid m : N)           (* the peer received a request frame on stream sid carrying marker m *)
| EOut (sid m : N)          (* the peer sends a response on stream sid built for marker m *)
| EDone (m : N) (o : cout). (* the caller of m got o *)

Definition cout_of (o : outcome) : cout :=
  match o with Resp a => ORows a | ErrAlloc => OErrAlloc | ErrBroken => OOther end.

(* the history of a run of the connection model *)
Definition obs_step (s : conn) (l : label) : list ev :=
  match l with
  | Submit | SubmitDropped => [ESub (c_next_rid s)]
  | PeerRecv => match c_writing s with (sid, rid) :: _ => [EIn sid rid] | [] => [] end
  | PeerAnswer sid =>
      match extract sid (c_owed s) with Some (rid, _) => [EOut sid rid] | None => [] end
  | Complete rid =>
      match aget rid (c_mailbox s) with
      | Some o => [EDone rid (cout_of o)]
      | None => [EDone rid OOther]
      end
  | _ => []
  end.

Fixpoint obs_run (s : conn) (ls : list label) : list ev :=
  match ls with
  | [] => []
  | l :: r => match step s l with
              | Some s' => obs_step s l ++ obs_run s' r
              | None => []
              end
  end.

Definition mhas {V : Type} (k : N) (m : nmap V) : bool :=
  match mget k m with Some _ => true | None => false end.

(* state of the acceptor while it scans a history *)
Record acc := mk_acc {
  a_pos : N;                  (* number of events seen *)
  a_sub : nmap N;             (* marker -> position of its ESub *)
  a_recv : nmap N;            (* marker -> stream id its frame was received with *)
  a_owed : nmap N;            (* stream id -> marker: received by the peer and not yet answered *)
  a_ans : nmap N;             (* marker -> stream id: answered by the peer *)
  a_done : nmap (N * cout)    (* marker -> position of its EDone, outcome *)
}.
Definition acc_init : acc := mk_acc 0 mempty mempty mempty mempty mempty.

(* The property, event by event:
   ESub   a marker is submitted once;
   EIn    the stream id is below 32768 and is NOT carried by another request the peer has not
          answered yet (abandoned or not: the acceptor does not even know which callers were
          dropped); the request was submitted, is written once, and not after its caller got a
          final answer;
   EOut   the peer answers a request it received, on the stream it came with;
   EDone  one outcome per caller; rows: the caller's own marker, and the peer has sent that answer
          before; UnableToAllocStreamId: the request was never written (rest: [exhaust_ok]). *)
Definition acc_step (a : acc) (e : ev) : option acc :=
  let p := a_pos a in
  match e with
  | ESub m =>
      if mhas m (a_sub a) then None
      else Some (mk_acc (p + 1) (mput m p (a_sub a)) (a_recv a) (a_owed a) (a_ans a) (a_done a))
  | EIn sid m =>
      if (sid <? nids) && mhas m (a_sub a) && negb (mhas m (a_recv a)) &&
         negb (mhas m (a_done a)) && negb (mhas sid (a_owed a))
      then Some (mk_acc (p + 1) (a_sub a) (mput m sid (a_recv a)) (mput sid m (a_owed a))
                        (a_ans a) (a_done a))
      else None
  | EOut sid m =>
      match mget sid (a_owed a) with
      | Some m' =>
          if m' =? m
          then Some (mk_acc (p + 1) (a_sub a) (a_recv a) (mrem sid (a_owed a))
                            (mput m sid (a_ans a)) (a_done a))
          else None
      | None => None
      end
  | EDone m o =>
      if mhas m (a_sub a) && negb (mhas m (a_done a)) &&
         match o with
         | ORows m' => (m' =? m) && mhas m (a_ans a)
         | OErrAlloc => negb (mhas m (a_recv a))
         | OOther => true
         end
      then Some (mk_acc (p + 1) (a_sub a) (a_recv a) (a_owed a) (a_ans a)
                        (mput m (p, o) (a_done a)))
      else None
  end.

Fixpoint acc_run (a : acc) (evs : list ev) : option acc :=
  match evs with
  | [] => Some a
  | e :: r => match acc_step a e with Some a' => acc_run a' r | None => None end
  end.

(* [forall_below n f]: f holds for 0 .. n-1 (n is 32768 here: no nat of that size) *)
Definition forall_below (n : N) (f : N -> bool) : bool :=
  N.peano_rect (fun _ => bool) true (fun i r => f i && r) n.

(* UnableToAllocStreamId for request m (submitted at position pm, outcome seen at position pdm) is
   justified when every one of the 32768 stream ids was possibly still reserved at some moment
   between the two: the id was carried by another request r that was submitted before m's
   outcome, whose caller had not got a final answer before m was submitted (the only moment known
   at which the id of r had certainly been read back), and that did reach the peer.  The clauses
   only use the orders "ESub before EDone" and "EDone before ESub", which survive stamping ESub
   too early and EDone too late. *)
Definition possibly_pending (a : acc) (m pm pdm : N) (e : N * N) : option N :=
  let '(r, ps) := e in
  if negb (r =? m) && (ps <? pdm) &&
     match mget r (a_done a) with Some (pd, _) => pm <? pd | None => true end
  then mget r (a_recv a) else None.

Definition sid_set (a : acc) (m pm pdm : N) : nmap unit :=
  fold_left (fun s e => match possibly_pending a m pm pdm e with
                        | Some sid => mput sid tt s
                        | None => s
                        end) (melements (a_sub a)) mempty.

Definition exhaust_ok (a : acc) (m : N) : bool :=
  match mget m (a_sub a), mget m (a_done a) with
  | Some pm, Some (pdm, OErrAlloc) =>
      negb (mhas m (a_recv a)) &&
      let st := sid_set a m pm pdm in forall_below nids (fun sid => mhas sid st)
  | _, _ => true
  end.

Definition final_ok (a : acc) : bool :=
  forallb (fun e => exhaust_ok a (fst e)) (melements (a_done a)).

Definition c02_trace_ok (evs : list ev) : bool :=
  match acc_run acc_init evs with
  | Some a => final_ok a
  | None => false
  end.

(* ---------------------------------------------------------------- Part 5b: the stream-id sentence on the map alone *)
(* The second sentence of the property on an observed operation sequence of the handler map, for
   ANY sequence -- request ids and tokens may repeat (where [sm_check] is not applicable): [st] =
   the ids handed out and not yet looked up (= answered by the peer).  An id handed out is below
   32768 and not outstanding; a refusal needs all 32768 ids outstanding; the assert never fires. *)
Definition ids_check_step (st : list N) (o : op) (r : op_res) : option (list N) :=
  match o, r with
  | OpAlloc _ _, RAlloc (AllocOk sid) _ =>
      if (sid <? nids) && negb (smem sid st) then Some (sid :: st) else None
  | OpAlloc _ _, RAlloc AllocFull _ =>
      if forall_below nids (fun j => smem j st) then Some st else None
  | OpLookup sid, RLookup _ => Some (srem sid st)
  | OpOrphan _, RUnit => Some st
  | OpProbe _, RProbe _ => Some st
  | _, _ => None
  end.

Fixpoint ids_check_from (st : list N) (ops : list op) (rs : list op_res) : bool :=
  match ops, rs with
  | [], [] => true
  | o :: ops', r :: rs' =>
      match ids_check_step st o r with
      | Some st' => ids_check_from st' ops' rs'
      | None => false
      end
  | _, _ => false
  end.
Definition ids_check (ops : list op) (rs : list op_res) : bool := ids_check_from [] ops rs.

(* ---------------------------------------------------------------- Part 6: the frame reader on a stream *)
(* read_response_frame called again and again on what the peer sent: each call consumes exactly
   9 + `length` bytes.  [parse_frame] is C10's model of read_response_frame. *)
Inductive rd_end := RdNeedMore (left : N) | RdBad (e : ConnFail.hdr_err).

Fixpoint read_frames (fuel : nat) (buf : list N) : list ConnFail.frame * rd_end :=
  match fuel with
  | O => ([], RdNeedMore (N.of_nat (List.length buf)))
  | S k =>
      match ConnFail.parse_frame buf with
      | ConnFail.NeedMore => ([], RdNeedMore (N.of_nat (List.length buf)))
      | ConnFail.Bad e => ([], RdBad e)
      | ConnFail.Got f rest => let '(fs, e) := read_frames k rest in (f :: fs, e)
      end
  end.

(* a well-formed response frame: what a v4 server writes *)
Definition frame_wf (f : ConnFail.frame) : Prop :=
  List.length (ConnFail.f_hdr f) = 9%nat /\
  N.land (ConnFail.f_version f) 128 = 128 /\ N.land (ConnFail.f_version f) 127 = 4 /\
  ConnFail.valid_opcode (ConnFail.f_opcode f) = true /\
  ConnFail.f_len f = N.of_nat (List.length (ConnFail.f_body f)).

(* ---------------------------------------------------------------- Part 7: what the runner really observes *)
(* The peer's events (EIn, EOut) are logged by one task in their real order; the callers' events are
   stamped by other threads -- ESub before the call, EDone after the return -- and merged in by
   time stamp: relative to the peer's events they can be anywhere (ESub earlier, EDone later than in
   the real history). *)
Definition is_mock (e : ev) : bool := match e with EIn _ _ | EOut _ _ => true | _ => false end.
Definition is_done (e : ev) : bool := match e with EDone _ _ => true | _ => false end.

(* [obs] is an observation of the real history [tr]: same peer events in the same order, every
   outcome that really happened is in the observation (anywhere) *)
Definition observes (tr obs : list ev) : Prop :=
  filter is_mock obs = filter is_mock tr /\
  (forall e, is_done e = true -> In e tr -> In e obs).

(* ---------------------------------------------------------------- Part 8: the reader's dispatch and the orphaner's tick *)
(* reader(): `match params.stream.cmp(&-1)`: stream ids below -1 are ignored, -1 is an event, only
   ids >= 0 reach `handler_map.lookup`.  [raw] = the u16 of the header (i16 s = raw - 65536 when
   raw >= 32768). *)
Inductive dispatch := DIgnore | DEvent | DLookup (sid : N).
Definition reader_dispatch (raw : N) : dispatch :=
  if raw <? 32768 then DLookup raw
  else if raw =? 65535 then DEvent else DIgnore.

(* orphaner(): on every tick of the 1 s interval
   `if old_orphans_count() > OLD_ORPHAN_COUNT_THRESHOLD { return Err(TooManyOrphanedStreamIds) }` *)
Definition orphaner_tick_breaks (t : thmap) (now : N) : bool :=
  old_count_threshold <? th_old_orphans_count t now.

(* pointwise order of two clock labellings of the same operations: orphans made later, counts and
   ticks read earlier in [a] than in [b] *)
Fixpoint stamps_le (a b : list top) : Prop :=
  match a, b with
  | [], [] => True
  | TOp (OpOrphan _) n :: a', TOp (OpOrphan _) n' :: b' => n' <= n /\ stamps_le a' b'
  | TOp _ _ :: a', TOp _ _ :: b' => stamps_le a' b'
  | TCount n :: a', TCount n' :: b' => n <= n' /\ stamps_le a' b'
  | _, _ => False
  end.
Definition res_le (x y : top_res) : Prop :=
  match x, y with
  | TRes r, TRes r' => r = r'
  | TCnt n, TCnt n' => n <= n'
  | _, _ => False
  end.

(* ---------------------------------------------------------------- Part 9: which ids are "old" *)
(* the time at which an id was orphaned (None: it is not in the orphanage) *)
Definition orphaned_since (t : thmap) (sid : N) : option N := aget sid (ot_orphans (th_ot t)).
(* the orphaned ids whose orphaning lies more than [old_age_ns] back at clock [now] (with the code's
   boundary: exactly [old_age_ns] back counts too, except for id 32767) *)
Definition old_ids (t : thmap) (now : N) : list N :=
  map fst (filter (fun e => is_old (now - old_age_ns) (snd e, fst e)) (ot_orphans (th_ot t))).

(* ---------------------------------------------------------------- Part 10: the runner's skew as a relation *)
(* [skew tr obs]: [obs] is [tr] with submissions moved earlier and outcomes moved later, by any
   number of adjacent swaps (ESub before the event in front of it, EDone behind the event after it). *)
Inductive skew : list ev -> list ev -> Prop :=
| skew_refl l : skew l l
| skew_sub l1 x m l2 : skew (l1 ++ x :: ESub m :: l2) (l1 ++ ESub m :: x :: l2)
| skew_done l1 m o x l2 : skew (l1 ++ EDone m o :: x :: l2) (l1 ++ x :: EDone m o :: l2)
| skew_trans l l' l'' : skew l l' -> skew l' l'' -> skew l l''.
