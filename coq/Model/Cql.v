(* Model of the CQL value codec of scylla-cql-core (property C01; reused by C17 and C08).

   Source files modelled (pinned commit of /repo):
     serialize/value.rs   `serialize_cql_value`, the native `SerializeValue` impls it calls,
                          `serialize_sequence/_mapping/_vector/_udt/_tuple_like`
     serialize/writers.rs `CellWriter` / `CellValueBuilder` (length prefix, null / unset markers,
                          the `write_size` flag of size-less sub-writers)
     deserialize/value.rs `DeserializeValue for CqlValue` and the impls it delegates to
                          (ListlikeIterator, MapIterator, VectorIterator, UdtIterator, tuple rule)
     deserialize/frame_slice.rs `read_cql_bytes`, `read_n_bytes`;  frame/types.rs `read_int`,
                          `read_bytes_opt`, `read_raw_bytes`
     frame/response/result.rs `ColumnType`, `NativeType`, `type_size_for_vector`,
                          `supports_special_empty_value`
     value.rs             `CqlValue` and the CQL-specific value structs

   Executable definitions only; lemmas and proofs are in Proofs/Cql_proofs.v, the property
   statements in Props/C01.v.  Layout of this file:
     1. types (ntype, ctype)          2. values (cval, cell)        3. type attributes
     4. serialiser (code)             5. deserialiser (code)        6. pad / wf / known classes
     7. specification `enc_spec` (written from the protocol text, not from the code)

   Conventions.  Bytes are [list N] (Base/Bytes.v).  Strings (text values, UDT / field / keyspace
   names) are their UTF-8 byte strings: Rust `String` equality is byte equality.  Fixed-width
   integers are Z, floats / doubles are their IEEE-754 bit patterns (N), so NaN payloads are
   ordinary values.  Rust's typed fields carry their ranges implicitly; here the ranges are part
   of [wf] and the encoders wrap (two's complement) outside them, which Rust cannot reach.

   State of /repo this model follows: pinned commit + fix b428ba8 (a zero-length last element of
   a vint-prefixed vector is an empty slice, see [deser_vec_var]).  Open findings modelled as they
   are: F2 (size-less sub-writers of vectors cannot express null / unset / empty, [ser_cell_ws],
   class [vector_hole]) and F14 (a zero-field tuple value is written as a zero-length cell, class
   [empty_tuple_inside]).

   Building on this file (C17, C08).  All recursion is structural on [ctype]; the tuple / UDT loops
   are nested [fix]es, so proofs go through the custom induction principle [ctype_ind'] and the
   top-level twins with unfolding equations in Proofs/Cql_proofs.v (sections 1-2: [ser_value_udt],
   [ser_value_tuple], [deser_value_eq], [pad_tuple], [wf_val_udt], ...).  Useful entry points:
   [ser_value] / [ser_cell] (errors are the leaf kinds of the real nested errors, in the order the
   code raises them), [deser_value] on an exact slice / [deser_cell] on a prefix, [wf] ("value of
   the type"), [size_only], [roundtrip_value], [conforms_value], [ser_total_value],
   [deser_value_no_oof].  The text form of types / values shared by ocaml/c01/driver.ml and
   harness/src/c01_text.rs is reusable as is. *)
From SV Require Import Base.Prelude Base.Bytes Model.Vint.
Open Scope N_scope.

(* ====================================================================================== *)
(* 1. Types: frame/response/result.rs                                                      *)
(* ====================================================================================== *)

(* enum NativeType, constructor for constructor (20 variants) *)
Inductive ntype :=
| NAscii | NBoolean | NBlob | NCounter | NDate | NDecimal | NDouble | NDuration | NFloat | NInt
| NBigInt | NText | NTimestamp | NInet | NSmallInt | NTinyInt | NTime | NTimeuuid | NUuid | NVarint.

Definition name := bytes.

(* enum ColumnType + CollectionType + UserDefinedType.  The `frozen` flags are dropped: no
   encoder or decoder reads them. *)
Inductive ctype :=
| TNative (n : ntype)
| TList (e : ctype)
| TSet (e : ctype)
| TMap (k v : ctype)
| TTuple (ts : list ctype)
| TUdt (ks nm : name) (fs : list (name * ctype))   (* keyspace, type name, (field name, type) *)
| TVector (e : ctype) (dim : N).                    (* dimensions : u16 *)

(* ====================================================================================== *)
(* 2. Values: value.rs `enum CqlValue`, constructor for constructor (28 variants)           *)
(* ====================================================================================== *)

Inductive cval :=
| CAscii (s : bytes)
| CBoolean (b : bool)
| CBlob (b : bytes)
| CCounter (z : Z)                          (* Counter(i64) *)
| CDecimal (scale : Z) (raw : bytes)        (* CqlDecimal { int_val: raw two's complement bytes, scale: i32 } *)
| CDate (d : N)                             (* CqlDate(u32): days since -5877641-06-23 *)
| CDouble (bits : N)                        (* f64::to_bits *)
| CDuration (months days nanos : Z)         (* i32, i32, i64 *)
| CEmpty
| CFloat (bits : N)                         (* f32::to_bits *)
| CInt (z : Z)
| CBigInt (z : Z)
| CText (s : bytes)
| CTimestamp (z : Z)                        (* CqlTimestamp(i64) *)
| CInet (b : bytes)                         (* IpAddr: 4 or 16 octets *)
| CList (l : list cval)
| CMap (l : list (cval * cval))
| CSet (l : list cval)
| CUdt (ks nm : name) (fields : list (name * option cval))
| CSmallInt (z : Z)
| CTinyInt (z : Z)
| CTime (z : Z)                             (* CqlTime(i64) *)
| CTimeuuid (b : bytes)                     (* 16 bytes *)
| CTuple (l : list (option cval))
| CUuid (b : bytes)                         (* 16 bytes *)
| CVarint (raw : bytes)                     (* CqlVarint: raw two's complement bytes, not normalised *)
| CVector (l : list cval).

(* what a bind marker / a `[value]` can hold: Option::None, Unset / MaybeUnset::Unset, a value *)
Inductive cell :=
| CNull
| CUnset
| CVal (v : cval).

(* ====================================================================================== *)
(* 3. Type attributes                                                                      *)
(* ====================================================================================== *)

(* NativeType::type_size_for_vector *)
Definition native_vec_size (n : ntype) : option N :=
  match n with
  | NBoolean => Some 1
  | NDouble => Some 8
  | NFloat => Some 4
  | NInt => Some 4
  | NBigInt => Some 8
  | NTimestamp => Some 8
  | NTimeuuid => Some 16
  | NUuid => Some 16
  | NAscii | NBlob | NCounter | NDate | NDecimal | NDuration | NText | NInet | NSmallInt
  | NTinyInt | NTime | NVarint => None
  end.

(* ColumnType::type_size_for_vector (`size * usize::from(dimensions)`; the usize product is not
   bounded here - it cannot overflow below 4 nested vectors of 65535 dimensions) *)
Fixpoint type_size (t : ctype) : option N :=
  match t with
  | TNative n => native_vec_size n
  | TVector e d => match type_size e with Some s => Some (s * d) | None => None end
  | TList _ | TSet _ | TMap _ _ | TTuple _ | TUdt _ _ _ => None
  end.

(* ColumnType::supports_special_empty_value *)
Definition supports_empty (t : ctype) : bool :=
  match t with
  | TNative NCounter | TNative NDuration | TList _ | TSet _ | TMap _ _ | TUdt _ _ _ => false
  | _ => true
  end.

(* the three types for which `CqlValue::deserialize` does NOT map a zero-length cell to Empty *)
Definition is_string_type (t : ctype) : bool :=
  match t with
  | TNative NAscii | TNative NBlob | TNative NText => true
  | _ => false
  end.

(* ====================================================================================== *)
(* 4. Serialiser                                                                           *)
(* ====================================================================================== *)

(* leaf kinds of BuiltinTypeCheckError / BuiltinSerializationError (serialize/value.rs) *)
Inductive ser_err :=
| SE_MismatchedType        (* exact_type_check! failed *)
| SE_NotEmptyable
| SE_NotSetOrList
| SE_NotMap
| SE_NotTuple
| SE_TupleWrongCount       (* TupleTypeCheckErrorKind::WrongElementCount *)
| SE_NotUdt
| SE_UdtNameMismatch
| SE_NoSuchFieldInUdt
| SE_SizeOverflow
| SE_TooManyElements
| SE_VectorLen.            (* VectorSerializationErrorKind::InvalidNumberOfElements *)

Definition sres := result ser_err bytes.

Definition i32_max : N := 2147483647.
Definition blen (b : bytes) : N := N.of_nat (List.length b).

Definition bytes_eqb (a b : bytes) : bool := if list_eq_dec N.eq_dec a b then true else false.
Definition is_nil {A} (l : list A) : bool := match l with [] => true | _ => false end.

(* i32::to_be_bytes of a length / element count (callers guarantee n <= i32::MAX) *)
Definition be32 (n : N) : bytes := be_enc 4 n.
Definition null_marker : bytes := enc_signed 4 (-1).    (* CellWriter::set_null  *)
Definition unset_marker : bytes := enc_signed 4 (-2).   (* CellWriter::set_unset *)

(* CellWriter::set_value(contents): `contents.len().try_into::<i32>()` is checked whatever the
   `write_size` flag says.  Returns the contents; the length prefix is added by [framed]. *)
Definition set_value (contents : bytes) : sres :=
  if i32_max <? blen contents then Err SE_SizeOverflow else Ok contents.

(* CellValueBuilder::finish: the length is checked (and back-patched over the -3 placeholder)
   only when the builder writes a size.  Modelled as "produce the contents, then let the
   enclosing writer prefix the length": [framed]. *)
Definition finish (ws : bool) (contents : bytes) : sres :=
  if ws && (i32_max <? blen contents) then Err SE_SizeOverflow else Ok contents.

(* a sized sub-writer (`make_sub_writer`, `CellWriter::new`): 4-byte length, then contents *)
Definition framed (contents : bytes) : bytes := be32 (blen contents) ++ contents.

(* append the results of serialising the elements of a list, left to right, first error wins *)
Fixpoint ser_concat {A} (f : A -> sres) (l : list A) : sres :=
  match l with
  | [] => Ok []
  | x :: r => rbind (f x) (fun b => rbind (ser_concat f r) (fun bs => Ok (b ++ bs)))
  end.

(* T::serialize(el, elt, builder.make_sub_writer()) with T = CqlValue *)
Definition sub_sized (f : cval -> sres) (x : cval) : sres :=
  rbind (f x) (fun b => Ok (framed b)).

(* Option<CqlValue> into a sized sub-writer (tuple elements, UDT fields) *)
Definition sub_sized_opt (f : cval -> sres) (ox : option cval) : sres :=
  match ox with
  | None => Ok null_marker
  | Some x => sub_sized f x
  end.

(* serialize_sequence: i32 element count, then each element through a sized sub-writer *)
Definition ser_sequence (ws : bool) (f : cval -> sres) (l : list cval) : sres :=
  if i32_max <? N.of_nat (List.length l) then Err SE_TooManyElements else
  rbind (ser_concat (sub_sized f) l) (fun bs => finish ws (be32 (N.of_nat (List.length l)) ++ bs)).

(* serialize_mapping *)
Definition ser_mapping (ws : bool) (fk fv : cval -> sres) (l : list (cval * cval)) : sres :=
  if i32_max <? N.of_nat (List.length l) then Err SE_TooManyElements else
  rbind (ser_concat (fun kv => rbind (sub_sized fk (fst kv)) (fun a =>
                              rbind (sub_sized fv (snd kv)) (fun b => Ok (a ++ b)))) l)
        (fun bs => finish ws (be32 (N.of_nat (List.length l)) ++ bs)).

(* serialize_next_variable_length_elem: the element goes through a size-less writer into a
   scratch buffer; `element_buffer.len().try_into::<u64>().unwrap()` is the vint prefix *)
Definition vec_var_elem (f : cval -> sres) (x : cval) : sres :=
  rbind (f x) (fun b => Ok (uvint_encode (blen b mod two64) ++ b)).

(* serialize_vector.  [f] serialises one element through a size-less writer. *)
Definition ser_vector (ws : bool) (fixed : bool) (dim : N) (f : cval -> sres) (l : list cval) : sres :=
  if negb (N.of_nat (List.length l) =? dim) then Err SE_VectorLen else
  rbind (ser_concat (if fixed then f else vec_var_elem f) l) (finish ws).

(* HashMap<&str, &Option<CqlValue>> built by `values.iter().map(..).collect()` in serialize_udt:
   a later entry with the same name replaces an earlier one; `remove` deletes the key. *)
Fixpoint lookup_last {A} (n : name) (l : list (name * A)) : option A :=
  match l with
  | [] => None
  | (m, x) :: r =>
      match lookup_last n r with
      | Some y => Some y
      | None => if bytes_eqb n m then Some x else None
      end
  end.
Definition remove_name {A} (n : name) (l : list (name * A)) : list (name * A) :=
  filter (fun p => negb (bytes_eqb n (fst p))) l.

(* `indexed_fields.remove(fname).and_then(|x| x.as_ref())` *)
Definition udt_field_value (n : name) (st : list (name * option cval)) : option cval :=
  match lookup_last n st with
  | Some (Some v) => Some v
  | _ => None
  end.

(* serialize_cql_value (value, typ, writer) where [ws] is the writer's `write_size` flag.
   Returns the CONTENTS written by a successful call (without the length prefix that a sized
   writer adds).  Recursion is structural on the type; the value is inspected first, as in the
   code (`match value { ... }`, then the callee's type check). *)
Fixpoint ser_value (ws : bool) (t : ctype) (v : cval) {struct t} : sres :=
  match v with
  (* <String as SerializeValue>: exact_type_check!(typ, Ascii, Text); no ASCII validation *)
  | CAscii s | CText s =>
      match t with TNative NAscii | TNative NText => set_value s | _ => Err SE_MismatchedType end
  | CBoolean b =>
      match t with TNative NBoolean => Ok [if b then 1 else 0] | _ => Err SE_MismatchedType end
  | CBlob b =>
      match t with TNative NBlob => set_value b | _ => Err SE_MismatchedType end
  | CCounter z =>
      match t with TNative NCounter => Ok (enc_signed 8 z) | _ => Err SE_MismatchedType end
  (* CqlDecimal: value builder; scale.to_be_bytes() then the raw bytes *)
  | CDecimal scale raw =>
      match t with TNative NDecimal => finish ws (enc_signed 4 scale ++ raw) | _ => Err SE_MismatchedType end
  | CDate d =>
      match t with TNative NDate => Ok (be_enc 4 d) | _ => Err SE_MismatchedType end
  | CDouble bits =>
      match t with TNative NDouble => Ok (be_enc 8 bits) | _ => Err SE_MismatchedType end
  (* CqlDuration: vint(months as i64) vint(days as i64) vint(nanoseconds), at most 27 bytes *)
  | CDuration m d n =>
      match t with
      | TNative NDuration => Ok (vint_encode m ++ vint_encode d ++ vint_encode n)
      | _ => Err SE_MismatchedType
      end
  | CEmpty => if supports_empty t then Ok [] else Err SE_NotEmptyable
  | CFloat bits =>
      match t with TNative NFloat => Ok (be_enc 4 bits) | _ => Err SE_MismatchedType end
  | CInt z =>
      match t with TNative NInt => Ok (enc_signed 4 z) | _ => Err SE_MismatchedType end
  | CBigInt z =>
      match t with TNative NBigInt => Ok (enc_signed 8 z) | _ => Err SE_MismatchedType end
  | CTimestamp z =>
      match t with TNative NTimestamp => Ok (enc_signed 8 z) | _ => Err SE_MismatchedType end
  | CInet b =>
      match t with TNative NInet => Ok b | _ => Err SE_MismatchedType end
  (* <Vec<CqlValue> as SerializeValue>: List, Set and Vector values all take this path, and the
     CQL type alone decides between serialize_sequence and serialize_vector *)
  | CList l | CSet l | CVector l =>
      match t with
      | TList e | TSet e => ser_sequence ws (ser_value true e) l
      | TVector e dim =>
          ser_vector ws (match type_size e with Some _ => true | None => false end) dim
                     (ser_value false e) l
      | _ => Err SE_NotSetOrList
      end
  | CMap l =>
      match t with
      | TMap k e => ser_mapping ws (ser_value true k) (ser_value true e) l
      | _ => Err SE_NotMap
      end
  (* serialize_udt: fields are matched BY NAME; absent fields are written as null; a value field
     that the type does not have is an error, reported after the fields were written *)
  | CUdt ks nm fields =>
      match t with
      | TUdt ks' nm' fts =>
          if negb (bytes_eqb ks ks' && bytes_eqb nm nm') then Err SE_UdtNameMismatch else
          rbind ((fix go (fts : list (name * ctype)) (st : list (name * option cval)) {struct fts} : sres :=
                    match fts with
                    | [] => if is_nil st then Ok [] else Err SE_NoSuchFieldInUdt
                    | (fname, ft) :: r =>
                        rbind (sub_sized_opt (ser_value true ft) (udt_field_value fname st)) (fun b =>
                        rbind (go r (remove_name fname st)) (fun bs => Ok (b ++ bs)))
                    end) fts fields)
                (finish ws)
      | _ => Err SE_NotUdt
      end
  | CSmallInt z =>
      match t with TNative NSmallInt => Ok (enc_signed 2 z) | _ => Err SE_MismatchedType end
  | CTinyInt z =>
      match t with TNative NTinyInt => Ok (enc_signed 1 z) | _ => Err SE_MismatchedType end
  | CTime z =>
      match t with TNative NTime => Ok (enc_signed 8 z) | _ => Err SE_MismatchedType end
  | CTimeuuid b =>
      match t with TNative NTimeuuid => Ok b | _ => Err SE_MismatchedType end
  (* CqlValue::Tuple: more values than types is an error, fewer is allowed (zip stops) *)
  | CTuple l =>
      match t with
      | TTuple ts =>
          if (List.length ts <? List.length l)%nat then Err SE_TupleWrongCount else
          rbind ((fix go (ts : list ctype) (l : list (option cval)) {struct ts} : sres :=
                    match ts, l with
                    | et :: ts', ox :: l' =>
                        rbind (sub_sized_opt (ser_value true et) ox) (fun b =>
                        rbind (go ts' l') (fun bs => Ok (b ++ bs)))
                    | _, _ => Ok []
                    end) ts l)
                (finish ws)
      | _ => Err SE_NotTuple
      end
  | CUuid b =>
      match t with TNative NUuid => Ok b | _ => Err SE_MismatchedType end
  | CVarint raw =>
      match t with TNative NVarint => set_value raw | _ => Err SE_MismatchedType end
  end.

(* ====================================================================================== *)
(* 4b. The repaired vector writer (F2 fix PROPOSAL - not the code of /repo)                  *)
(* ====================================================================================== *)
(* Minimal change, no new public API: `serialize_next_constant_length_elem` and
   `serialize_next_variable_length_elem` serialise the element into a scratch buffer through a
   SIZED writer (`CellWriter::new(&mut element_buffer)`, as the variable-length path already does
   with a size-less one), read the 4-byte length prefix back and
     - refuse a negative prefix (set_null / set_unset: a vector element cannot be null or unset),
     - for a fixed-width element type refuse a length different from `type_size_for_vector`
       (set_value(&[]): Empty; any carrier that writes another width),
     - otherwise append the contents (fixed width) or unsigned-vint length + contents.
   Everything else is unchanged.  [ser_value_fixed] is [ser_value] with that one change;
   Props/C01.v proves that it only removes outputs (C01_fixed_refines), that what it accepts has no
   vector hole (C01_fixed_no_hole) and hence round-trips and conforms without the F2 class. *)
Definition vec_fixed_elem (size : N) (f : cval -> sres) (x : cval) : sres :=
  rbind (f x) (fun b => if blen b =? size then Ok b else Err SE_VectorLen).

Definition ser_vector_fixed (ws : bool) (size : option N) (dim : N) (f : cval -> sres) (l : list cval) : sres :=
  if negb (N.of_nat (List.length l) =? dim) then Err SE_VectorLen else
  rbind (ser_concat (match size with Some s => vec_fixed_elem s f | None => vec_var_elem f end) l) (finish ws).

Fixpoint ser_value_fixed (ws : bool) (t : ctype) (v : cval) {struct t} : sres :=
  match v with
  (* <String as SerializeValue>: exact_type_check!(typ, Ascii, Text); no ASCII validation *)
  | CAscii s | CText s =>
      match t with TNative NAscii | TNative NText => set_value s | _ => Err SE_MismatchedType end
  | CBoolean b =>
      match t with TNative NBoolean => Ok [if b then 1 else 0] | _ => Err SE_MismatchedType end
  | CBlob b =>
      match t with TNative NBlob => set_value b | _ => Err SE_MismatchedType end
  | CCounter z =>
      match t with TNative NCounter => Ok (enc_signed 8 z) | _ => Err SE_MismatchedType end
  (* CqlDecimal: value builder; scale.to_be_bytes() then the raw bytes *)
  | CDecimal scale raw =>
      match t with TNative NDecimal => finish ws (enc_signed 4 scale ++ raw) | _ => Err SE_MismatchedType end
  | CDate d =>
      match t with TNative NDate => Ok (be_enc 4 d) | _ => Err SE_MismatchedType end
  | CDouble bits =>
      match t with TNative NDouble => Ok (be_enc 8 bits) | _ => Err SE_MismatchedType end
  (* CqlDuration: vint(months as i64) vint(days as i64) vint(nanoseconds), at most 27 bytes *)
  | CDuration m d n =>
      match t with
      | TNative NDuration => Ok (vint_encode m ++ vint_encode d ++ vint_encode n)
      | _ => Err SE_MismatchedType
      end
  | CEmpty => if supports_empty t then Ok [] else Err SE_NotEmptyable
  | CFloat bits =>
      match t with TNative NFloat => Ok (be_enc 4 bits) | _ => Err SE_MismatchedType end
  | CInt z =>
      match t with TNative NInt => Ok (enc_signed 4 z) | _ => Err SE_MismatchedType end
  | CBigInt z =>
      match t with TNative NBigInt => Ok (enc_signed 8 z) | _ => Err SE_MismatchedType end
  | CTimestamp z =>
      match t with TNative NTimestamp => Ok (enc_signed 8 z) | _ => Err SE_MismatchedType end
  | CInet b =>
      match t with TNative NInet => Ok b | _ => Err SE_MismatchedType end
  (* <Vec<CqlValue> as SerializeValue>: List, Set and Vector values all take this path, and the
     CQL type alone decides between serialize_sequence and serialize_vector *)
  | CList l | CSet l | CVector l =>
      match t with
      | TList e | TSet e => ser_sequence ws (ser_value_fixed true e) l
      | TVector e dim =>
          ser_vector_fixed ws (type_size e) dim (ser_value_fixed true e) l
      | _ => Err SE_NotSetOrList
      end
  | CMap l =>
      match t with
      | TMap k e => ser_mapping ws (ser_value_fixed true k) (ser_value_fixed true e) l
      | _ => Err SE_NotMap
      end
  (* serialize_udt: fields are matched BY NAME; absent fields are written as null; a value field
     that the type does not have is an error, reported after the fields were written *)
  | CUdt ks nm fields =>
      match t with
      | TUdt ks' nm' fts =>
          if negb (bytes_eqb ks ks' && bytes_eqb nm nm') then Err SE_UdtNameMismatch else
          rbind ((fix go (fts : list (name * ctype)) (st : list (name * option cval)) {struct fts} : sres :=
                    match fts with
                    | [] => if is_nil st then Ok [] else Err SE_NoSuchFieldInUdt
                    | (fname, ft) :: r =>
                        rbind (sub_sized_opt (ser_value_fixed true ft) (udt_field_value fname st)) (fun b =>
                        rbind (go r (remove_name fname st)) (fun bs => Ok (b ++ bs)))
                    end) fts fields)
                (finish ws)
      | _ => Err SE_NotUdt
      end
  | CSmallInt z =>
      match t with TNative NSmallInt => Ok (enc_signed 2 z) | _ => Err SE_MismatchedType end
  | CTinyInt z =>
      match t with TNative NTinyInt => Ok (enc_signed 1 z) | _ => Err SE_MismatchedType end
  | CTime z =>
      match t with TNative NTime => Ok (enc_signed 8 z) | _ => Err SE_MismatchedType end
  | CTimeuuid b =>
      match t with TNative NTimeuuid => Ok b | _ => Err SE_MismatchedType end
  (* CqlValue::Tuple: more values than types is an error, fewer is allowed (zip stops) *)
  | CTuple l =>
      match t with
      | TTuple ts =>
          if (List.length ts <? List.length l)%nat then Err SE_TupleWrongCount else
          rbind ((fix go (ts : list ctype) (l : list (option cval)) {struct ts} : sres :=
                    match ts, l with
                    | et :: ts', ox :: l' =>
                        rbind (sub_sized_opt (ser_value_fixed true et) ox) (fun b =>
                        rbind (go ts' l') (fun bs => Ok (b ++ bs)))
                    | _, _ => Ok []
                    end) ts l)
                (finish ws)
      | _ => Err SE_NotTuple
      end
  | CUuid b =>
      match t with TNative NUuid => Ok b | _ => Err SE_MismatchedType end
  | CVarint raw =>
      match t with TNative NVarint => set_value raw | _ => Err SE_MismatchedType end
  end.


Definition ser_cell_fixed (t : ctype) (c : cell) : sres :=
  match c with
  | CNull => Ok null_marker
  | CUnset => Ok unset_marker
  | CVal v => rbind (ser_value_fixed true t v) (fun b => Ok (framed b))
  end.

(* typed carriers with cells as elements bound to a vector: a null / unset element is refused *)
Definition ser_vector_cells_fixed (e : ctype) (dim : N) (cells : list cell) : sres :=
  if negb (N.of_nat (List.length cells) =? dim) then Err SE_VectorLen else
  let elem := fun c => match c with
                       | CNull | CUnset => Err SE_VectorLen
                       | CVal v => match type_size e with
                                   | Some s => vec_fixed_elem s (ser_value_fixed true e) v
                                   | None => vec_var_elem (ser_value_fixed true e) v
                                   end
                       end in
  rbind (ser_concat elem cells) (fun b => rbind (finish true b) (fun b => Ok (framed b))).

(* What a CellWriter with flag [ws] receives for a bind marker / element of type [t].
   set_null / set_unset append the 4 marker bytes WHATEVER the flag says (writers.rs l.105-115);
   with ws = false (element of a vector) the marker bytes become element data. *)
Definition ser_cell_ws (ws : bool) (t : ctype) (c : cell) : sres :=
  match c with
  | CNull => Ok null_marker
  | CUnset => Ok unset_marker
  | CVal v => rbind (ser_value ws t v) (fun b => Ok (if ws then framed b else b))
  end.

(* SerializedValues::add_value(&value, &typ): a fresh sized CellWriter *)
Definition ser_cell (t : ctype) (c : cell) : sres := ser_cell_ws true t c.

(* Typed carriers whose elements may be null / unset (Vec<Option<T>>, Vec<MaybeUnset<T>>) bound
   to a vector type: serialize_vector with cells as elements.  [CVector] cannot express these
   (CqlValue::Vector holds plain values), hence the separate entry point. *)
Definition ser_vector_cells (e : ctype) (dim : N) (cells : list cell) : sres :=
  if negb (N.of_nat (List.length cells) =? dim) then Err SE_VectorLen else
  let elem := ser_cell_ws false e in
  rbind (ser_concat (match type_size e with
                     | Some _ => elem
                     | None => fun c => rbind (elem c) (fun b => Ok (uvint_encode (blen b mod two64) ++ b))
                     end) cells)
        (fun b => rbind (finish true b) (fun b => Ok (framed b))).

(* ... and bound to a list / set type: serialize_sequence with cells as elements *)
Definition ser_sequence_cells (e : ctype) (cells : list cell) : sres :=
  if i32_max <? N.of_nat (List.length cells) then Err SE_TooManyElements else
  rbind (ser_concat (ser_cell_ws true e) cells)
        (fun bs => rbind (finish true (be32 (N.of_nat (List.length cells)) ++ bs))
                         (fun b => Ok (framed b))).

(* ====================================================================================== *)
(* 5. Deserialiser: `DeserializeValue for CqlValue`                                        *)
(* ====================================================================================== *)

(* leaf kinds of BuiltinDeserializationError (deserialize/value.rs) *)
Inductive de_err :=
| DE_ExpectedNonNull
| DE_ByteLengthMismatch
| DE_ExpectedAscii
| DE_InvalidUtf8
| DE_BadDecimalScale
| DE_ValueOverflow
| DE_BadDate               (* a vint of a duration could not be read *)
| DE_BadInetLength
| DE_RawCqlBytesRead       (* RawCqlBytesReadError: a [bytes] item / n raw bytes / a vint length *)
| DE_LengthDeser           (* Set/List/Map LengthDeserializationFailed *)
| DE_OutOfFuel.            (* model artefact, unreachable: see [deser_items] *)

Definition dres (A : Type) := result de_err A.

(* take n bytes, n given as N; the comparison comes first so that N.to_nat is only applied to
   numbers bounded by the buffer length *)
Definition take_n (n : N) (b : bytes) : option (bytes * bytes) :=
  if blen b <? n then None else take (N.to_nat n) b.

(* types::read_int: 4 bytes big-endian, signed *)
Definition read_int (b : bytes) : option (Z * bytes) :=
  match take 4 b with
  | Some (x, r) => Some (dec_signed x, r)
  | None => None
  end.

(* FrameSlice::read_cql_bytes = types::read_bytes_opt: ANY negative length is null *)
Definition read_cql_bytes (b : bytes) : option (option bytes * bytes) :=
  match read_int b with
  | None => None
  | Some (len, r) =>
      if (len <? 0)%Z then Some (None, r)
      else match take_n (Z.to_N len) r with
           | None => None
           | Some (x, r') => Some (Some x, r')
           end
  end.

(* FrameSlice::read_n_bytes: Ok(None) when the slice is empty (even for count = 0) *)
Definition read_n_bytes (n : N) (b : bytes) : option (option bytes * bytes) :=
  if is_nil b then Some (None, b)
  else match take_n n b with
       | None => None
       | Some (x, r) => Some (Some x, r)
       end.

(* <[u8]>::is_ascii *)
Definition ascii_valid (b : bytes) : bool := forallb (fun x => x <? 128) b.

(* std::str::from_utf8(..).is_ok(): well-formed UTF-8 (Unicode table 3-7: no overlong forms, no
   surrogates, nothing above U+10FFFF) *)
Definition cont (x : N) : bool := (128 <=? x) && (x <=? 191).
Fixpoint utf8_valid (b : bytes) : bool :=
  match b with
  | [] => true
  | x :: r =>
      if x <? 128 then utf8_valid r
      else if (194 <=? x) && (x <=? 223) then
        match r with c1 :: r1 => cont c1 && utf8_valid r1 | _ => false end
      else if x =? 224 then
        match r with c1 :: c2 :: r2 => (160 <=? c1) && (c1 <=? 191) && cont c2 && utf8_valid r2 | _ => false end
      else if ((225 <=? x) && (x <=? 236)) || (x =? 238) || (x =? 239) then
        match r with c1 :: c2 :: r2 => cont c1 && cont c2 && utf8_valid r2 | _ => false end
      else if x =? 237 then
        match r with c1 :: c2 :: r2 => (128 <=? c1) && (c1 <=? 159) && cont c2 && utf8_valid r2 | _ => false end
      else if x =? 240 then
        match r with c1 :: c2 :: c3 :: r3 => (144 <=? c1) && (c1 <=? 191) && cont c2 && cont c3 && utf8_valid r3 | _ => false end
      else if (241 <=? x) && (x <=? 243) then
        match r with c1 :: c2 :: c3 :: r3 => cont c1 && cont c2 && cont c3 && utf8_valid r3 | _ => false end
      else if x =? 244 then
        match r with c1 :: c2 :: c3 :: r3 => (128 <=? c1) && (c1 <=? 143) && cont c2 && cont c3 && utf8_valid r3 | _ => false end
      else false
  end.

(* ensure_exact_length::<T, SIZE> *)
Definition exact_len {A} (k : nat) (b : bytes) (f : bytes -> dres A) : dres A :=
  if (List.length b =? k)%nat then f b else Err DE_ByteLengthMismatch.

Definition i32_ok (z : Z) : bool := ((- 2 ^ 31 <=? z) && (z <? 2 ^ 31))%Z.
Definition time_max : Z := 86399999999999.

(* the native `DeserializeValue` impls that `CqlValue::deserialize` delegates to, on a non-null
   slice that already passed the empty-cell rule *)
Definition deser_native (n : ntype) (b : bytes) : dres cval :=
  match n with
  | NAscii =>     (* check_ascii, then from_utf8 (which cannot fail on ASCII) *)
      if negb (ascii_valid b) then Err DE_ExpectedAscii
      else if negb (utf8_valid b) then Err DE_InvalidUtf8 else Ok (CAscii b)
  | NText => if negb (utf8_valid b) then Err DE_InvalidUtf8 else Ok (CText b)
  | NBlob => Ok (CBlob b)
  | NBoolean => exact_len 1 b (fun b => Ok (CBoolean (negb (be_dec b =? 0))))     (* arr[0] != 0x00 *)
  | NCounter => exact_len 8 b (fun b => Ok (CCounter (dec_signed b)))
  | NDate => exact_len 4 b (fun b => Ok (CDate (be_dec b)))
  | NDecimal =>   (* read_int for the scale, the rest is the unscaled varint *)
      match read_int b with
      | None => Err DE_BadDecimalScale
      | Some (scale, raw) => Ok (CDecimal scale raw)
      end
  | NDouble => exact_len 8 b (fun b => Ok (CDouble (be_dec b)))
  | NDuration =>  (* three vints; months and days must fit i32; trailing bytes are ignored *)
      match vint_decode b with
      | None => Err DE_BadDate
      | Some (m, r1) =>
          if negb (i32_ok m) then Err DE_ValueOverflow else
          match vint_decode r1 with
          | None => Err DE_BadDate
          | Some (d, r2) =>
              if negb (i32_ok d) then Err DE_ValueOverflow else
              match vint_decode r2 with
              | None => Err DE_BadDate
              | Some (ns, _) => Ok (CDuration m d ns)
              end
          end
      end
  | NFloat => exact_len 4 b (fun b => Ok (CFloat (be_dec b)))
  | NInt => exact_len 4 b (fun b => Ok (CInt (dec_signed b)))
  | NBigInt => exact_len 8 b (fun b => Ok (CBigInt (dec_signed b)))
  | NTimestamp => exact_len 8 b (fun b => Ok (CTimestamp (dec_signed b)))
  | NInet =>
      if ((List.length b =? 4) || (List.length b =? 16))%nat then Ok (CInet b) else Err DE_BadInetLength
  | NSmallInt => exact_len 2 b (fun b => Ok (CSmallInt (dec_signed b)))
  | NTinyInt => exact_len 1 b (fun b => Ok (CTinyInt (dec_signed b)))
  | NTime =>      (* get_nanos_from_time_column: 0 ..= 86399999999999 *)
      exact_len 8 b (fun b => let z := dec_signed b in
                              if ((0 <=? z) && (z <=? time_max))%Z then Ok (CTime z) else Err DE_ValueOverflow)
  | NTimeuuid => exact_len 16 b (fun b => Ok (CTimeuuid b))
  | NUuid => exact_len 16 b (fun b => Ok (CUuid b))
  | NVarint => Ok (CVarint b)
  end.

(* `T::deserialize(typ, raw)` with T = CqlValue on an optional slice: ensure_not_null *)
Definition nonnull (f : bytes -> dres cval) (ob : option bytes) : dres cval :=
  match ob with
  | None => Err DE_ExpectedNonNull
  | Some s => f s
  end.

(* FixedLengthBytesSequenceIterator + ListlikeIterator::next, collected into a Vec: [n] items,
   each a [bytes] read followed by the element decoder; the first error ends the collection.
   The count comes from the wire (up to 2^31-1), so the loop runs on fuel = 1 + buffer length:
   every successful read consumes at least 4 bytes, hence the fuel never runs out before a read
   fails (lemma deser_items_fuel). *)
Fixpoint deser_items (f : bytes -> dres cval) (fuel : nat) (n : N) (b : bytes) : dres (list cval) :=
  if n =? 0 then Ok [] else
  match fuel with
  | O => Err DE_OutOfFuel
  | S fuel' =>
      match read_cql_bytes b with
      | None => Err DE_RawCqlBytesRead
      | Some (ob, r) =>
          rbind (nonnull f ob) (fun x =>
          rbind (deser_items f fuel' (n - 1) r) (fun xs => Ok (x :: xs)))
      end
  end.

(* types::read_int_length: a negative count is an error *)
Definition read_count (b : bytes) : dres (N * bytes) :=
  match read_int b with
  | None => Err DE_LengthDeser
  | Some (z, r) => if (z <? 0)%Z then Err DE_LengthDeser else Ok (Z.to_N z, r)
  end.

(* ListlikeIterator::deserialize + collect (trailing bytes are not an error) *)
Definition deser_listlike (f : bytes -> dres cval) (b : bytes) : dres (list cval) :=
  rbind (read_count b) (fun nr => deser_items f (S (List.length b)) (fst nr) (snd nr)).

(* MapIterator::next: BOTH raw items are read before either is decoded *)
Fixpoint deser_pairs (fk fv : bytes -> dres cval) (fuel : nat) (n : N) (b : bytes)
  : dres (list (cval * cval)) :=
  if n =? 0 then Ok [] else
  match fuel with
  | O => Err DE_OutOfFuel
  | S fuel' =>
      match read_cql_bytes b with
      | None => Err DE_RawCqlBytesRead
      | Some (ok, r1) =>
          match read_cql_bytes r1 with
          | None => Err DE_RawCqlBytesRead
          | Some (ov, r2) =>
              rbind (nonnull fk ok) (fun k =>
              rbind (nonnull fv ov) (fun v =>
              rbind (deser_pairs fk fv fuel' (n - 1) r2) (fun xs => Ok ((k, v) :: xs))))
          end
      end
  end.

Definition deser_map (fk fv : bytes -> dres cval) (b : bytes) : dres (list (cval * cval)) :=
  rbind (read_count b) (fun nr => deser_pairs fk fv (S (List.length b)) (fst nr) (snd nr)).

(* VectorIterator: `dimensions` elements (u16, so plain recursion on the count).
   next_constant_length_elem: read_n_bytes(element_length).
   next_variable_length_elem: unsigned vint, then read_n_bytes(size).
   Bytes left over after the last element are ignored. *)
Fixpoint deser_vec_fixed (f : bytes -> dres cval) (size : N) (cnt : nat) (b : bytes) : dres (list cval) :=
  match cnt with
  | O => Ok []
  | S c =>
      match read_n_bytes size b with
      | None => Err DE_RawCqlBytesRead
      | Some (ob, r) =>
          rbind (nonnull f ob) (fun x =>
          rbind (deser_vec_fixed f size c r) (fun xs => Ok (x :: xs)))
      end
  end.

Fixpoint deser_vec_var (f : bytes -> dres cval) (cnt : nat) (b : bytes) : dres (list cval) :=
  match cnt with
  | O => Ok []
  | S c =>
      match uvint_decode b with
      | None => Err DE_RawCqlBytesRead
      | Some (size, r0) =>                     (* u64 -> usize never fails on 64-bit targets *)
          (* a zero-length element is an empty slice, not a missing one (fix b428ba8) *)
          match (if size =? 0 then Some (Some [], r0) else read_n_bytes size r0) with
          | None => Err DE_RawCqlBytesRead
          | Some (ob, r) =>
              rbind (nonnull f ob) (fun x =>
              rbind (deser_vec_var f c r) (fun xs => Ok (x :: xs)))
          end
      end
  end.

Definition deser_vector (f : bytes -> dres cval) (size : option N) (dim : N) (b : bytes) : dres (list cval) :=
  match size with
  | Some s => deser_vec_fixed f s (N.to_nat dim) b
  | None => deser_vec_var f (N.to_nat dim) b
  end.

(* One tuple element / UDT field of `CqlValue::deserialize`: when no bytes are left the
   element is null (short tuple, missing UDT suffix); otherwise a [bytes] item, null if its
   length is negative. *)
Definition deser_opt_field (f : bytes -> dres cval) (b : bytes) : dres (option cval * bytes) :=
  if is_nil b then Ok (None, b)
  else match read_cql_bytes b with
       | None => Err DE_RawCqlBytesRead
       | Some (None, r) => Ok (None, r)
       | Some (Some s, r) => rbind (f s) (fun x => Ok (Some x, r))
       end.

(* <CqlValue as DeserializeValue>::deserialize(typ, Some(slice)) on the exact slice [b] *)
Fixpoint deser_value (t : ctype) (b : bytes) {struct t} : dres cval :=
  (* the empty-cell rule: every type but ascii / blob / text reads a zero-length cell as Empty *)
  if is_nil b && negb (is_string_type t) then Ok CEmpty else
  match t with
  | TNative n => deser_native n b
  | TList e => rbind (deser_listlike (deser_value e) b) (fun l => Ok (CList l))
  | TSet e => rbind (deser_listlike (deser_value e) b) (fun l => Ok (CSet l))
  | TMap k e => rbind (deser_map (deser_value k) (deser_value e) b) (fun l => Ok (CMap l))
  | TVector e dim => rbind (deser_vector (deser_value e) (type_size e) dim b) (fun l => Ok (CVector l))
  | TTuple ts =>
      rbind ((fix go (ts : list ctype) (b : bytes) {struct ts} : dres (list (option cval)) :=
                match ts with
                | [] => Ok []
                | et :: ts' =>
                    rbind (deser_opt_field (deser_value et) b) (fun xr =>
                    rbind (go ts' (snd xr)) (fun xs => Ok (fst xr :: xs)))
                end) ts b)
            (fun l => Ok (CTuple l))
  | TUdt ks nm fts =>
      rbind ((fix go (fts : list (name * ctype)) (b : bytes) {struct fts}
                : dres (list (name * option cval)) :=
                match fts with
                | [] => Ok []
                | (fname, ft) :: r =>
                    rbind (deser_opt_field (deser_value ft) b) (fun xr =>
                    rbind (go r (snd xr)) (fun xs => Ok ((fname, fst xr) :: xs)))
                end) fts b)
            (fun l => Ok (CUdt ks nm l))
  end.

(* One cell of a row / one `[bytes]` item against type [t]: `read_cql_bytes`, then
   `Option::<CqlValue>::deserialize`.  Returns the cell and the remaining buffer.  A negative
   length - also -2, "not set" - reads back as null. *)
Definition deser_cell (t : ctype) (b : bytes) : dres (cell * bytes) :=
  match read_cql_bytes b with
  | None => Err DE_RawCqlBytesRead
  | Some (None, r) => Ok (CNull, r)
  | Some (Some s, r) => rbind (deser_value t s) (fun v => Ok (CVal v, r))
  end.

(* Typed carriers whose elements may be null (Vec<Option<T>> with T = CqlValue): ListlikeIterator
   hands `None` to `Option::<T>::deserialize`, which answers None instead of ExpectedNonNull. *)
Definition cell_of_raw (f : bytes -> dres cval) (ob : option bytes) : dres cell :=
  match ob with
  | None => Ok CNull
  | Some s => rbind (f s) (fun v => Ok (CVal v))
  end.

Fixpoint deser_items_cells (f : bytes -> dres cval) (fuel : nat) (n : N) (b : bytes) : dres (list cell) :=
  if n =? 0 then Ok [] else
  match fuel with
  | O => Err DE_OutOfFuel
  | S fuel' =>
      match read_cql_bytes b with
      | None => Err DE_RawCqlBytesRead
      | Some (ob, r) =>
          rbind (cell_of_raw f ob) (fun x =>
          rbind (deser_items_cells f fuel' (n - 1) r) (fun xs => Ok (x :: xs)))
      end
  end.

(* <Vec<Option<CqlValue>> as DeserializeValue>::deserialize on the contents of a list / set cell *)
Definition deser_listlike_cells (e : ctype) (b : bytes) : dres (list cell) :=
  rbind (read_count b) (fun nr => deser_items_cells (deser_value e) (S (List.length b)) (fst nr) (snd nr)).

(* ====================================================================================== *)
(* 6. What the round trip returns (pad), which values belong to a type (wf), known classes   *)
(* ====================================================================================== *)

Fixpoint lookup_first {A} (n : name) (l : list (name * A)) : option A :=
  match l with
  | [] => None
  | (m, x) :: r => if bytes_eqb n m then Some x else lookup_first n r
  end.

(* The value a correct decoder returns for the encoding of [v] at type [t]:
   - a tuple shorter than its type is padded with nulls; a UDT value is re-ordered into the
     type's field order, absent fields are null;
   - list / set / vector values are interchangeable on the way in (all are Vec<CqlValue>), the
     type decides the constructor on the way out; likewise ascii / text;
   - Empty at ascii / text / blob is the empty string: the encodings coincide. *)
Fixpoint pad (t : ctype) (v : cval) {struct t} : cval :=
  match t with
  | TNative NAscii => match v with CText s => CAscii s | CEmpty => CAscii [] | _ => v end
  | TNative NText => match v with CAscii s => CText s | CEmpty => CText [] | _ => v end
  | TNative NBlob => match v with CEmpty => CBlob [] | _ => v end
  | TNative _ => v
  | TList e => match v with CList l | CSet l | CVector l => CList (map (pad e) l) | _ => v end
  | TSet e => match v with CList l | CSet l | CVector l => CSet (map (pad e) l) | _ => v end
  | TVector e _ => match v with CList l | CSet l | CVector l => CVector (map (pad e) l) | _ => v end
  | TMap k e => match v with CMap l => CMap (map (fun kv => (pad k (fst kv), pad e (snd kv))) l) | _ => v end
  | TTuple ts =>
      match v with
      | CTuple l =>
          CTuple ((fix go (ts : list ctype) (l : list (option cval)) {struct ts} : list (option cval) :=
                     match ts with
                     | [] => []
                     | et :: ts' =>
                         match l with
                         | [] => None :: go ts' []
                         | ox :: l' => option_map (pad et) ox :: go ts' l'
                         end
                     end) ts l)
      | _ => v
      end
  | TUdt ks nm fts =>
      match v with
      | CUdt _ _ fields =>
          CUdt ks nm ((fix go (fts : list (name * ctype)) {struct fts} : list (name * option cval) :=
                         match fts with
                         | [] => []
                         | (fname, ft) :: r =>
                             (fname, match lookup_first fname fields with
                                     | Some (Some x) => Some (pad ft x)
                                     | _ => None
                                     end) :: go r
                         end) fts)
      | _ => v
      end
  end.

(* a negative length reads back as null, so "not set" does too *)
Definition pad_cell (t : ctype) (c : cell) : cell :=
  match c with
  | CNull | CUnset => CNull
  | CVal v => CVal (pad t v)
  end.

(* --- types that exist in CQL: at least one tuple component / UDT field / vector dimension,
       UDT field names pairwise distinct --- *)
Fixpoint nodupb (l : list name) : bool :=
  match l with
  | [] => true
  | x :: r => negb (existsb (bytes_eqb x) r) && nodupb r
  end.

Fixpoint wf_type (t : ctype) : bool :=
  match t with
  | TNative _ => true
  | TList e | TSet e => wf_type e
  | TMap k e => wf_type k && wf_type e
  | TTuple ts => negb (is_nil ts) && forallb wf_type ts
  | TUdt _ _ fts =>
      negb (is_nil fts) && nodupb (map fst fts) &&
      (fix go (fts : list (name * ctype)) : bool :=
         match fts with [] => true | (_, ft) :: r => wf_type ft && go r end) fts
  | TVector e d => (1 <=? d) && (d <=? 65535) && wf_type e
  end.

Definition in_range (bits : Z) (z : Z) : bool := ((- 2 ^ (bits - 1) <=? z) && (z <? 2 ^ (bits - 1)))%Z.
Definition len_is (k : nat) (b : bytes) : bool := (List.length b =? k)%nat.

(* "v is a value of the native CQL type n" - what the Rust field types guarantee, plus the
   domain conditions the serialiser does not check (ASCII, time of day, non-empty varint) *)
Definition wf_native (n : ntype) (v : cval) : bool :=
  match n, v with
  | NAscii, (CAscii s | CText s) => ascii_valid s
  | NText, (CAscii s | CText s) => utf8_valid s
  | NBoolean, CBoolean _ => true
  | NBlob, CBlob b => bytes_okb b
  | NCounter, CCounter z => in_range 64 z
  | NDate, CDate d => d <? 2 ^ 32
  | NDecimal, CDecimal scale raw => in_range 32 scale && bytes_okb raw
  | NDouble, CDouble bits => bits <? 2 ^ 64
  | NDuration, CDuration m d ns => in_range 32 m && in_range 32 d && in_range 64 ns
  | NFloat, CFloat bits => bits <? 2 ^ 32
  | NInt, CInt z => in_range 32 z
  | NBigInt, CBigInt z => in_range 64 z
  | NTimestamp, CTimestamp z => in_range 64 z
  | NInet, CInet b => bytes_okb b && (len_is 4 b || len_is 16 b)
  | NSmallInt, CSmallInt z => in_range 16 z
  | NTinyInt, CTinyInt z => in_range 8 z
  | NTime, CTime z => ((0 <=? z) && (z <=? time_max))%Z
  | NTimeuuid, CTimeuuid b => bytes_okb b && len_is 16 b
  | NUuid, CUuid b => bytes_okb b && len_is 16 b
  | NVarint, CVarint raw => bytes_okb raw && negb (is_nil raw)
  | _, _ => false
  end.

(* [wf_native] spelled out as "what the Rust type of the constructor can hold" minus three domain
   exclusions that the serialiser does NOT check (lemma wf_native_char):
     - a non-ASCII string bound to `ascii`        (the reader answers ExpectedAscii),
     - a CqlTime outside 0 ..= 86399999999999     (the reader answers ValueOverflow),
     - a CqlVarint of zero bytes                   (written as a zero-length cell, read back as Empty).
   None of the three is a value of the CQL type (ascii = bytes in 0..127, time = nanoseconds of a
   day, varint = an integer, which needs at least one byte), so they lie outside "every value of
   that type"; they are nevertheless accepted by the writer and not read back
   (Props/C01.v, theorems C01_outside_ascii, _time, _varint), and the driver counts them (verdict suffix obs=...). *)
Definition rust_native (n : ntype) (v : cval) : bool :=
  match n, v with
  | NAscii, (CAscii s | CText s) => utf8_valid s          (* a Rust String *)
  | NTime, CTime z => in_range 64 z                        (* CqlTime(i64) *)
  | NVarint, CVarint raw => bytes_okb raw                  (* CqlVarint(Vec<u8>) *)
  | _, _ => wf_native n v
  end.
Definition domain_excl (n : ntype) (v : cval) : bool :=
  match n, v with
  | NAscii, (CAscii s | CText s) => negb (ascii_valid s)
  | NTime, CTime z => negb ((0 <=? z) && (z <=? time_max))%Z
  | NVarint, CVarint raw => is_nil raw
  | _, _ => false
  end.

(* "v is a value of the CQL type t" (as far as the dynamic value type can express one) *)
Fixpoint wf_val (t : ctype) (v : cval) {struct t} : bool :=
  match v with
  | CEmpty => supports_empty t
  | _ =>
    match t with
    | TNative n => wf_native n v
    | TList e | TSet e =>
        match v with CList l | CSet l | CVector l => forallb (wf_val e) l | _ => false end
    | TVector e d =>
        match v with
        | CList l | CSet l | CVector l => (N.of_nat (List.length l) =? d) && forallb (wf_val e) l
        | _ => false
        end
    | TMap k e =>
        match v with
        | CMap l => forallb (fun kv => wf_val k (fst kv) && wf_val e (snd kv)) l
        | _ => false
        end
    | TTuple ts =>
        match v with
        | CTuple l =>
            (List.length l <=? List.length ts)%nat &&
            (fix go (ts : list ctype) (l : list (option cval)) {struct ts} : bool :=
               match ts, l with
               | et :: ts', ox :: l' =>
                   match ox with Some x => wf_val et x | None => true end && go ts' l'
               | _, _ => true
               end) ts l
        | _ => false
        end
    | TUdt ks nm fts =>
        match v with
        | CUdt ks' nm' fields =>
            bytes_eqb ks' ks && bytes_eqb nm' nm &&
            nodupb (map fst fields) &&
            forallb (fun f => existsb (bytes_eqb (fst f)) (map fst fts)) fields &&
            (fix go (fts : list (name * ctype)) {struct fts} : bool :=
               match fts with
               | [] => true
               | (fname, ft) :: r =>
                   match lookup_first fname fields with
                   | Some (Some x) => wf_val ft x
                   | _ => true
                   end && go r
               end) fts
        | _ => false
        end
    end
  end.

Definition wf (t : ctype) (v : cval) : bool := wf_type t && wf_val t v.
Definition wf_cell (t : ctype) (c : cell) : bool :=
  match c with
  | CVal v => wf t v
  | CNull | CUnset => wf_type t
  end.

(* the only reasons for which the serialiser may refuse a value of the type: a cell or a
   collection that exceeds the i32 limits of the wire format *)
Definition size_only (r : sres) : Prop :=
  match r with
  | Ok _ => True
  | Err e => e = SE_SizeOverflow \/ e = SE_TooManyElements
  end.

(* --- known classes: shapes on which the code, modelled as it is, does not round-trip --- *)

Definition is_cempty (v : cval) : bool := match v with CEmpty => true | _ => false end.
Definition vec_elems (v : cval) : option (list cval) :=
  match v with CList l | CSet l | CVector l => Some l | _ => None end.

(* class A "vector-null-element": an Empty element in a vector whose elements are packed
   without length (a size-less sub-writer cannot express empty / null / unset) *)
Definition kc_vector_hole (t : ctype) (v : cval) : bool :=
  match t, vec_elems v with
  | TVector e _, Some l =>
      match type_size e with Some _ => existsb is_cempty l | None => false end
  | _, _ => false
  end.

(* class B "empty-tuple": `CqlValue::Tuple(vec![])` is written as a zero-length cell, which reads
   back as Empty instead of a tuple of nulls *)
Definition kc_empty_tuple (t : ctype) (v : cval) : bool :=
  match t, v with
  | TTuple _, CTuple [] => true
  | _, _ => false
  end.

(* some sub-position (type, value) of the pair, the pair itself included, satisfies [P] *)
Fixpoint exists_sub (P : ctype -> cval -> bool) (t : ctype) (v : cval) {struct t} : bool :=
  P t v ||
  match t with
  | TNative _ => false
  | TList e | TSet e | TVector e _ =>
      match vec_elems v with Some l => existsb (exists_sub P e) l | None => false end
  | TMap k e =>
      match v with
      | CMap l => existsb (fun kv => exists_sub P k (fst kv) || exists_sub P e (snd kv)) l
      | _ => false
      end
  | TTuple ts =>
      match v with
      | CTuple l =>
          (fix go (ts : list ctype) (l : list (option cval)) {struct ts} : bool :=
             match ts, l with
             | et :: ts', ox :: l' =>
                 match ox with Some x => exists_sub P et x | None => false end || go ts' l'
             | _, _ => false
             end) ts l
      | _ => false
      end
  | TUdt _ _ fts =>
      match v with
      | CUdt _ _ fields =>
          (fix go (fts : list (name * ctype)) {struct fts} : bool :=
             match fts with
             | [] => false
             | (fname, ft) :: r =>
                 match lookup_first fname fields with
                 | Some (Some x) => exists_sub P ft x
                 | _ => false
                 end || go r
             end) fts
      | _ => false
      end
  end.

Definition kc_any (t : ctype) (v : cval) : bool :=
  kc_vector_hole t v || kc_empty_tuple t v.

Definition known_class (t : ctype) (v : cval) : bool := exists_sub kc_any t v.
(* the two classes separately (known_class = their disjunction: lemma known_class_split) *)
Definition vector_hole (t : ctype) (v : cval) : bool := exists_sub kc_vector_hole t v.
Definition empty_tuple_inside (t : ctype) (v : cval) : bool := exists_sub kc_empty_tuple t v.
Definition known_class_cell (t : ctype) (c : cell) : bool :=
  match c with CVal v => known_class t v | _ => false end.

(* an element cell of a typed carrier: null, not set, or a value of the element type outside the
   known classes *)
Definition cell_ok (e : ctype) (c : cell) : Prop :=
  match c with CVal v => wf_val e v = true /\ known_class e v = false | _ => True end.
Definition cell_okb (e : ctype) (c : cell) : bool :=
  match c with CVal v => wf_val e v && negb (known_class e v) | _ => true end.

(* which class, for the driver's tag (A before B) *)
Inductive kclass := KA_vector_null_element | KB_empty_tuple.
Definition known_class_of (t : ctype) (v : cval) : option kclass :=
  if vector_hole t v then Some KA_vector_null_element
  else if empty_tuple_inside t v then Some KB_empty_tuple
  else None.

(* typed vector carriers (ser_vector_cells): a null / unset / Empty element *)
Definition cells_hole (cells : list cell) : bool :=
  existsb (fun c => match c with CNull | CUnset | CVal CEmpty => true | _ => false end) cells.

(* ====================================================================================== *)
(* 7. Specification: the wire format, transcribed from the protocol text                   *)
(* ====================================================================================== *)
(* native_protocol_v4.spec §3 ([int], [bytes], [value]) and §6 (data type serialization
   formats), native_protocol_v5.spec §3 ([vint], [unsigned vint]) and §6 (duration), and the
   vector extension of Cassandra 5 / ScyllaDB (VectorType: elements of a fixed-length type are
   concatenated without any prefix, elements of other types are each preceded by their length as
   an [unsigned vint]; there is no element count).

   [enc_spec t v] is THE byte string that encodes value [v] of type [t], or None when [v] has
   no encoding at [t].  [Enc t v b] is the relation "b is the encoding of v at t".  Nothing here
   refers to section 4. *)

(* [int]: "A 4 bytes integer" (signed, big-endian) *)
Definition spec_int (z : Z) : bytes := be_enc 4 (Z.to_N (z mod 2 ^ 32)).

(* two's complement on k bytes *)
Definition spec_twos (k : nat) (z : Z) : bytes := be_enc k (Z.to_N (z mod 2 ^ (8 * Z.of_nat k))).

(* [bytes]: "A [int] n, followed by n bytes if n >= 0. If n < 0, no byte should follow and the
   value represented is `null`." *)
Definition spec_bytes (ob : option bytes) : bytes :=
  match ob with
  | None => spec_int (-1)
  | Some b => spec_int (Z.of_nat (List.length b)) ++ b
  end.

(* [value]: "n >= 0: n bytes; n = -1: null; n = -2: not set" *)
Definition spec_value (c : option (option bytes)) : bytes :=
  match c with
  | None => spec_int (-2)                 (* not set *)
  | Some ob => spec_bytes ob
  end.

Definition opt_concat (l : list (option bytes)) : option bytes :=
  fold_right (fun ox acc => match ox, acc with Some x, Some a => Some (x ++ a) | _, _ => None end)
             (Some []) l.

Definition spec_fixed_width (n : ntype) : option nat :=
  match n with
  | NBoolean => Some 1%nat | NDouble => Some 8%nat | NFloat => Some 4%nat | NInt => Some 4%nat
  | NBigInt => Some 8%nat | NTimestamp => Some 8%nat | NTimeuuid => Some 16%nat | NUuid => Some 16%nat
  | _ => None
  end.

(* the vector extension calls a type fixed-length when its serialised size is a constant:
   the eight native types above, and vectors of a fixed-length type *)
Fixpoint spec_fixed_len (t : ctype) : option nat :=
  match t with
  | TNative n => spec_fixed_width n
  | TVector e d => match spec_fixed_len e with Some s => Some (s * N.to_nat d)%nat | None => None end
  | _ => None
  end.

(* §6 for native types; a string value may be held by either string constructor *)
Definition enc_native (n : ntype) (v : cval) : option bytes :=
  match n, v with
  | NAscii, (CAscii s | CText s) => Some s          (* "A sequence of bytes in the ASCII range" *)
  | NText, (CAscii s | CText s) => Some s           (* "A sequence of bytes conforming to UTF-8" *)
  | NBlob, CBlob b => Some b                        (* "Any sequence of bytes" *)
  | NBoolean, CBoolean b => Some [if b then 1 else 0]
  | NCounter, CCounter z => Some (spec_twos 8 z)    (* as bigint *)
  | NBigInt, CBigInt z => Some (spec_twos 8 z)      (* "An 8 byte two's complement integer" *)
  | NInt, CInt z => Some (spec_twos 4 z)
  | NSmallInt, CSmallInt z => Some (spec_twos 2 z)
  | NTinyInt, CTinyInt z => Some (spec_twos 1 z)
  | NTimestamp, CTimestamp z => Some (spec_twos 8 z) (* "An 8 byte two's complement integer: ms since epoch" *)
  | NTime, CTime z => Some (spec_twos 8 z)          (* "An 8 byte two's complement long: ns since midnight" *)
  | NDate, CDate d => Some (be_enc 4 d)             (* "An unsigned integer ... epoch at 2^31" *)
  | NDouble, CDouble bits => Some (be_enc 8 bits)   (* IEEE 754 binary64 *)
  | NFloat, CFloat bits => Some (be_enc 4 bits)     (* IEEE 754 binary32 *)
  | NDecimal, CDecimal scale raw => Some (spec_int scale ++ raw)   (* "[int] scale, then a [varint] unscaled value" *)
  | NVarint, CVarint raw => Some raw                (* two's complement, big-endian; minimal length not required *)
  | NDuration, CDuration m d ns => Some (spec_vint m ++ spec_vint d ++ spec_vint ns)
  | NInet, CInet b => Some b                        (* "A 4 byte or 16 byte sequence" *)
  | NUuid, CUuid b => Some b                        (* "A 16 byte sequence" *)
  | NTimeuuid, CTimeuuid b => Some b
  | _, _ => None
  end.

Fixpoint enc_spec (t : ctype) (v : cval) {struct t} : option bytes :=
  match v with
  | CEmpty =>
      (* the legacy zero-length value; counter, duration, collections and UDTs have none *)
      if supports_empty t then Some [] else None
  | _ =>
    match t with
    | TNative n => enc_native n v
    (* "A [int] n indicating the number of elements, followed by n elements. Each element is
       [bytes] representing the serialized value." (set: same) *)
    | TList e | TSet e =>
        match vec_elems v with
        | Some l =>
            option_map (fun body => spec_int (Z.of_nat (List.length l)) ++ body)
                       (opt_concat (map (fun x => option_map (fun b => spec_bytes (Some b)) (enc_spec e x)) l))
        | None => None
        end
    (* "A [int] n followed by n entries: [bytes] key, [bytes] value" *)
    | TMap k e =>
        match v with
        | CMap l =>
            option_map (fun body => spec_int (Z.of_nat (List.length l)) ++ body)
                       (opt_concat (map (fun kv =>
                          match enc_spec k (fst kv), enc_spec e (snd kv) with
                          | Some a, Some b => Some (spec_bytes (Some a) ++ spec_bytes (Some b))
                          | _, _ => None
                          end) l))
        | _ => None
        end
    (* vector: exactly `dim` elements; fixed-length element type: bare concatenation, and every
       element must have exactly that length; otherwise [unsigned vint] length + bytes each *)
    | TVector e d =>
        match vec_elems v with
        | Some l =>
            if negb (N.of_nat (List.length l) =? d) then None else
            match spec_fixed_len e with
            | Some s =>
                opt_concat (map (fun x => match enc_spec e x with
                                          | Some b => if (List.length b =? s)%nat then Some b else None
                                          | None => None
                                          end) l)
            | None =>
                opt_concat (map (fun x => option_map (fun b => spec_uvint (blen b) ++ b) (enc_spec e x)) l)
            end
        | None => None
        end
    (* "A sequence of [bytes] values representing the items in a tuple"; trailing components may
       be left out (the server reads them as null) *)
    | TTuple ts =>
        match v with
        | CTuple l =>
            (fix go (ts : list ctype) (l : list (option cval)) {struct ts} : option bytes :=
               match l with
               | [] => Some []
               | ox :: l' =>
                   match ts with
                   | [] => None                     (* more items than the type has components *)
                   | et :: ts' =>
                       match (match ox with
                              | None => Some (spec_bytes None)
                              | Some x => option_map (fun b => spec_bytes (Some b)) (enc_spec et x)
                              end), go ts' l' with
                       | Some a, Some b => Some (a ++ b)
                       | _, _ => None
                       end
                   end
               end) ts l
        | _ => None
        end
    (* "A UDT value is composed of successive [bytes] values, one for each field of the UDT
       value (in the order defined by the type)"; a field the value does not mention is null;
       the value must be of this very type and may only mention fields the type has *)
    | TUdt ks nm fts =>
        match v with
        | CUdt ks' nm' fields =>
            if negb (bytes_eqb ks' ks && bytes_eqb nm' nm) then None else
            if negb (forallb (fun f => existsb (bytes_eqb (fst f)) (map fst fts)) fields) then None else
            (fix go (fts : list (name * ctype)) {struct fts} : option bytes :=
               match fts with
               | [] => Some []
               | (fname, ft) :: r =>
                   match (match lookup_first fname fields with
                          | Some (Some x) => option_map (fun b => spec_bytes (Some b)) (enc_spec ft x)
                          | _ => Some (spec_bytes None)
                          end), go r with
                   | Some a, Some b => Some (a ++ b)
                   | _, _ => None
                   end
               end) fts
        | _ => None
        end
    end
  end.

Definition Enc (t : ctype) (v : cval) (b : bytes) : Prop := enc_spec t v = Some b.

(* The same specification as an INDUCTIVE RELATION, rule by rule (Props/C01.v, C01_enc_relation:
   [enc_spec] computes exactly this relation).  ER_list / ER_set / ER_map / ER_udt and the null
   items of ER_tuple are sentences of native_protocol_v4 section 6; natives are not relational
   (ER_native is the table function [enc_native] again); ER_empty, the "trailing components may be
   left out" of ER_tuple / EI_end and the two vector rules are NOT v4 text: the legacy empty value
   and short tuples follow ScyllaDB / the driver's convention, vectors the Cassandra 5 format.
     ER_empty         the legacy zero-length value of the types that admit it
     ER_native        section 6, native types (table [enc_native])
     ER_list / _set   "[int] n, followed by n elements; each element is [bytes]"
     ER_map           "[int] n followed by n entries: [bytes] key, [bytes] value"
     ER_vector_fixed  exactly `dim` elements of a fixed-length type, concatenated bare
     ER_vector_var    exactly `dim` elements, each preceded by its length as an [unsigned vint]
     ER_tuple         "a sequence of [bytes] values", null = [bytes] with n < 0; trailing components may be left out
     ER_udt           "successive [bytes] values, one for each field (in the order defined by the type)";
                      a field the value does not mention is null; only fields of the type *)
Inductive EncR : ctype -> cval -> bytes -> Prop :=
| ER_empty t : supports_empty t = true -> EncR t CEmpty []
| ER_native n v b : enc_native n v = Some b -> EncR (TNative n) v b
| ER_list e v l ps : vec_elems v = Some l -> Forall2 (EncR e) l ps ->
    EncR (TList e) v (spec_int (Z.of_nat (List.length l)) ++ concat (map (fun p => spec_bytes (Some p)) ps))
| ER_set e v l ps : vec_elems v = Some l -> Forall2 (EncR e) l ps ->
    EncR (TSet e) v (spec_int (Z.of_nat (List.length l)) ++ concat (map (fun p => spec_bytes (Some p)) ps))
| ER_map k e l ps :
    Forall2 (fun (kv : cval * cval) (p : bytes * bytes) => EncR k (fst kv) (fst p) /\ EncR e (snd kv) (snd p)) l ps ->
    EncR (TMap k e) (CMap l)
         (spec_int (Z.of_nat (List.length l)) ++ concat (map (fun p => spec_bytes (Some (fst p)) ++ spec_bytes (Some (snd p))) ps))
| ER_vector_fixed e d v l s ps : vec_elems v = Some l -> N.of_nat (List.length l) = d -> spec_fixed_len e = Some s ->
    Forall2 (fun x p => EncR e x p /\ List.length p = s) l ps -> EncR (TVector e d) v (concat ps)
| ER_vector_var e d v l ps : vec_elems v = Some l -> N.of_nat (List.length l) = d -> spec_fixed_len e = None ->
    Forall2 (EncR e) l ps -> EncR (TVector e d) v (concat (map (fun p => spec_uvint (blen p) ++ p) ps))
| ER_tuple ts l ps : EncItems ts l ps -> EncR (TTuple ts) (CTuple l) (concat ps)
| ER_udt ks nm fts ks' nm' fields ps :
    ks' = ks -> nm' = nm -> (forall f, In f fields -> In (fst f) (map fst fts)) ->
    EncFields fields fts ps -> EncR (TUdt ks nm fts) (CUdt ks' nm' fields) (concat ps)
with EncItems : list ctype -> list (option cval) -> list bytes -> Prop :=
| EI_end ts : EncItems ts [] []
| EI_null t ts l ps : EncItems ts l ps -> EncItems (t :: ts) (None :: l) (spec_bytes None :: ps)
| EI_val t ts x l p ps : EncR t x p -> EncItems ts l ps -> EncItems (t :: ts) (Some x :: l) (spec_bytes (Some p) :: ps)
with EncFields : list (name * option cval) -> list (name * ctype) -> list bytes -> Prop :=
| EF_end fields : EncFields fields [] []
| EF_null fields fname ft r ps :
    (lookup_first fname fields = None \/ lookup_first fname fields = Some None) ->
    EncFields fields r ps -> EncFields fields ((fname, ft) :: r) (spec_bytes None :: ps)
| EF_val fields fname ft r x p ps :
    lookup_first fname fields = Some (Some x) -> EncR ft x p ->
    EncFields fields r ps -> EncFields fields ((fname, ft) :: r) (spec_bytes (Some p) :: ps).



(* a bind marker: null, not set, or the [value] framing of the encoding *)
Definition enc_cell_spec (t : ctype) (c : cell) : option bytes :=
  match c with
  | CNull => Some (spec_value (Some None))
  | CUnset => Some (spec_value None)
  | CVal v => option_map (fun b => spec_value (Some (Some b))) (enc_spec t v)
  end.
Definition EncCell (t : ctype) (c : cell) (b : bytes) : Prop := enc_cell_spec t c = Some b.

(* a list / set whose elements are [bytes] items that may be null.  "[bytes]: ... if n < 0 no byte
   should follow and the value represented is null".  The protocol text says no more than that
   about negative lengths inside a collection; that a NOT-SET element is written as [int] -2 is
   taken from the CODE (CellWriter::set_unset), so conformance of not-set elements holds by
   construction of this line - only null (-1) and value elements are specified independently. *)
Definition enc_seq_cells_spec (e : ctype) (cells : list cell) : option bytes :=
  option_map (fun body => spec_value (Some (Some (spec_int (Z.of_nat (List.length cells)) ++ body))))
    (opt_concat (map (fun c => match c with
                               | CNull => Some (spec_bytes None)
                               | CUnset => Some (spec_int (-2))
                               | CVal v => option_map (fun b => spec_bytes (Some b)) (enc_spec e v)
                               end) cells)).

(* ====================================================================================== *)
(* Boolean forms of the property, evaluated by the correspondence driver on the              *)
(* IMPLEMENTATION's outputs (only when an output differs from the model's)                   *)
(* ====================================================================================== *)

(* the bytes the implementation produced for cell [c] at type [t] are its wire encoding *)
Definition conforms_ok (t : ctype) (c : cell) (impl_bytes : bytes) : bool :=
  match enc_cell_spec t c with
  | Some b => bytes_eqb b impl_bytes
  | None => false
  end.
