(* Model of scylla/src/policies/retry/{retry_policy,default,downgrading_consistency,fallthrough}.rs
   (property C06).  Executable definitions only; proofs are in Proofs/Retry_proofs.v.

   The error type is an abstraction of `RequestAttemptError` (scylla/src/errors.rs): one
   constructor per variant, payloads dropped (no decision reads them), except `DbError`, which
   carries an abstraction of `DbError` (scylla-cql-core/src/frame/response/error.rs): one
   constructor per variant, keeping the fields a decision reads -- or a hypothesis of a theorem
   mentions -- (`alive`, `received`, `required` : i32, here Z; `data_present`; `write_type`).
   The variant lists are pinned against the Rust source by the census in checks/c06.py. *)
From SV Require Import Base.Prelude.
Open Scope Z_scope.

(* scylla-cql-core/src/frame/types.rs  enum Consistency *)
Inductive consistency :=
| CAny | COne | CTwo | CThree | CQuorum | CAll | CLocalQuorum | CEachQuorum | CLocalOne
| CSerial | CLocalSerial.

(* enum WriteType ; Other(String) without its payload *)
Inductive write_type :=
| WSimple | WBatch | WUnloggedBatch | WCounter | WBatchLog | WCas | WView | WCdc | WOther.

(* enum DbError *)
Inductive db_error :=
| DbSyntaxError | DbInvalid | DbAlreadyExists | DbFunctionFailure | DbAuthenticationError
| DbUnauthorized | DbConfigError
| DbUnavailable (required alive : Z)
| DbOverloaded | DbIsBootstrapping | DbTruncateError
| DbReadTimeout (received required : Z) (data_present : bool)
| DbWriteTimeout (received required : Z) (wt : write_type)
| DbReadFailure | DbWriteFailure | DbUnprepared | DbServerError | DbProtocolError
| DbRateLimitReached | DbOther.

(* enum RequestAttemptError *)
Inductive attempt_error :=
| ESerializationError | ECqlRequestSerialization | EUnableToAllocStreamId
| EBrokenConnectionError | EBodyExtensionsParseError | ECqlResultParseError
| ECqlErrorParseError | EDbError (e : db_error) | EUnexpectedResponse
| ERepreparedIdChanged | ERepreparedIdMissingInBatch | ENonfinishedPagingState.

(* enum RetryDecision *)
Inductive decision :=
| RetrySameTarget (new_cl : option consistency)
| RetryNextTarget (new_cl : option consistency)
| DontRetry
| IgnoreWriteError.

(* struct RequestInfo *)
Record request_info := mk_ri {
  ri_error : attempt_error;
  ri_idempotent : bool;
  ri_consistency : consistency
}.

(* Consistency::is_serial *)
Definition is_serial (c : consistency) : bool :=
  match c with CSerial | CLocalSerial => true | _ => false end.

Definition consistency_eqb (a b : consistency) : bool :=
  match a, b with
  | CAny, CAny | COne, COne | CTwo, CTwo | CThree, CThree | CQuorum, CQuorum | CAll, CAll
  | CLocalQuorum, CLocalQuorum | CEachQuorum, CEachQuorum | CLocalOne, CLocalOne
  | CSerial, CSerial | CLocalSerial, CLocalSerial => true
  | _, _ => false
  end.

(* ---- default.rs -------------------------------------------------------- *)

Record default_session := mk_ds {
  was_unavailable_retry : bool;
  was_read_timeout_retry : bool;
  was_write_timeout_retry : bool
}.

Definition default_new : default_session := mk_ds false false false.

(* DefaultRetrySession::decide_should_retry ; `&mut self` becomes the returned session.
   The trailing `| _ =>` arm of the DbError match only exists because DbError is
   #[non_exhaustive] in another crate; it has no variant to catch (census). *)
Definition default_decide (s : default_session) (ri : request_info)
  : default_session * decision :=
  if is_serial (ri_consistency ri) then (s, DontRetry) else
  match ri_error ri with
  | EBrokenConnectionError =>
      (s, if ri_idempotent ri then RetryNextTarget None else DontRetry)
  | EDbError db =>
      match db with
      | DbOverloaded | DbServerError | DbTruncateError =>
          (s, if ri_idempotent ri then RetryNextTarget None else DontRetry)
      | DbUnavailable _ _ =>
          if negb (was_unavailable_retry s)
          then (mk_ds true (was_read_timeout_retry s) (was_write_timeout_retry s),
                RetryNextTarget None)
          else (s, DontRetry)
      | DbReadTimeout received required data_present =>
          if negb (was_read_timeout_retry s) && (received >=? required) && negb data_present
          then (mk_ds (was_unavailable_retry s) true (was_write_timeout_retry s),
                RetrySameTarget None)
          else (s, DontRetry)
      | DbWriteTimeout _ _ wt =>
          if negb (was_write_timeout_retry s) && ri_idempotent ri
             && match wt with WBatchLog => true | _ => false end
          then (mk_ds (was_unavailable_retry s) (was_read_timeout_retry s) true,
                RetrySameTarget None)
          else (s, DontRetry)
      | DbIsBootstrapping => (s, RetryNextTarget None)
      | DbSyntaxError | DbInvalid | DbAlreadyExists | DbFunctionFailure
      | DbAuthenticationError | DbUnauthorized | DbConfigError | DbReadFailure
      | DbWriteFailure | DbUnprepared | DbProtocolError | DbRateLimitReached
      | DbOther => (s, DontRetry)
      end
  | EUnableToAllocStreamId => (s, RetryNextTarget None)
  | EBodyExtensionsParseError | ECqlErrorParseError | ECqlRequestSerialization
  | ECqlResultParseError | ENonfinishedPagingState | ERepreparedIdChanged
  | ERepreparedIdMissingInBatch | ESerializationError | EUnexpectedResponse =>
      (s, DontRetry)
  end.

(* ---- downgrading_consistency.rs ---------------------------------------- *)

(* fn max_likely_to_work_cl(known_ok: i32, previous_cl: Consistency) *)
Definition max_likely_to_work_cl (known_ok : Z) (previous_cl : consistency) : decision :=
  if known_ok >=? 3 then RetrySameTarget (Some CThree)
  else if known_ok =? 2 then RetrySameTarget (Some CTwo)
  else if (known_ok =? 1) || consistency_eqb previous_cl CEachQuorum
       then RetrySameTarget (Some COne)
  else DontRetry.

(* DowngradingConsistencyRetrySession::decide_should_retry ; the session is the single flag
   `was_retry`.  Note that the flag is set BEFORE the inner decision is computed: it is also
   set when that decision turns out to be DontRetry / IgnoreWriteError.

   `let cl = match request_info.consistency { Serial | LocalSerial => return <down_serial>,
   cl => cl };` followed by the big match = <down_nonserial cl>. *)
Definition down_serial (was_retry : bool) (ri : request_info) : bool * decision :=
  match ri_error ri with
  | EDbError (DbUnavailable _ _) => (was_retry, RetryNextTarget None)
  | _ => (was_retry, DontRetry)
  end.

Definition down_nonserial (cl : consistency) (was_retry : bool) (ri : request_info)
  : bool * decision :=
  match ri_error ri with
  | EBrokenConnectionError =>
      (was_retry, if ri_idempotent ri then RetryNextTarget None else DontRetry)
  | EDbError db =>
      match db with
      | DbOverloaded | DbServerError | DbTruncateError =>
          (was_retry, if ri_idempotent ri then RetryNextTarget None else DontRetry)
      | DbUnavailable _ alive =>
          if negb was_retry then (true, max_likely_to_work_cl alive cl)
          else (was_retry, DontRetry)
      | DbReadTimeout received required data_present =>
          if was_retry then (was_retry, DontRetry)
          else if received <? required then (true, max_likely_to_work_cl received cl)
          else if negb data_present then (true, RetrySameTarget None)
          else (was_retry, DontRetry)
      | DbWriteTimeout received _ wt =>
          if was_retry || negb (ri_idempotent ri) then (was_retry, DontRetry)
          else (true,
                match wt with
                | WBatch | WSimple =>
                    if received >? 0 then IgnoreWriteError else DontRetry
                | WUnloggedBatch => max_likely_to_work_cl received cl
                | WBatchLog => RetrySameTarget None
                | WCounter | WCas | WView | WCdc | WOther => DontRetry
                end)
      | DbIsBootstrapping => (was_retry, RetryNextTarget None)
      | DbSyntaxError | DbInvalid | DbAlreadyExists | DbFunctionFailure
      | DbAuthenticationError | DbUnauthorized | DbConfigError | DbReadFailure
      | DbWriteFailure | DbUnprepared | DbProtocolError | DbRateLimitReached
      | DbOther => (was_retry, DontRetry)
      end
  | EUnableToAllocStreamId => (was_retry, RetryNextTarget None)
  | EBodyExtensionsParseError | ECqlErrorParseError | ECqlRequestSerialization
  | ECqlResultParseError | ENonfinishedPagingState | ERepreparedIdChanged
  | ERepreparedIdMissingInBatch | ESerializationError | EUnexpectedResponse =>
      (was_retry, DontRetry)
  end.

Definition down_decide (was_retry : bool) (ri : request_info) : bool * decision :=
  match ri_consistency ri with
  | CSerial | CLocalSerial => down_serial was_retry ri
  | cl => down_nonserial cl was_retry ri
  end.

(* ---- fallthrough.rs ----------------------------------------------------- *)

Definition fall_decide (s : unit) (ri : request_info) : unit * decision := (s, DontRetry).

(* ---- the three built-in policies behind one interface -------------------- *)
(* `Box<dyn RetrySession>` : a session of one of the three policies. *)
Inductive policy := PDefault | PDowngrading | PFallthrough.

Inductive session :=
| SDefault (s : default_session)
| SDowngrading (was_retry : bool)
| SFallthrough.

(* RetryPolicy::new_session *)
Definition new_session (p : policy) : session :=
  match p with
  | PDefault => SDefault default_new
  | PDowngrading => SDowngrading false
  | PFallthrough => SFallthrough
  end.

(* RetrySession::decide_should_retry *)
Definition decide (s : session) (ri : request_info) : session * decision :=
  match s with
  | SDefault ds => let (ds', d) := default_decide ds ri in (SDefault ds', d)
  | SDowngrading w => let (w', d) := down_decide w ri in (SDowngrading w', d)
  | SFallthrough => (SFallthrough, DontRetry)
  end.

(* A whole error history fed to ONE session, as the correspondence check does:
   each step carries its own (error, idempotent, consistency). *)
Fixpoint decide_history (s : session) (h : list request_info) : list decision :=
  match h with
  | [] => []
  | ri :: h' => let (s', d) := decide s ri in d :: decide_history s' h'
  end.

(* ---- specification side: vocabulary of the property text ---------------- *)

(* "a failure that proves the previous attempt was not applied (unavailable, bootstrapping,
   no free stream id on the client, read timeout)" *)
Definition safe_errorb (e : attempt_error) : bool :=
  match e with
  | EUnableToAllocStreamId => true
  | EDbError (DbUnavailable _ _) => true
  | EDbError DbIsBootstrapping => true
  | EDbError (DbReadTimeout _ _ _) => true
  | _ => false
  end.

(* "after a broken connection, an overloaded/server/truncate error or a write timeout it is
   never sent again" *)
Definition named_unsafe_errorb (e : attempt_error) : bool :=
  match e with
  | EBrokenConnectionError => true
  | EDbError DbOverloaded | EDbError DbServerError | EDbError DbTruncateError => true
  | EDbError (DbWriteTimeout _ _ _) => true
  | _ => false
  end.

(* the decision asks for the request to be sent again *)
Definition is_retry (d : decision) : bool :=
  match d with RetrySameTarget _ | RetryNextTarget _ => true | _ => false end.

Definition is_same_target (d : decision) : bool :=
  match d with RetrySameTarget _ => true | _ => false end.

(* the consistency a decision carries for the following attempts *)
Definition carried (d : decision) : option consistency :=
  match d with RetrySameTarget c | RetryNextTarget c => c | _ => None end.

(* "the policy's fixed number of same-node retries" *)
Definition same_target_budget (p : policy) : nat :=
  match p with PDefault => 2 | PDowngrading => 1 | PFallthrough => 0 end.

(* same-target retries a session can still grant *)
Definition budget (s : session) : nat :=
  match s with
  | SDefault ds => (if was_read_timeout_retry ds then 0 else 1)
                   + (if was_write_timeout_retry ds then 0 else 1)
  | SDowngrading w => if w then 0 else 1
  | SFallthrough => 0
  end%nat.

(* number of replicas the consistencies a downgrade can choose stand for *)
Definition cl_count (c : consistency) : option Z :=
  match c with COne => Some 1 | CTwo => Some 2 | CThree => Some 3 | _ => None end.

(* The property as a predicate on ONE observed decision (used by the driver on the
   implementation's own output when it differs from the model):
   - not idempotent: a retry only after a safe error; never IgnoreWriteError;
   - Default: never a retry at a serial consistency;
   - Fallthrough: never anything but DontRetry. *)
Definition prop_decision_ok (p : policy) (ri : request_info) (d : decision) : bool :=
  (ri_idempotent ri || negb (is_retry d) || safe_errorb (ri_error ri))
  (* a timed-out write is reported as done only for an idempotent request *)
  && (ri_idempotent ri || match d with IgnoreWriteError => false | _ => true end)
  && match p with
     | PDefault => negb (is_serial (ri_consistency ri)) || negb (is_retry d)
     | PDowngrading => true
     | PFallthrough => match d with DontRetry => true | _ => false end
     end.

(* ... and on the decisions of one whole history on one session: the number of same-target
   retries is within the policy's fixed number. *)
Definition prop_history_ok (p : policy) (ds : list decision) : bool :=
  (List.length (filter is_same_target ds) <=? same_target_budget p)%nat.

(* ---- decidable equalities (used by the acceptors and property predicates of the ties) ------- *)
Definition write_type_eq_dec (a b : write_type) : {a = b} + {a <> b}.
Proof. decide equality. Defined.
Definition db_error_eq_dec (a b : db_error) : {a = b} + {a <> b}.
Proof. decide equality; auto using Z.eq_dec, Bool.bool_dec, write_type_eq_dec. Defined.
Definition attempt_error_eq_dec (a b : attempt_error) : {a = b} + {a <> b}.
Proof. decide equality; apply db_error_eq_dec. Defined.
Definition consistency_eq_dec (a b : consistency) : {a = b} + {a <> b}.
Proof. decide equality. Defined.
