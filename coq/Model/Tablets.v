(* Model of scylla/src/routing/locator/tablets.rs  (property C15).
   Executable definitions only; proofs are in Proofs/Tablets_proofs.v.

   PART 1 follows the CODE branch for branch:
     RawTablet::from_custom_payload (the checks after deserialisation, l.86-119),
     TabletReplicas::from_raw_replicas, Tablet::{from_raw_tablet, re_resolve_replicas,
     update_stale_nodes}, TableTablets::{tablet_for_token, replicas_for_token,
     dc_replicas_for_token, add_tablet, perform_maintenance}, TabletsInfo::{add_tablet,
     perform_maintenance}, and what ClusterState::update_tablets does with one raw tablet.
   PART 2 is the SPECIFICATION, written from the property text: a per-token, history based
     definition that knows nothing about sorted vectors, indices, flags or per-DC indexes.

   Rust types: Token.value : i64 (here Z), Uuid (here N), Shard = u32 (here N; i32 in the
   payload, here Z), datacenter : Option<String> (here option N, the harness uses "dc<N>"),
   HashMap / HashSet arguments are association lists / lists, first match wins (the harness
   builds the maps first-entry-wins, also from lists with duplicate hosts; keyspace lists have
   unique names), Arc<Node> identity (Arc::ptr_eq) is equality of the
   [node] record: the harness gives every Node object a distinct (host, gen, dc) triple.
   A Rust panic (Vec::drain with start > end) is the result [None]; C15_no_panic proves it
   never happens. *)
From SV Require Import Base.Prelude.
Open Scope Z_scope.

(* ------------------------------------------------------------------------------------ *)
(* PART 1 — the code                                                                     *)
(* ------------------------------------------------------------------------------------ *)

Definition i64_min : Z := - 2 ^ 63.
Definition i64_max : Z := 2 ^ 63 - 1.
Definition i64_ok (z : Z) : Prop := i64_min <= z <= i64_max.
Definition i64_okb (z : Z) : bool := (i64_min <=? z) && (z <=? i64_max).

(* i64 addition as the release build computes it (the debug build panics on overflow; the
   theorem C15_payload shows the overflow cannot happen after the range check) *)
Definition wrap64 (z : Z) : Z := (z + 2 ^ 63) mod 2 ^ 64 - 2 ^ 63.

(* Token::new : i64::MIN is normalised to i64::MAX *)
Definition token_new (v : Z) : Z := if v =? i64_min then i64_max else v.

Record node := mkNode { host : N; gen : N; ndc : option N }.

Definition optN_eqb (a b : option N) : bool :=
  match a, b with
  | Some x, Some y => (x =? y)%N
  | None, None => true
  | _, _ => false
  end.

(* Arc::ptr_eq *)
Definition node_eqb (a b : node) : bool :=
  (host a =? host b)%N && (gen a =? gen b)%N && optN_eqb (ndc a) (ndc b).

Definition replica := (node * N)%type.             (* (Arc<Node>, Shard) *)
Definition raw_replica := (N * N)%type.            (* (Uuid, Shard) *)

(* TabletReplicas { all, per_dc } *)
Record treplicas := mkReps { r_all : list replica; r_per_dc : list (N * list replica) }.

(* Tablet { first_token, last_token, replicas, failed } *)
Record tablet := mkTablet {
  t_first : Z; t_last : Z; t_reps : treplicas; t_failed : option (list raw_replica) }.

(* HashMap<Uuid, Arc<Node>>::get *)
Definition find_node (m : list node) (h : N) : option node :=
  find (fun n => (host n =? h)%N) m.

(* per_dc.get_mut(dc) -> push, else insert(dc, vec![r]) *)
Fixpoint dc_push (dc : N) (r : replica) (m : list (N * list replica)) : list (N * list replica) :=
  match m with
  | [] => [(dc, [r])]
  | (k, v) :: m' => if (k =? dc)%N then (k, v ++ [r]) :: m' else (k, v) :: dc_push dc r m'
  end.

Definition group_dc (all : list replica) : list (N * list replica) :=
  fold_left (fun m r => match ndc (fst r) with Some dc => dc_push dc r m | None => m end) all [].

(* per_dc.get(dc).map(as_slice).unwrap_or(&[]) *)
Definition dc_get (m : list (N * list replica)) (dc : N) : list replica :=
  match find (fun kv => (fst kv =? dc)%N) m with Some kv => snd kv | None => [] end.

(* TabletReplicas::from_raw_replicas: (all, failed) ; per_dc is group_dc all *)
Fixpoint resolve (known : list node) (raw : list raw_replica) : list replica * list N :=
  match raw with
  | [] => ([], [])
  | (h, s) :: r =>
    let (a, f) := resolve known r in
    match find_node known h with
    | Some n => ((n, s) :: a, f)
    | None => (a, h :: f)
    end
  end.

Definition mk_reps (all : list replica) : treplicas := mkReps all (group_dc all).

Definition is_nil {A} (l : list A) : bool := match l with [] => true | _ => false end.

(* Tablet::from_raw_tablet; the Ok and the Err variant are used alike by the caller *)
Definition from_raw_tablet (first last : Z) (raw : list raw_replica) (known : list node) : tablet :=
  let (a, f) := resolve known raw in
  mkTablet first last (mk_reps a) (if is_nil f then None else Some raw).

(* Tablet::re_resolve_replicas : Some t' = Ok (tablet possibly updated), None = Err *)
Definition re_resolve (current : list node) (t : tablet) : option tablet :=
  match t_failed t with
  | None => Some t
  | Some raw =>
    let (a, f) := resolve current raw in
    if is_nil f then Some (mkTablet (t_first t) (t_last t) (mk_reps a) None) else None
  end.

(* Tablet::update_stale_nodes, first loop (over replicas.all); the bool is any_updated.
   A replica that already IS the recreated object (Arc::ptr_eq) is skipped. *)
Fixpoint update_all (rec : list node) (l : list replica) : list replica * bool :=
  match l with
  | [] => ([], false)
  | (n, s) :: r =>
    let (r', u) := update_all rec r in
    match find_node rec (host n) with
    | Some n' => if node_eqb n' n then ((n, s) :: r', u) else ((n', s) :: r', true)
    | None => ((n, s) :: r', u)
    end
  end.

(* if any_updated, the per-DC index is rebuilt from `all` *)
Definition update_stale (rec : list node) (t : tablet) : tablet :=
  let (a', upd) := update_all rec (r_all (t_reps t)) in
  let pd := r_per_dc (t_reps t) in
  mkTablet (t_first t) (t_last t) (mkReps a' (if upd then group_dc a' else pd)) (t_failed t).

(* slice::partition_point on a partitioned slice: number of leading elements satisfying p
   (C15_partitioned proves the slices are partitioned, C15_bsearch that [bsearch] below, a hand
   transcription of the NIGHTLY core::slice::binary_search_by, then returns this number) *)
Fixpoint take_while {A} (p : A -> bool) (l : list A) : list A :=
  match l with
  | [] => []
  | x :: r => if p x then x :: take_while p r else []
  end.
Definition partition_point {A} (p : A -> bool) (l : list A) : nat := List.length (take_while p l).

(* hand transcription of core::slice::binary_search_by as slice::partition_point calls it, from the
   NIGHTLY rust-src (the build uses stable 1.95, whose sources are not installed); not used by the
   tie.  Invariant lo <= answer <= lo + size *)
Fixpoint bsearch {A} (fuel : nat) (p : A -> bool) (l : list A) (lo size : nat) : nat :=
  match fuel with
  | O => lo
  | S k =>
    if (size <=? 1)%nat then
      match size with
      | O => lo
      | _ => match nth_error l lo with
             | Some x => if p x then S lo else lo
             | None => lo
             end
      end
    else
      let half := (size / 2)%nat in
      let mid := (lo + half)%nat in
      match nth_error l mid with
      | Some x => bsearch k p l (if p x then mid else lo) (size - half)
      | None => lo
      end
  end.
Definition partition_point_bs {A} (p : A -> bool) (l : list A) : nat :=
  bsearch (List.length l) p l 0 (List.length l).

(* TableTablets { tablet_list, has_unknown_replicas } *)
Record table_tablets := mkTT { tt_list : list tablet; tt_flag : bool }.
Definition tt_empty : table_tablets := mkTT [] false.

(* TableTablets::tablet_for_token *)
Definition tablet_for_token (l : list tablet) (tok : Z) : option tablet :=
  let idx := partition_point (fun t => t_last t <? tok) l in
  match nth_error l idx with
  | Some t => if t_first t <=? tok then Some t else None
  | None => None
  end.

Definition replicas_for_token (l : list tablet) (tok : Z) : option (list replica) :=
  option_map (fun t => r_all (t_reps t)) (tablet_for_token l tok).

Definition dc_replicas_for_token (l : list tablet) (tok : Z) (dc : N) : option (list replica) :=
  option_map (fun t => dc_get (r_per_dc (t_reps t)) dc) (tablet_for_token l tok).

(* TableTablets::add_tablet; None = Vec::drain(left..right) with left > right panics *)
Definition add_tablet (tt : table_tablets) (t : tablet) : option table_tablets :=
  let flag := match t_failed t with Some _ => true | None => tt_flag tt end in
  let l := tt_list tt in
  let left_idx := partition_point (fun x => t_last x <? t_first t) l in
  let right_idx := partition_point (fun x => t_first x <=? t_last t) l in
  if (right_idx <? left_idx)%nat then None
  else Some (mkTT (firstn left_idx l ++ t :: skipn right_idx l) flag).

Fixpoint filter_map {A B} (f : A -> option B) (l : list A) : list B :=
  match l with
  | [] => []
  | x :: r => match f x with Some y => y :: filter_map f r | None => filter_map f r end
  end.

Definition memN (x : N) (l : list N) : bool := existsb (N.eqb x) l.

Definition no_removed_replica (removed : list N) (t : tablet) : bool :=
  forallb (fun r => negb (memN (host (fst r)) removed)) (r_all (t_reps t)).

(* TableTablets::perform_maintenance *)
Definition table_maintenance (removed : list N) (current recreated : list node)
           (tt : table_tablets) : table_tablets :=
  let l1 := if tt_flag tt then filter_map (re_resolve current) (tt_list tt) else tt_list tt in
  let l2 := if is_nil removed then l1 else filter (no_removed_replica removed) l1 in
  let l3 := if is_nil recreated then l2 else map (update_stale recreated) l2 in
  mkTT l3 false.

(* table key: (keyspace name, table name) *)
Definition tkey := (N * N)%type.
Definition tkey_eqb (a b : tkey) : bool := (fst a =? fst b)%N && (snd a =? snd b)%N.

(* TabletsInfo { tablets : HashMap<TableSpec, TableTablets>, has_unknown_replicas } *)
Record info := mkInfo { i_tables : list (tkey * table_tablets); i_flag : bool }.
Definition info_empty : info := mkInfo [] false.

Definition find_table (s : info) (k : tkey) : option table_tablets :=
  option_map snd (find (fun kv => tkey_eqb (fst kv) k) (i_tables s)).

(* entry(k).or_insert_with(new).f() for a fallible f *)
Fixpoint upsert (k : tkey) (f : table_tablets -> option table_tablets)
         (m : list (tkey * table_tablets)) : option (list (tkey * table_tablets)) :=
  match m with
  | [] => option_map (fun v => [(k, v)]) (f tt_empty)
  | (k', v) :: m' =>
    if tkey_eqb k' k then option_map (fun v' => (k', v') :: m') (f v)
    else option_map (cons (k', v)) (upsert k f m')
  end.

(* TabletsInfo::add_tablet *)
Definition info_add (s : info) (k : tkey) (t : tablet) : option info :=
  let flag := match t_failed t with Some _ => true | None => i_flag s end in
  option_map (fun m => mkInfo m flag) (upsert k (fun tt => add_tablet tt t) (i_tables s)).

(* one keyspace of the schema: (name, tablet_based, table names, view names) *)
Record ksdesc := mkKs { ks_name : N; ks_tablet_based : bool; ks_tables : list N; ks_views : list N }.

Definition ks_get (kss : list ksdesc) (name : N) : option ksdesc :=
  find (fun d => (ks_name d =? name)%N) kss.

(* the retain closure of TabletsInfo::perform_maintenance *)
Definition keep_table (kss : list ksdesc) (k : tkey) : bool :=
  match ks_get kss (fst k) with
  | None => false
  | Some d => if ks_tablet_based d then memN (snd k) (ks_tables d) || memN (snd k) (ks_views d) else false
  end.

Definition schema_tables (kss : list ksdesc) : list tkey :=
  flat_map (fun d => if ks_tablet_based d
                     then map (fun t => (ks_name d, t)) (ks_tables d ++ ks_views d) else []) kss.

Definition has_table (m : list (tkey * table_tablets)) (k : tkey) : bool :=
  existsb (fun kv => tkey_eqb (fst kv) k) m.

Definition add_missing (m : list (tkey * table_tablets)) (k : tkey) : list (tkey * table_tablets) :=
  if has_table m k then m else m ++ [(k, tt_empty)].

(* TabletsInfo::perform_maintenance *)
Definition info_maintenance (kss : list ksdesc) (removed : list N) (current recreated : list node)
           (s : info) : info :=
  let t1 := filter (fun kv => keep_table kss (fst kv)) (i_tables s) in
  let t2 := fold_left add_missing (schema_tables kss) t1 in
  if negb (is_nil removed) || negb (is_nil recreated) || i_flag s then
    mkInfo (map (fun kv => (fst kv, table_maintenance removed current recreated (snd kv))) t2) false
  else mkInfo t2 false.

(* RawTablet::from_custom_payload after deserialisation of (first, last, [(uuid, shard:i32)]) *)
Inductive perr := WrongTokenRange | ShardNum.

Fixpoint conv_shards (raw : list (N * Z)) : option (list raw_replica) :=
  match raw with
  | [] => Some []
  | (h, s) :: r =>
    if s <? 0 then None                              (* i32 -> u32 try_into *)
    else match conv_shards r with
         | Some r' => Some ((h, Z.to_N s) :: r')
         | None => None
         end
  end.

Definition payload_check (a b : Z) (raw : list (N * Z)) : result perr (Z * Z * list raw_replica) :=
  if b <=? a then Err WrongTokenRange
  else match conv_shards raw with
       | None => Err ShardNum
       | Some r => Ok (token_new (wrap64 (a + 1)), token_new b, r)
       end.

(* operations of a history *)
Inductive op :=
| Learn (k : tkey) (a b : Z) (raw : list (N * Z)) (known : list node)
    (* a "tablets-routing-v1" payload (a, b, raw) received for table k while the cluster's known
       nodes are [known]: from_custom_payload, then ClusterState::update_tablets *)
| Maintain (kss : list ksdesc) (removed : list N) (current recreated : list node).
    (* TabletsInfo::perform_maintenance(keyspaces, removed_nodes, all_current_nodes, recreated_nodes) *)

Definition step (s : info) (o : op) : option info :=
  match o with
  | Learn k a b raw known =>
    match payload_check a b raw with
    | Err _ => Some s
    | Ok (first, last, r) => info_add s k (from_raw_tablet first last r known)
    end
  | Maintain kss removed current recreated => Some (info_maintenance kss removed current recreated s)
  end.

Definition run_from (s : option info) (h : list op) : option info :=
  fold_left (fun acc o => match acc with Some s => step s o | None => None end) h s.
Definition run (h : list op) : option info := run_from (Some info_empty) h.

(* ClusterState::perform_tablets_maintenance (state.rs): the caller derives the arguments of
   TabletsInfo::perform_maintenance from the old and the new known nodes *)
Definition derive_removed (old new : list node) : list N :=
  map host (filter (fun o => negb (existsb (fun n => (host n =? host o)%N) new)) old).
Definition derive_recreated (old new : list node) : list node :=
  filter (fun n => existsb (fun o => (host o =? host n)%N && negb (node_eqb o n)) old) new.
Definition refresh_op (kss : list ksdesc) (old new : list node) : op :=
  Maintain kss (derive_removed old new) new (derive_recreated old new).

(* histories as the cluster state produces them: payloads are resolved against the current
   known nodes, every topology/schema refresh replaces the known nodes *)
Inductive cop :=
| CLearn (k : tkey) (a b : Z) (raw : list (N * Z))
| CRefresh (kss : list ksdesc) (new : list node).
Fixpoint cluster_ops (known : list node) (h : list cop) : list op :=
  match h with
  | [] => []
  | CLearn k a b raw :: r => Learn k a b raw known :: cluster_ops known r
  | CRefresh kss new :: r => refresh_op kss known new :: cluster_ops new r
  end.
Fixpoint cluster_known (known : list node) (h : list cop) : list node :=
  match h with
  | [] => known
  | CLearn _ _ _ _ :: r => cluster_known known r
  | CRefresh _ new :: r => cluster_known new r
  end.

(* what the table answers for a token *)
Definition lookup_tablet (s : info) (k : tkey) (tok : Z) : option tablet :=
  match find_table s k with Some tb => tablet_for_token (tt_list tb) tok | None => None end.
Definition lookup (s : info) (k : tkey) (tok : Z) : option (list replica) :=
  option_map (fun t => r_all (t_reps t)) (lookup_tablet s k tok).
Definition lookup_dc (s : info) (k : tkey) (tok : Z) (dc : N) : option (list replica) :=
  option_map (fun t => dc_get (r_per_dc (t_reps t)) dc) (lookup_tablet s k tok).

(* values that are i64 in the code *)
Definition op_i64 (o : op) : Prop :=
  match o with Learn _ a b _ _ => i64_ok a /\ i64_ok b | Maintain _ _ _ _ => True end.
Definition op_i64b (o : op) : bool :=
  match o with Learn _ a b _ _ => i64_okb a && i64_okb b | Maintain _ _ _ _ => true end.

(* ------------------------------------------------------------------------------------ *)
(* PART 2 — the specification (from the property text)                                   *)
(* ------------------------------------------------------------------------------------ *)

(* the tablets of a table: every range non-empty and inside i64, and the list sorted with
   pairwise disjoint ranges (an earlier tablet ends strictly before a later one starts) *)
Definition tablets_inv (l : list tablet) : Prop :=
  (forall t, In t l -> i64_ok (t_first t) /\ i64_ok (t_last t) /\ t_first t <= t_last t) /\
  (forall i j x y, (i < j)%nat -> nth_error l i = Some x -> nth_error l j = Some y -> t_last x < t_first y).

(* a slice is partitioned by p at n: the contract under which slice::partition_point returns n *)
Definition split_at {A} (p : A -> bool) (l : list A) (n : nat) : Prop :=
  (n <= List.length l)%nat /\ forallb p (firstn n l) = true /\ forallb (fun x => negb (p x)) (skipn n l) = true.

(* What is known about ONE token of ONE table: the tablet it was last learnt to belong to. *)
Record entry := mkEntry {
  e_first : Z; e_last : Z;                 (* inclusive token range of that tablet *)
  e_reps : list replica;                   (* its replicas that are known nodes *)
  e_pending : option (list raw_replica) }. (* its full replica list while some replica is unknown *)

(* the replicas of a raw list that are known nodes, in order; whether some are unknown *)
Definition spec_resolved (known : list node) (raw : list raw_replica) : list replica :=
  flat_map (fun hs => match find (fun n => (host n =? fst hs)%N) known with
                      | Some n => [(n, snd hs)] | None => [] end) raw.
Definition spec_all_known (known : list node) (raw : list raw_replica) : bool :=
  forallb (fun hs => existsb (fun n => (host n =? fst hs)%N) known) raw.

(* a server payload (a, b, replicas) describes the tablet owning the tokens a < t <= b; it is
   acceptable when that set is non-empty and every shard number is non-negative *)
Definition spec_payload_ok (a b : Z) (raw : list (N * Z)) : bool :=
  (a <? b) && forallb (fun hs => 0 <=? snd hs) raw.

Definition spec_entry_of (a b : Z) (raw : list (N * Z)) (known : list node) : entry :=
  let r := map (fun hs => (fst hs, Z.to_N (snd hs))) raw in
  mkEntry (a + 1) b (spec_resolved known r) (if spec_all_known known r then None else Some r).

Definition ranges_overlap (f1 l1 f2 l2 : Z) : bool := (f1 <=? l2) && (f2 <=? l1).

(* topology maintenance of one entry: discarded when its table is no longer a table or view of a
   tablet-based keyspace, when unknown replicas are still unknown, when a replica is on a removed
   node; otherwise unknown replicas get resolved and re-created nodes replace the old objects *)
Definition spec_table_kept (kss : list ksdesc) (k : tkey) : bool :=
  existsb (fun d => (ks_name d =? fst k)%N) kss &&
  match find (fun d => (ks_name d =? fst k)%N) kss with
  | Some d => ks_tablet_based d &&
              (existsb (N.eqb (snd k)) (ks_tables d) || existsb (N.eqb (snd k)) (ks_views d))
  | None => false
  end.

Definition spec_maintain (kss : list ksdesc) (removed : list N) (current recreated : list node)
           (k : tkey) (e : entry) : option entry :=
  if negb (spec_table_kept kss k) then None else
  let resolved :=
    match e_pending e with
    | None => Some e
    | Some raw => if spec_all_known current raw
                  then Some (mkEntry (e_first e) (e_last e) (spec_resolved current raw) None)
                  else None
    end in
  match resolved with
  | None => None
  | Some e1 =>
    if existsb (fun r => existsb (N.eqb (host (fst r))) removed) (e_reps e1) then None
    else Some (mkEntry (e_first e1) (e_last e1)
                 (map (fun r => match find (fun n => (host n =? host (fst r))%N) recreated with
                                | Some n' => (n', snd r) | None => r end) (e_reps e1))
                 (e_pending e1))
  end.

(* one event, seen from token [tok] of table [k] *)
Definition spec_step (k : tkey) (tok : Z) (cur : option entry) (o : op) : option entry :=
  match o with
  | Learn k' a b raw known =>
    if tkey_eqb k' k && spec_payload_ok a b raw then
      if (a <? tok) && (tok <=? b) then Some (spec_entry_of a b raw known)   (* latest wins *)
      else match cur with
           | Some e => if ranges_overlap (a + 1) b (e_first e) (e_last e)
                       then None                                             (* stale: forget *)
                       else Some e
           | None => None
           end
    else cur
  | Maintain kss removed current recreated =>
    match cur with
    | Some e => spec_maintain kss removed current recreated k e
    | None => None
    end
  end.

(* the tablet a token is answered by after a history: the latest learnt tablet covering it,
   unless a later learnt tablet overlapped it or maintenance discarded it *)
Definition spec_entry (hist : list op) (k : tkey) (tok : Z) : option entry :=
  fold_left (spec_step k tok) hist None.
Definition spec_lookup (hist : list op) (k : tkey) (tok : Z) : option (list replica) :=
  option_map e_reps (spec_entry hist k tok).
(* replicas restricted to a datacenter = restriction of the full list *)
Definition restrict_dc (dc : N) (l : list replica) : list replica :=
  filter (fun r => optN_eqb (ndc (fst r)) (Some dc)) l.
Definition spec_lookup_dc (hist : list op) (k : tkey) (tok : Z) (dc : N) : option (list replica) :=
  option_map (fun e => restrict_dc dc (e_reps e)) (spec_entry hist k tok).

(* the table has an entry (possibly with no tablets): since the last maintenance something was
   learnt for it, or the last maintenance kept/created it *)
Definition spec_present_step (k : tkey) (cur : bool) (o : op) : bool :=
  match o with
  | Learn k' a b raw _ => cur || (tkey_eqb k' k && spec_payload_ok a b raw)
  | Maintain kss _ _ _ => spec_table_kept kss k
  end.
Definition spec_present (hist : list op) (k : tkey) : bool := fold_left (spec_present_step k) hist false.

(* the declarative reading, as a relation on histories: [hist = pre ++ Learn k a b raw known :: post],
   tok in (a, b], and no later payload for the table was accepted whose range overlaps (a, b] *)
Definition accepted_overlap (k : tkey) (f l : Z) (o : op) : bool :=
  match o with
  | Learn k' a b raw _ => tkey_eqb k' k && spec_payload_ok a b raw && ranges_overlap (a + 1) b f l
  | Maintain _ _ _ _ => false
  end.
(* an accepted payload for table k whose range contains tok *)
Definition covering_learn (k : tkey) (tok : Z) (o : op) : bool :=
  match o with
  | Learn k' a b raw _ => tkey_eqb k' k && spec_payload_ok a b raw && ((a <? tok) && (tok <=? b))
  | Maintain _ _ _ _ => false
  end.
(* apply the maintenance events of [post] to an entry *)
Definition spec_maintain_all (k : tkey) (post : list op) (e : entry) : option entry :=
  fold_left (fun cur o => match o, cur with
                          | Maintain kss rm cu rc, Some e => spec_maintain kss rm cu rc k e
                          | _, _ => cur end) post (Some e).

(* ------------------------------------------------------------------------------------ *)
(* boolean versions of the property, evaluated by the driver on the implementation's output *)
(* ------------------------------------------------------------------------------------ *)

(* sorted, pairwise disjoint, non-empty ranges (list of (first, last)) *)
Fixpoint ranges_okb (l : list (Z * Z)) : bool :=
  match l with
  | [] => true
  | (f, la) :: r =>
    (f <=? la) && i64_okb f && i64_okb la &&
    match r with [] => true | (f', _) :: _ => la <? f' end && ranges_okb r
  end.
