(* Model of scylla/src/routing/partitioner.rs and of Token::new (scylla/src/routing/mod.rs)
   for property C03, plus the specification: Cassandra's MurmurHash.hash3_x64_128 and the CDC
   partitioner.  Executable definitions only; proofs are in Proofs/Murmur_proofs.v.

   Representation.  A byte is an N (Base/Bytes.v).  A Rust `i64` / `Wrapping<i64>` and a Java
   `long` are a Z in [-2^63, 2^63); every operation that can leave that range is followed by an
   explicit [wrap64] (two's complement wrap-around).  [Z.lxor]/[Z.lor] on such values ARE the
   two's complement bit operations (Z's bitwise operations use infinite sign extension). *)
From SV Require Import Base.Prelude Base.Bytes.
Open Scope Z_scope.

(* ---- 64-bit words --------------------------------------------------------------------- *)

Definition two63 : Z := 2 ^ 63.
Definition two64 : Z := 2 ^ 64.
Definition two127 : Z := 2 ^ 127.
Definition two128 : Z := 2 ^ 128.
Definition ones64 : Z := Z.ones 64.
Definition ones128 : Z := Z.ones 128.

(* `x as u64` of an integer: its low 64 bits *)
Definition as_u64 (z : Z) : Z := Z.land z ones64.
(* `x as i64` of a mathematical integer / the result of a wrapping i64 operation: the low
   64 bits read as two's complement, i.e. (z + 2^63) mod 2^64 - 2^63 (lemma wrap64_mod) *)
Definition wrap64 (z : Z) : Z :=
  let u := Z.land z ones64 in if u <? two63 then u else u - two64.
(* same for i128 *)
Definition wrap128 (z : Z) : Z :=
  let u := Z.land z ones128 in if u <? two127 then u else u - two128.

Definition wmul (a b : Z) : Z := wrap64 (a * b).           (* Wrapping<i64> *  *)
Definition wadd (a b : Z) : Z := wrap64 (a + b).           (* Wrapping<i64> +  *)
(* `a << k` on i64 / Wrapping<i64> for 0 <= k < 64: the bits shifted out are dropped *)
Definition wshl (a k : Z) : Z := wrap64 (Z.shiftl a k).
(* `(a as u64 >> k) as i64`, 0 < k < 64: logical shift; the result is below 2^63 *)
Definition lshr (a k : Z) : Z := wrap64 (Z.shiftr (as_u64 a) k).

(* fn rotl64(v, n) = Wrapping((v.0 << n) | (v.0 as u64 >> (64 - n)) as i64) *)
Definition rotl64 (v n : Z) : Z := Z.lor (wshl v n) (lshr v (64 - n)).

Definition C1 : Z := wrap64 0x87c37b91114253d5.    (* 0x87c3_7b91_1142_53d5_u64 as i64 *)
Definition C2 : Z := wrap64 0x4cf5ad432745937f.

(* fn hash_16_bytes(&mut self, k1, k2), on the pair (h1, h2) *)
Definition hash_16_bytes (h : Z * Z) (k1 k2 : Z) : Z * Z :=
  let '(h1, h2) := h in
  let k1 := wmul k1 C1 in
  let k1 := rotl64 k1 31 in
  let k1 := wmul k1 C2 in
  let h1 := Z.lxor h1 k1 in
  let h1 := rotl64 h1 27 in
  let h1 := wadd h1 h2 in
  let h1 := wadd (wmul h1 5) 0x52dce729 in
  let k2 := wmul k2 C2 in
  let k2 := rotl64 k2 33 in
  let k2 := wmul k2 C1 in
  let h2 := Z.lxor h2 k2 in
  let h2 := rotl64 h2 31 in
  let h2 := wadd h2 h1 in
  let h2 := wadd (wmul h2 5) 0x38495ab5 in
  (h1, h2).

(* fn fmix(k) *)
Definition fmix (k : Z) : Z :=
  let k := Z.lxor k (lshr k 33) in
  let k := wmul k (wrap64 0xff51afd7ed558ccd) in
  let k := Z.lxor k (lshr k 33) in
  let k := wmul k (wrap64 0xc4ceb9fe1a85ec53) in
  let k := Z.lxor k (lshr k 33) in
  k.

(* little-endian value of a byte string *)
Fixpoint le_dec (b : bytes) : N :=
  match b with
  | [] => 0%N
  | x :: r => (x + 256 * le_dec r)%N
  end.

(* bytes::Buf::get_i64_le on a slice: i64::from_le_bytes of the first 8 bytes, advance by 8
   (the real function panics on fewer than 8 bytes; it is only called on >= 16 bytes) *)
Definition get_i64_le (b : bytes) : Z * bytes :=
  (wrap64 (Z.of_N (le_dec (firstn 8 b))), skipn 8 b).

(* fn fetch_16_bytes_from_buf(buf: &mut &[u8]) *)
Definition fetch_16_bytes_from_buf (b : bytes) : (Z * Z) * bytes :=
  let '(k1, b) := get_i64_le b in
  let '(k2, b) := get_i64_le b in
  ((k1, k2), b).

(* `x as i8 as i64` of a byte x : u8 (a u8 is below 256; taking the residue makes the
   function total on N) *)
Definition sext8 (b : N) : Z :=
  let u := (b mod 256)%N in if (u <? 128)%N then Z.of_N u else Z.of_N u - 256.

(* Token::new: i64::MIN is normalised to i64::MAX *)
Definition token_new (v : Z) : Z := if v =? - two63 then two63 - 1 else v.
(* Token::INVALID *)
Definition token_invalid : Z := - two63.

(* ---- Murmur3PartitionerHasher --------------------------------------------------------- *)

Record m3_hasher := { total_len : N; buf : bytes; h1 : Z; h2 : Z }.

(* Murmur3Partitioner::build_hasher *)
Definition m3_init : m3_hasher :=
  {| total_len := 0; buf := repeat 0%N 16; h1 := 0; h2 := 0 |}.

(* `dst[off .. off + src.len()].copy_from_slice(src)` *)
Definition copy_into (dst : bytes) (off : nat) (src : bytes) : bytes :=
  firstn off dst ++ src ++ skipn (off + length src) dst.

(* `l.len() >= n`, computed without walking the whole list (lemma len_ge_spec) *)
Definition len_ge {A} (l : list A) (n : nat) : bool := (length (firstn n l) =? n)%nat.

(* `while pk_part.len() >= 16 { fetch 16 bytes; hash_16_bytes }`; fuel = pk_part.len() *)
Fixpoint second_phase (fuel : nat) (pk : bytes) (h : Z * Z) : bytes * (Z * Z) :=
  match fuel with
  | O => (pk, h)
  | S f =>
      if len_ge pk 16 then
        let '((k1, k2), pk') := fetch_16_bytes_from_buf pk in
        second_phase f pk' (hash_16_bytes h k1 k2)
      else (pk, h)
  end.

(* PartitionerHasher::write for Murmur3PartitionerHasher.
   `total_len : usize` is an unbounded N here (2^64 bytes cannot be fed). *)
Definition m3_write (st : m3_hasher) (pk_part : bytes) : m3_hasher :=
  let buf_len := N.to_nat (total_len st mod 16) in
  let total_len' := (total_len st + N.of_nat (length pk_part))%N in
  (* first phase: a non-empty buffer that can be filled completely is filled and consumed *)
  let '(buf1, h_1, pk1, buf_len1) :=
    if ((0 <? buf_len) && (16 - buf_len <=? length pk_part))%nat then
      let to_write := Nat.min (16 - buf_len) (length pk_part) in
      let buf' := copy_into (buf st) buf_len (firstn to_write pk_part) in
      let pk' := skipn to_write pk_part in
      let '((k1, k2), _) := fetch_16_bytes_from_buf buf' in
      (buf', hash_16_bytes (h1 st, h2 st) k1 k2, pk', O)
    else (buf st, (h1 st, h2 st), pk_part, buf_len) in
  (* second phase: with an empty buffer, whole blocks are hashed from the input directly *)
  let '(pk2, h_2) :=
    if (buf_len1 =? 0)%nat then second_phase (length pk1) pk1 h_1 else (pk1, h_1) in
  (* third phase: the remaining bytes go to the buffer *)
  let buf3 := copy_into buf1 buf_len1 pk2 in
  {| total_len := total_len'; buf := buf3; h1 := fst h_2; h2 := snd h_2 |}.

(* PartitionerHasher::finish for Murmur3PartitionerHasher, in three pieces:
   the two tail loops, the final mixing, and finish itself *)

(* for i in (8..buf_len).rev() { k2 ^= Wrapping(self.buf[i] as i8 as i64) << ((i - 8) * 8) } *)
Definition m3_tail_k2 (buf : bytes) (buf_len : nat) : Z :=
  fold_left (fun k i => Z.lxor k (wshl (sext8 (nth i buf 0%N)) (Z.of_nat ((i - 8) * 8))))
            (rev (seq 8 (buf_len - 8))) 0.
(* for i in (0..min(8, buf_len)).rev() { k1 ^= Wrapping(self.buf[i] as i8 as i64) << (i * 8) } *)
Definition m3_tail_k1 (buf : bytes) (buf_len : nat) : Z :=
  fold_left (fun k i => Z.lxor k (wshl (sext8 (nth i buf 0%N)) (Z.of_nat (i * 8))))
            (rev (seq 0 (Nat.min 8 buf_len))) 0.

(* from `h1 ^= total_len` to the end of finish *)
Definition m3_final (h1 h2 : Z) (total_len : N) : Z :=
  let len := wrap64 (Z.of_N total_len) in                        (* self.total_len as i64 *)
  let h1 := Z.lxor h1 len in
  let h2 := Z.lxor h2 len in
  let h1 := wadd h1 h2 in
  let h2 := wadd h2 h1 in
  let h1 := fmix h1 in
  let h2 := fmix h2 in
  let h1 := wadd h1 h2 in
  let h2 := wadd h2 h1 in
  (* Token::new((((h2.0 as i128) << 64) | h1.0 as i128) as i64) *)
  token_new (wrap64 (Z.lor (wrap128 (Z.shiftl h2 64)) h1)).

Definition m3_finish (st : m3_hasher) : Z :=
  let buf_len := N.to_nat (total_len st mod 16) in
  let h2' :=
    if (8 <? buf_len)%nat then
      let k2 := m3_tail_k2 (buf st) buf_len in
      let k2 := wmul k2 C2 in
      let k2 := rotl64 k2 33 in
      let k2 := wmul k2 C1 in
      Z.lxor (h2 st) k2
    else h2 st in
  let h1' :=
    if (0 <? buf_len)%nat then
      let k1 := m3_tail_k1 (buf st) buf_len in
      let k1 := wmul k1 C1 in
      let k1 := rotl64 k1 31 in
      let k1 := wmul k1 C2 in
      Z.lxor (h1 st) k1
    else h1 st in
  m3_final h1' h2' (total_len st).

(* ---- CDCPartitionerHasher -------------------------------------------------------------- *)

Inductive cdc_hasher :=
| CdcFeeding (len : nat) (cbuf : bytes)
| CdcComputed (token : Z).

Definition cdc_init : cdc_hasher := CdcFeeding 0 (repeat 0%N 8).

(* (&mut &buf[..]).get_i64(): big-endian i64 of the first 8 bytes *)
Definition get_i64_be (b : bytes) : Z := dec_signed (firstn 8 b).

Definition cdc_write (st : cdc_hasher) (pk_part : bytes) : cdc_hasher :=
  match st with
  | CdcFeeding len cbuf =>
      let copied_len := Nat.min (length pk_part) (8 - len) in
      let cbuf' := copy_into cbuf len (firstn copied_len pk_part) in
      let len' := (len + copied_len)%nat in
      if (len' =? 8)%nat then CdcComputed (token_new (get_i64_be cbuf'))
      else CdcFeeding len' cbuf'
  | CdcComputed _ => st
  end.

Definition cdc_finish (st : cdc_hasher) : Z :=
  match st with
  | CdcFeeding _ _ => token_invalid
  | CdcComputed t => t
  end.

(* ---- PartitionerName / PartitionerHasherAny -------------------------------------------- *)

Inductive partitioner := PMurmur3 | PCdc.

Inductive hasher_any :=
| HMurmur3 (h : m3_hasher)
| HCdc (h : cdc_hasher).

Definition build_hasher (p : partitioner) : hasher_any :=
  match p with PMurmur3 => HMurmur3 m3_init | PCdc => HCdc cdc_init end.

Definition hasher_write (h : hasher_any) (pk_part : bytes) : hasher_any :=
  match h with
  | HMurmur3 m => HMurmur3 (m3_write m pk_part)
  | HCdc c => HCdc (cdc_write c pk_part)
  end.

Definition hasher_finish (h : hasher_any) : Z :=
  match h with HMurmur3 m => m3_finish m | HCdc c => cdc_finish c end.

(* a hasher fed with a sequence of chunks *)
Definition feed (p : partitioner) (chunks : list bytes) : Z :=
  hasher_finish (fold_left hasher_write chunks (build_hasher p)).

(* Partitioner::hash_one *)
Definition hash_one (p : partitioner) (data : bytes) : Z := feed p [data].

(* ======================================================================================= *)
(* SPECIFICATION.  Cassandra's org.apache.cassandra.utils.MurmurHash.hash3_x64_128 with     *)
(* seed 0, transcribed from the Java source: one pass over the whole key, indexes into the  *)
(* key, `switch (length & 15)` with fall-through for the tail.  A Java `long` is a Z in     *)
(* [-2^63, 2^63); [jlong] is the wrap-around of long arithmetic.  `key.get(i)` is a SIGNED  *)
(* byte; getBlock masks it with 0xff, the tail does not (the "signed-byte quirk").          *)
(* ======================================================================================= *)

Definition jlong (z : Z) : Z := (z + 2 ^ 63) mod 2 ^ 64 - 2 ^ 63.
Definition jmul (a b : Z) : Z := jlong (a * b).
Definition jadd (a b : Z) : Z := jlong (a + b).
Definition jshl (a k : Z) : Z := jlong (a * 2 ^ k).               (* a << k  *)
Definition jushr (a k : Z) : Z := jlong ((a mod 2 ^ 64) / 2 ^ k).   (* a >>> k, 0 < k < 64 *)
Definition jxor (a b : Z) : Z := Z.lxor a b.

(* rotl64(v, n) = (v << n) | (v >>> (64 - n)) *)
Definition j_rotl64 (v n : Z) : Z := Z.lor (jshl v n) (jushr v (64 - n)).

(* fmix(k) *)
Definition j_fmix (k : Z) : Z :=
  let k := jxor k (jushr k 33) in
  let k := jmul k (jlong 0xff51afd7ed558ccd) in
  let k := jxor k (jushr k 33) in
  let k := jmul k (jlong 0xc4ceb9fe1a85ec53) in
  jxor k (jushr k 33).

Definition j_c1 : Z := jlong 0x87c37b91114253d5.
Definition j_c2 : Z := jlong 0x4cf5ad432745937f.

(* (long) key.get(i) & 0xff : the unsigned value of byte i *)
Definition j_ubyte (key : bytes) (i : nat) : Z := Z.of_N (nth i key 0%N).
(* (long) key.get(i) : byte i as a signed 8-bit value, in [-128, 127] *)
Definition j_sbyte (key : bytes) (i : nat) : Z := (Z.of_N (nth i key 0%N) + 128) mod 256 - 128.

(* getBlock(key, offset, index): the sum of the eight masked bytes shifted into place; long
   addition wraps, which for a sum is the wrap of the exact sum *)
Definition j_getblock (key : bytes) (offset index : nat) : Z :=
  let o := (offset + 8 * index)%nat in
  jlong (j_ubyte key o + j_ubyte key (o + 1) * 2 ^ 8 + j_ubyte key (o + 2) * 2 ^ 16
         + j_ubyte key (o + 3) * 2 ^ 24 + j_ubyte key (o + 4) * 2 ^ 32
         + j_ubyte key (o + 5) * 2 ^ 40 + j_ubyte key (o + 6) * 2 ^ 48
         + j_ubyte key (o + 7) * 2 ^ 56).

(* body of `for (int i = 0; i < nblocks; i++)` *)
Definition j_block (key : bytes) (i : nat) (h : Z * Z) : Z * Z :=
  let '(h1, h2) := h in
  let k1 := j_getblock key 0 (2 * i) in
  let k2 := j_getblock key 0 (2 * i + 1) in
  let k1 := jmul k1 j_c1 in
  let k1 := j_rotl64 k1 31 in
  let k1 := jmul k1 j_c2 in
  let h1 := jxor h1 k1 in
  let h1 := j_rotl64 h1 27 in
  let h1 := jadd h1 h2 in
  let h1 := jadd (jmul h1 5) 0x52dce729 in
  let k2 := jmul k2 j_c2 in
  let k2 := j_rotl64 k2 33 in
  let k2 := jmul k2 j_c1 in
  let h2 := jxor h2 k2 in
  let h2 := j_rotl64 h2 31 in
  let h2 := jadd h2 h1 in
  let h2 := jadd (jmul h2 5) 0x38495ab5 in
  (h1, h2).

(* iterations i, i+1, ..., i+n-1 of the block loop *)
Fixpoint j_body (key : bytes) (i n : nat) (h : Z * Z) : Z * Z :=
  match n with
  | O => h
  | S n' => j_body key (S i) n' (j_block key i h)
  end.

(* `switch (length & 15)`: case r executes the statements of all cases <= r (fall-through);
   b i = (long) key.get(offset + i).  k2 collects cases 15..9, k1 cases 8..1. *)
Definition j_tail_k2 (b : nat -> Z) (r : nat) : Z :=
  let k2 := 0 in
  let k2 := if (15 <=? r)%nat then jxor k2 (jshl (b 14%nat) 48) else k2 in
  let k2 := if (14 <=? r)%nat then jxor k2 (jshl (b 13%nat) 40) else k2 in
  let k2 := if (13 <=? r)%nat then jxor k2 (jshl (b 12%nat) 32) else k2 in
  let k2 := if (12 <=? r)%nat then jxor k2 (jshl (b 11%nat) 24) else k2 in
  let k2 := if (11 <=? r)%nat then jxor k2 (jshl (b 10%nat) 16) else k2 in
  let k2 := if (10 <=? r)%nat then jxor k2 (jshl (b 9%nat) 8) else k2 in
  let k2 := if (9 <=? r)%nat then jxor k2 (jshl (b 8%nat) 0) else k2 in
  k2.
Definition j_tail_k1 (b : nat -> Z) (r : nat) : Z :=
  let k1 := 0 in
  let k1 := if (8 <=? r)%nat then jxor k1 (jshl (b 7%nat) 56) else k1 in
  let k1 := if (7 <=? r)%nat then jxor k1 (jshl (b 6%nat) 48) else k1 in
  let k1 := if (6 <=? r)%nat then jxor k1 (jshl (b 5%nat) 40) else k1 in
  let k1 := if (5 <=? r)%nat then jxor k1 (jshl (b 4%nat) 32) else k1 in
  let k1 := if (4 <=? r)%nat then jxor k1 (jshl (b 3%nat) 24) else k1 in
  let k1 := if (3 <=? r)%nat then jxor k1 (jshl (b 2%nat) 16) else k1 in
  let k1 := if (2 <=? r)%nat then jxor k1 (jshl (b 1%nat) 8) else k1 in
  let k1 := if (1 <=? r)%nat then jxor k1 (b 0%nat) else k1 in
  k1.

(* the finalization: from `h1 ^= length` to the end *)
Definition j_final (h1 h2 : Z) (len : Z) : Z * Z :=
  let h1 := jxor h1 len in
  let h2 := jxor h2 len in
  let h1 := jadd h1 h2 in
  let h2 := jadd h2 h1 in
  let h1 := j_fmix h1 in
  let h2 := j_fmix h2 in
  let h1 := jadd h1 h2 in
  let h2 := jadd h2 h1 in
  (h1, h2).

(* hash3_x64_128(key, 0, length, 0): (result[0], result[1]) *)
Definition hash3_x64_128 (key : bytes) : Z * Z :=
  let len := List.length key in
  let nblocks := (len / 16)%nat in                                     (* length >> 4 *)
  let '(h1, h2) := j_body key 0 nblocks (0, 0) in
  let offset := (nblocks * 16)%nat in
  let r := (len mod 16)%nat in                                         (* length & 15 *)
  let b i := j_sbyte key (offset + i) in
  let h2 := if (9 <=? r)%nat
            then jxor h2 (jmul (j_rotl64 (jmul (j_tail_k2 b r) j_c2) 33) j_c1) else h2 in
  let h1 := if (1 <=? r)%nat
            then jxor h1 (jmul (j_rotl64 (jmul (j_tail_k1 b r) j_c1) 31) j_c2) else h1 in
  j_final h1 h2 (Z.of_nat len).

(* Murmur3Partitioner.getToken: hash[0], then normalize (Long.MIN_VALUE -> Long.MAX_VALUE) *)
Definition murmur3_spec (key : bytes) : Z := fst (hash3_x64_128 key).
Definition j_normalize (v : Z) : Z := if v =? - 2 ^ 63 then 2 ^ 63 - 1 else v.
Definition murmur3_token_spec (key : bytes) : Z := j_normalize (murmur3_spec key).

(* CDC partitioner as stated for the property: a key shorter than 8 bytes gets the minimum
   token (i64::MIN as a long); otherwise the big-endian signed 64-bit integer formed by the
   first 8 bytes, normalised *)
Definition cdc_token_spec (key : bytes) : Z :=
  if (length key <? 8)%nat then - 2 ^ 63
  else j_normalize (dec_signed (firstn 8 key)).

Definition token_spec (p : partitioner) (key : bytes) : Z :=
  match p with PMurmur3 => murmur3_token_spec key | PCdc => cdc_token_spec key end.
