(* Model of RequestExecutionParams::run_request_speculative_fiber
   (scylla/src/client/execution.rs, the 'targets_in_plan / 'same_target_retries loops), for
   property C06.  Executable definitions and the relational specification; proofs are in
   Proofs/Fiber_proofs.v.

   The fiber is a function of
     - the plan: the list of targets the `request_plan` iterator yields,
     - an outcome stream: what happens in each iteration of the inner loop, in order --
       `target.get_connection()` fails, or the attempt succeeds, or the attempt fails with an
       error (the environment: connection pools, network, server),
     - the retry policy (an initial session and its `decide` function), the request's
       idempotence flag and its initial consistency.
   It returns the trace of loop iterations (each a failed connection acquisition or an
   attempt with target, consistency used, and -- for a failed attempt -- the error and the
   decision the session took) and the result of the fiber.  One loop iteration consumes one
   outcome; when the stream is exhausted while the loop would still run the result is
   [RPending] (the fiber is waiting; theorems show how long a stream always suffices).

   Not modelled: metrics, history listener and tracing calls, load-balancing feedback
   (`on_attempt_success/failure`), which do not influence control flow; the client-side
   timeout and the speculative-execution layer around the fiber (C13). *)
From SV Require Import Base.Prelude Model.Retry.

Inductive outcome :=
| OConnFail                        (* target.get_connection() returned Err *)
| OSuccess                         (* run_request_once returned Ok(response) *)
| OError (e : attempt_error).      (* run_request_once returned Err(e) *)

Inductive attempt_out :=
| AOk
| AErr (e : attempt_error) (d : decision).

(* RequestError built from the last error: `e.into()` of a ConnectionPoolError or of a
   RequestAttemptError *)
Inductive last_err :=
| LConn
| LAttempt (e : attempt_error).

Section Fiber.
  (* the retry policy: any session type and decision function (the three built-in ones are
     instantiated below; the statements about the loop hold for custom policies too) *)
  Variable St : Type.
  Variable decide : St -> request_info -> St * decision.
  (* targets: (node, shard) pairs or the single control connection; opaque here *)
  Variable T : Type.

  Inductive event :=
  | EvConnFail (t : T)
  | EvAttempt (t : T) (cl : consistency) (o : attempt_out).

  Inductive fiber_result :=
  | RCompleted (t : T)             (* Some(Ok(Completed(response)))   coordinator = t *)
  | RIgnoredWriteError (t : T)     (* Some(Ok(IgnoredWriteError))     coordinator = t *)
  | RFailed (e : last_err)         (* Some(Err(last_error)) *)
  | REmptyPlan                     (* None : last_error was never set *)
  | RPending.                      (* outcome stream exhausted: still looping *)

  (* `last_error.map(Result::Err)` after the outer loop *)
  Definition finish (last : option last_err) : fiber_result :=
    match last with Some e => RFailed e | None => REmptyPlan end.

  (* `new_cl.unwrap_or(current_consistency)` *)
  Definition unwrap_or (new_cl : option consistency) (cl : consistency) : consistency :=
    match new_cl with Some c => c | None => cl end.

  Variable idem : bool.            (* self.is_idempotent *)

  (* One entry of 'same_target_retries for target [t]; [rest] = what the plan iterator still
     holds; [s] = retry session; [cl] = current_consistency.  Every `continue
     'targets_in_plan` is preceded by `last_error = Some(..)`, so the value of `last_error`
     at the moment the plan runs out is the argument given to [next_target]. *)
  Fixpoint same_target_retries (outs : list outcome) (t : T) (rest : list T) (s : St)
           (cl : consistency) {struct outs} : list event * fiber_result :=
    match outs with
    | [] => ([], RPending)
    | o :: outs' =>
        (* `continue 'targets_in_plan` : pull the next target or leave the loop *)
        let next_target (s' : St) (cl' : consistency) (last : last_err) :=
          match rest with
          | [] => ([], finish (Some last))
          | t' :: rest' => same_target_retries outs' t' rest' s' cl'
          end in
        match o with
        | OConnFail =>
            let (tr, r) := next_target s cl LConn in (EvConnFail t :: tr, r)
        | OSuccess => ([EvAttempt t cl AOk], RCompleted t)
        | OError e =>
            let (s', d) := decide s (mk_ri e idem cl) in
            let ev := EvAttempt t cl (AErr e d) in
            match d with
            | RetrySameTarget new_cl =>
                let (tr, r) := same_target_retries outs' t rest s' (unwrap_or new_cl cl) in
                (ev :: tr, r)
            | RetryNextTarget new_cl =>
                let (tr, r) := next_target s' (unwrap_or new_cl cl) (LAttempt e) in
                (ev :: tr, r)
            | DontRetry => ([ev], RFailed (LAttempt e))         (* break 'targets_in_plan *)
            | IgnoreWriteError => ([ev], RIgnoredWriteError t)
            end
        end
    end.

  (* run_request_speculative_fiber: `last_error = None; current_consistency =
     self.consistency`; the retry session is created lazily by `context.retry_session()` at
     the first failed attempt -- `new_session` is pure, so this equals starting with [s0]. *)
  Definition fiber_run (s0 : St) (cl0 : consistency) (plan : list T) (outs : list outcome)
    : list event * fiber_result :=
    match plan with
    | [] => ([], finish None)
    | t :: rest => same_target_retries outs t rest s0 cl0
    end.

  (* ---- specification: "the driver sends exactly the attempts the policy decided".
     A flat transition system over (remaining plan with the current target at its head,
     session, consistency for the next attempt, last error), written from the meaning of
     the four decisions and not from the loop nest:
       - a target whose connection cannot be acquired is skipped without an attempt;
       - a successful attempt ends the request with that target as coordinator;
       - after a failed attempt the session is asked exactly once, with the error, the
         request's idempotence and the consistency that attempt used;
         RetrySameTarget: stay; RetryNextTarget: drop the current target; both replace the
         consistency when they carry one; DontRetry: fail with this error;
         IgnoreWriteError: succeed without a response;
       - when no target is left the request fails with the last error seen (EmptyPlan if
         there was none). *)
  Inductive Exec : list T -> St -> consistency -> option last_err ->
                   list outcome -> list event -> fiber_result -> Prop :=
  | Ex_exhausted s cl last outs :
      Exec [] s cl last outs [] (finish last)
  | Ex_pending t rest s cl last :
      Exec (t :: rest) s cl last [] [] RPending
  | Ex_conn t rest s cl last outs tr r :
      Exec rest s cl (Some LConn) outs tr r ->
      Exec (t :: rest) s cl last (OConnFail :: outs) (EvConnFail t :: tr) r
  | Ex_ok t rest s cl last outs :
      Exec (t :: rest) s cl last (OSuccess :: outs) [EvAttempt t cl AOk] (RCompleted t)
  | Ex_same t rest s cl last e outs s' nc tr r :
      decide s (mk_ri e idem cl) = (s', RetrySameTarget nc) ->
      Exec (t :: rest) s' (unwrap_or nc cl) (Some (LAttempt e)) outs tr r ->
      Exec (t :: rest) s cl last (OError e :: outs)
           (EvAttempt t cl (AErr e (RetrySameTarget nc)) :: tr) r
  | Ex_next t rest s cl last e outs s' nc tr r :
      decide s (mk_ri e idem cl) = (s', RetryNextTarget nc) ->
      Exec rest s' (unwrap_or nc cl) (Some (LAttempt e)) outs tr r ->
      Exec (t :: rest) s cl last (OError e :: outs)
           (EvAttempt t cl (AErr e (RetryNextTarget nc)) :: tr) r
  | Ex_dont t rest s cl last e outs s' :
      decide s (mk_ri e idem cl) = (s', DontRetry) ->
      Exec (t :: rest) s cl last (OError e :: outs)
           [EvAttempt t cl (AErr e DontRetry)] (RFailed (LAttempt e))
  | Ex_ignore t rest s cl last e outs s' :
      decide s (mk_ri e idem cl) = (s', IgnoreWriteError) ->
      Exec (t :: rest) s cl last (OError e :: outs)
           [EvAttempt t cl (AErr e IgnoreWriteError)] (RIgnoredWriteError t).

  (* ---- observations on traces ------------------------------------------- *)
  Definition is_attempt (ev : event) : bool :=
    match ev with EvAttempt _ _ _ => true | EvConnFail _ => false end.
  Definition attempts (tr : list event) : list event := filter is_attempt tr.
  Definition conn_fails (tr : list event) : list event :=
    filter (fun ev => negb (is_attempt ev)) tr.
  Definition ev_target (ev : event) : T :=
    match ev with EvConnFail t => t | EvAttempt t _ _ => t end.
  (* consistencies of the attempts, in order *)
  Fixpoint attempt_cls (tr : list event) : list consistency :=
    match tr with
    | [] => []
    | EvAttempt _ cl _ :: tr' => cl :: attempt_cls tr'
    | EvConnFail _ :: tr' => attempt_cls tr'
    end.
End Fiber.

Arguments EvConnFail {T} _.
Arguments EvAttempt {T} _ _ _.
Arguments RCompleted {T} _.
Arguments RIgnoredWriteError {T} _.
Arguments RFailed {T} _.
Arguments REmptyPlan {T}.
Arguments RPending {T}.
Arguments finish {T} _.
Arguments same_target_retries {St} decide {T} idem outs t rest s cl.
Arguments fiber_run {St} decide {T} idem s0 cl0 plan outs.
Arguments Exec {St} decide {T} idem _ _ _ _ _ _ _.
Arguments is_attempt {T} _.
Arguments attempts {T} _.
Arguments conn_fails {T} _.
Arguments ev_target {T} _.
Arguments attempt_cls {T} _.

(* The fiber under one of the three built-in policies; targets are numbers. *)
Definition fiber (p : policy) (idem : bool) (cl0 : consistency) (plan : list N)
           (outs : list outcome) : list (event N) * fiber_result N :=
  fiber_run decide idem (new_session p) cl0 plan outs.

(* The property as a predicate on an observed trace of the (real) loop, used by the driver
   when the implementation's trace differs from the model's:
   - something follows a failed attempt of a non-idempotent request only after a safe error;
   - under Default nothing follows a failed attempt at a serial consistency;
   - nothing follows a successful attempt;
   - the number of events is within plan length + the policy's same-target retries. *)
Fixpoint resend_ok (p : policy) (idem : bool) (tr : list (event N)) : bool :=
  match tr with
  | [] => true
  | ev :: rest =>
      match rest with
      | [] => true
      | _ :: _ =>
          match ev with
          | EvConnFail _ => true
          | EvAttempt _ _ AOk => false
          | EvAttempt _ c (AErr e _) =>
              (idem || safe_errorb e)
              && negb (match p with PDefault => is_serial c | _ => false end)
          end && resend_ok p idem rest
      end
  end.

Definition prop_trace_ok (p : policy) (idem : bool) (nplan : nat) (tr : list (event N)) : bool :=
  resend_ok p idem tr && (List.length tr <=? nplan + same_target_budget p)%nat.

(* "the driver sends exactly the attempts the policy decided", as a predicate on an observed trace
   WITH the recorded decisions: the events walk the plan -- after RetrySameTarget the same target
   again, after RetryNextTarget or a failed connection acquisition the successor in the plan, after
   a success / DontRetry / IgnoreWriteError nothing -- and the result is the one the end of the
   trace prescribes (pending iff targets are left).  [follow] = the prescribed result. *)
Definition is_nil_ev (l : list (event N)) : bool := match l with [] => true | _ :: _ => false end.

Fixpoint follow (plan : list N) (last : option last_err) (tr : list (event N)) {struct tr}
  : option (fiber_result N) :=
  match tr with
  | [] => Some (match plan with [] => finish last | _ :: _ => RPending end)
  | ev :: rest =>
      match plan with
      | [] => None
      | t :: plan' =>
          if negb (ev_target ev =? t)%N then None else
          match ev with
          | EvConnFail _ => follow plan' (Some LConn) rest
          | EvAttempt _ _ AOk => if is_nil_ev rest then Some (RCompleted t) else None
          | EvAttempt _ _ (AErr e d) =>
              match d with
              | RetrySameTarget _ => follow plan (Some (LAttempt e)) rest
              | RetryNextTarget _ => follow plan' (Some (LAttempt e)) rest
              | DontRetry => if is_nil_ev rest then Some (RFailed (LAttempt e)) else None
              | IgnoreWriteError => if is_nil_ev rest then Some (RIgnoredWriteError t) else None
              end
          end
      end
  end.

Definition last_err_eq_dec (a b : last_err) : {a = b} + {a <> b}.
Proof. decide equality; apply attempt_error_eq_dec. Defined.
Definition fiber_result_eq_dec (a b : fiber_result N) : {a = b} + {a <> b}.
Proof. decide equality; auto using N.eq_dec, last_err_eq_dec. Defined.

Definition followed_ok (plan : list N) (tr : list (event N)) (r : fiber_result N) : bool :=
  match follow plan None tr with
  | Some r' => if fiber_result_eq_dec r r' then true else false
  | None => false
  end.

(* the whole property predicate of the hook tie: safe resend, serial, bound, decisions followed *)
Definition prop_trace_full (p : policy) (idem : bool) (plan : list N) (tr : list (event N))
           (r : fiber_result N) : bool :=
  prop_trace_ok p idem (List.length plan) tr && followed_ok plan tr r.

(* the failed attempts of a trace as the retry session saw them, and the decisions recorded *)
Fixpoint attempt_infos (idem : bool) (tr : list (event N)) : list request_info :=
  match tr with
  | [] => []
  | EvAttempt _ c (AErr e _) :: rest => mk_ri e idem c :: attempt_infos idem rest
  | _ :: rest => attempt_infos idem rest
  end.
Fixpoint attempt_decisions (tr : list (event N)) : list decision :=
  match tr with
  | [] => []
  | EvAttempt _ _ (AErr _ d) :: rest => d :: attempt_decisions rest
  | _ :: rest => attempt_decisions rest
  end.
