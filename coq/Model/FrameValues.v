(* Property C08 — model, part 5 (tablet payload, cached metadata, typed rows and typed tuple targets; the
   theorems C08_tablet_roundtrip, C08_cached_rows_roundtrip, C08_typed_cell_roundtrip are about the functions here):
   - typed deserialisation of the rows (`rows_iter::<Row>()`, Row = Vec<Option<CqlValue>>) through
     the model of `<CqlValue as DeserializeValue>::deserialize` of property C01 (Model/Cql.v);
     C08 compares only WHETHER and WHERE it fails — contents are C01's subject;
   - `RawTablet::from_custom_payload` (scylla/src/routing/locator/tablets.rs l.66-120): the typed
     decode of the "tablets-routing-v1" custom payload entry,
     (i64, i64, ListlikeIterator<(Uuid, i32)>) against tuple<bigint, bigint, list<tuple<uuid, int>>>.
   Executable definitions only. *)
From SV Require Import Base.Prelude Base.Bytes Model.FrameBase Model.FrameTypes Model.FrameResp.
From SV Require Model.Cql.
Open Scope N_scope.

Definition to_ntype (n : native) : Cql.ntype :=
  match n with
  | Ascii => Cql.NAscii | Boolean => Cql.NBoolean | Blob => Cql.NBlob | Counter => Cql.NCounter
  | Date => Cql.NDate | Decimal => Cql.NDecimal | Double => Cql.NDouble | Duration => Cql.NDuration
  | Float => Cql.NFloat | Int => Cql.NInt | BigInt => Cql.NBigInt | Text => Cql.NText
  | Timestamp => Cql.NTimestamp | Inet => Cql.NInet | SmallInt => Cql.NSmallInt | TinyInt => Cql.NTinyInt
  | Time => Cql.NTime | Timeuuid => Cql.NTimeuuid | Uuid => Cql.NUuid | Varint => Cql.NVarint
  end.
Fixpoint to_ctype (t : coltype) : Cql.ctype :=
  match t with
  | TNative n => Cql.TNative (to_ntype n)
  | TList _ e => Cql.TList (to_ctype e)
  | TSet _ e => Cql.TSet (to_ctype e)
  | TMap _ k v => Cql.TMap (to_ctype k) (to_ctype v)
  | TVector e d => Cql.TVector (to_ctype e) d
  | TUdt _ ks nm fs => Cql.TUdt ks nm (List.map (fun f => (fst f, to_ctype (snd f))) fs)
  | TTuple es => Cql.TTuple (List.map to_ctype es)
  end.

(* Row::deserialize on one raw row: the first column whose Option<CqlValue> fails *)
Fixpoint typed_row_ok (cols : list colspec) (row : list cell) : bool :=
  match cols, row with
  | c :: cs, Some s :: r =>
    match Cql.deser_value (to_ctype (cs_type c)) s with
    | Ok _ => typed_row_ok cs r
    | Err _ => false
    end
  | _ :: cs, None :: r => typed_row_ok cs r
  | _, _ => true
  end.
(* TypedRowIterator<Row> driven until the first error: index of the failing row *)
Fixpoint typed_rows_first_error (cols : list colspec) (rows : list (list cell)) (i : N) : option N :=
  match rows with
  | [] => None
  | r :: rs => if typed_row_ok cols r then typed_rows_first_error cols rs (i + 1) else Some i
  end.

(* ---- the tablet routing payload -------------------------------------------------------------- *)
Inductive tablet_err : Type := TbDeserialization | TbShardNum | TbWrongTokenRange.

(* FrameSlice::read_cql_bytes on a plain byte string *)
Definition read_cql_bytes (b : bytes) : option (option bytes * bytes) :=
  match run read_bytes_opt b with Ok x => Some x | Err _ => None end.

(* one element of a typed tuple: no bytes left = null; a fixed-width non-null integer of [k] bytes *)
Definition tuple_fixed (k : nat) (v : bytes) : option (bytes * bytes) :=
  match v with
  | [] => None                                  (* null -> ExpectedNonNull *)
  | _ => match read_cql_bytes v with
         | Some (Some s, r) => if (List.length s =? k)%nat then Some (s, r) else None
         | _ => None
         end
  end.

Fixpoint tablet_replicas (fuel : nat) (count : N) (b : bytes) : result tablet_err (list (bytes * N)) :=
  if count =? 0 then Ok []
  else match fuel with
       | O => Err TbDeserialization
       | S f =>
         match read_cql_bytes b with
         | None => Err TbDeserialization
         | Some (None, _) => Err TbDeserialization            (* null tuple -> ExpectedNonNull *)
         | Some (Some t, r) =>
           match tuple_fixed 16 t with
           | None => Err TbDeserialization
           | Some (u, t1) =>
             match tuple_fixed 4 t1 with
             | None => Err TbDeserialization
             | Some (sh, _) =>
               let shard := dec_signed sh in
               if (shard <? 0)%Z then Err TbShardNum
               else match tablet_replicas f (count - 1) r with
                    | Ok l => Ok ((u, Z.to_N shard) :: l)
                    | Err e => Err e
                    end
             end
           end
         end
       end.

(* RawTablet::from_custom_payload on the entry's bytes: (first token + 1, last token, replicas) *)
Definition tablet_payload (b : bytes) : result tablet_err (Z * Z * list (bytes * N)) :=
  match tuple_fixed 8 b with
  | None => Err TbDeserialization
  | Some (f, r1) =>
    match tuple_fixed 8 r1 with
    | None => Err TbDeserialization
    | Some (l, r2) =>
      (* the list: no bytes left / null = empty iterator; otherwise its [int] count *)
      let lst : option (N * bytes) :=
        match r2 with
        | [] => Some (0, [])
        | _ => match read_cql_bytes r2 with
               | None => None
               | Some (None, _) => Some (0, [])
               | Some (Some s, _) =>
                 match run read_int_length s with Ok (n, s') => Some (n, s') | Err _ => None end
               end
        end in
      match lst with
      | None => Err TbDeserialization
      | Some (count, s') =>
        let first := dec_signed f in
        let last := dec_signed l in
        if (last <=? first)%Z then Err TbWrongTokenRange
        else match tablet_replicas (S (List.length s')) count s' with
             | Ok reps => Ok ((first + 1)%Z, last, reps)
             | Err e => Err e
             end
      end
    end
  end.

Definition tablets_key : bytes :=
  [116; 97; 98; 108; 101; 116; 115; 45; 114; 111; 117; 116; 105; 110; 103; 45; 118; 49]. (* "tablets-routing-v1" *)
Fixpoint payload_lookup (k : bytes) (m : list (bytes * bytes)) : option bytes :=
  match m with
  | [] => None
  | (k', v) :: r => if bytes_eqb k' k then Some v else payload_lookup k r
  end.

(* ---- rows decoded against cached result metadata (the skip-metadata optimisation) --------------- *)
(* RawMetadataAndRawRows::deserialize_metadata with `cached_metadata = Some(m)`: when the server sent
   NO_METADATA the cached column specs are used (ResultMetadataHolder::SharedCached), otherwise the
   metadata of the frame.  [cached] = (col_count, col_specs) of the PREPARED response's result metadata. *)
Section Cached.
Variable custom : custom_parser.
Definition deser_rows_full_cached (ft : features) (cached : option bytes * N * list colspec)
  : parser (rows_result * N) :=
  let '(cid, ccount, ccols) := cached in
  h <- deser_rows_hdr ft ;;
  if rh_no_metadata h then
    rc <- read_int_length ;;
    rows <- deser_rows (lenN ccols) rc ;;
    ret (mkRows h cid ccols rc rows, ccount)
  else
    m <- deser_rows_meta custom h ;;
    let '(id, cols, rc) := m in
    rows <- deser_rows (lenN cols) rc ;;
    ret (mkRows h id cols rc rows, rh_col_count h).

(* two frames on one stream: a PREPARED response, then a Rows response decoded with the first one's
   result metadata as the cache.  None: the pair is not of that shape (the runner then reports the
   same). *)
Definition decode_pair (ft : features) (stream : bytes)
  : option (result (stage * ferr) (rows_result * N)) * cost :=
  match read_frame stream with
  | (Ok ((h1, body1), rest), c1) =>
    if negb (h_flags h1 =? 0) || negb (h_opcode h1 =? 8) then (None, c1)
    else match deser_response custom ft true 8 body1 with
         | (Ok (RResult (ResPrepared p), _), c2) =>
           match read_frame rest with
           | (Ok ((h2, body2), _), c3) =>
             let c123 := cadd c1 (cadd c2 c3) in
             if negb (h_flags h2 =? 0) || negb (h_opcode h2 =? 8) then (None, c123)
             else match run read_int body2 with
                  | Err e => (Some (Err (StBody, e)), c123)
                  | Ok (kind, b2) =>
                    if (kind =? 2)%Z then
                      match deser_rows_full_cached ft (p_result_metadata_id p, pr_col_count p, pr_cols p) b2 with
                      | (Ok (r, _), c4) => (Some (Ok r), cadd c123 c4)
                      | (Err e, c4) => (Some (Err (StBody, e)), cadd c123 c4)
                      end
                    else (None, c123)
                  end
           | (Err e, c3) => (Some (Err (StHeader, e)), cadd c1 (cadd c2 c3))
           end
         | (_, c2) => (None, cadd c1 c2)
         end
  | (_, c1) => (None, c1)
  end.
End Cached.

(* ---- specification side of the tablet payload: tuple<bigint, bigint, list<tuple<uuid, int>>> as the
   CQL value encoding (native_protocol_v4.spec §6: every tuple element and list element is a [bytes]) *)
Definition enc_replica (r : bytes * N) : bytes :=
  enc_bytes (enc_bytes (fst r) ++ enc_bytes (enc_signed 4 (Z.of_N (snd r)))).
Definition enc_tablet (first last : Z) (reps : list (bytes * N)) : bytes :=
  enc_bytes (enc_signed 8 first) ++ enc_bytes (enc_signed 8 last)
  ++ enc_bytes (enc_int (Z.of_N (lenN reps)) ++ flat_map enc_replica reps).
Definition wf_tablet (first last : Z) (reps : list (bytes * N)) : Prop :=
  (- 2 ^ 63 <= first < last)%Z /\ (last < 2 ^ 63)%Z /\ lenN reps < 2 ^ 25 /\
  Forall (fun r => bytes_ok (fst r) /\ lenN (fst r) = 16 /\ snd r < 2 ^ 31) reps.

(* ---- typed decode of a raw cell / row / page (contents, not only success): Option<CqlValue> per column *)
Definition typed_cell (t : coltype) (raw : cell) : Cql.dres Cql.cell :=
  match raw with
  | None => Ok Cql.CNull
  | Some s => match Cql.deser_value (to_ctype t) s with Ok v => Ok (Cql.CVal v) | Err e => Err e end
  end.
Fixpoint typed_row (cols : list colspec) (row : list cell) : Cql.dres (list Cql.cell) :=
  match cols, row with
  | c :: cs, x :: r =>
    match typed_cell (cs_type c) x with
    | Ok v => match typed_row cs r with Ok l => Ok (v :: l) | Err e => Err e end
    | Err e => Err e
    end
  | _, _ => Ok []
  end.

(* ---- typed row targets other than Row: tuples of typed columns (DeserializeRow for (T1, .., Tn)) ----- *)
(* the targets the tie tries, in this order; the first whose type_check accepts the column types:
     1 (Option<i32>,)   2 (Option<i64>, Option<String>)   3 (Option<Vec<u8>>,)   4 (Option<bool>,)
     5 (Option<Vec<Option<i32>>>,)                        (type_check: exact column count, exact types) *)
Definition is_nat (t : coltype) (n : native) : bool :=
  match t with TNative m => N.eqb (id_of_native m) (id_of_native n) | _ => false end.
Definition tuple_target (cols : list colspec) : N :=
  match List.map cs_type cols with
  | [t] =>
    if is_nat t Int then 1 else if is_nat t Blob then 3 else if is_nat t Boolean then 4
    else match t with
         | TList _ e | TSet _ e | TVector e _ => if is_nat e Int then 5 else 0   (* Vec<T>::type_check: list, set, vector *)
         | _ => 0
         end
  | [a; b] => if is_nat a BigInt && (is_nat b Text || is_nat b Ascii) then 2 else 0
  | _ => 0
  end.
Definition fixed_ok (k : nat) (raw : cell) : bool :=
  match raw with None => true | Some s => (List.length s =? k)%nat end.
Fixpoint int_items (fuel : nat) (n : N) (b : bytes) : bool :=
  if n =? 0 then true
  else match fuel with
       | O => false
       | S f => match read_cql_bytes b with
                | None => false
                | Some (None, r) => int_items f (n - 1) r
                | Some (Some e, r) => (List.length e =? 4)%nat && int_items f (n - 1) r
                end
       end.
(* vector<int, d> as Vec<Option<i32>> (VectorIterator, constant element length 4): per element, an
   exhausted slice is a null element (read_n_bytes: Ok(None)), fewer than 4 bytes an error; what is
   left behind the d-th element is ignored *)
Fixpoint vec_int_items (n : nat) (b : bytes) : bool :=
  match n with
  | O => true
  | S k => match b with
           | [] => true
           | _ => (4 <=? List.length b)%nat && vec_int_items k (skipn 4 b)
           end
  end.
(* does the typed target accept the cell (Option<T>: null is fine; T itself as in value.rs) *)
Definition tuple_cell_ok (target : N) (pos : nat) (t : coltype) (raw : cell) : bool :=
  if target =? 1 then fixed_ok 4 raw
  else if target =? 2 then
    match pos with
    | O => fixed_ok 8 raw
    | _ => match raw with
           | None => true
           | Some s => (if is_nat t Ascii then forallb (fun x => x <? 128) s else true) && utf8_valid s
           end
    end
  else if target =? 3 then true
  else if target =? 4 then fixed_ok 1 raw
  else match raw with
       | None => true
       | Some s =>
         match t with
         | TVector _ d => vec_int_items (N.to_nat d) s
         | _ =>
                   match run read_int_length s with
                   | Ok (n, r) => int_items (S (List.length r)) n r
                   | Err _ => false
                   end
         end
       end.
Fixpoint tuple_row_ok (target : N) (pos : nat) (cols : list colspec) (row : list cell) : bool :=
  match cols, row with
  | c :: cs, x :: r => tuple_cell_ok target pos (cs_type c) x && tuple_row_ok target (S pos) cs r
  | _, _ => true
  end.
Fixpoint tuple_rows_first_error (target : N) (cols : list colspec) (rows : list (list cell)) (i : N) : option N :=
  match rows with
  | [] => None
  | r :: rs => if tuple_row_ok target O cols r then tuple_rows_first_error target cols rs (i + 1) else Some i
  end.
