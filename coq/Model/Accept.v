(* Model of the type checks of scylla-cql-core's typed (de)serialisation and of the value buffer
   `SerializedValues` (property C17).  Builds on Model/Cql.v (types, dynamic values, wire helpers).

   Source files modelled (pinned commit of /repo + the fix commits listed in DESIGN.md 12.2):
     serialize/value.rs    every `impl SerializeValue for ..` (exact_type_check! l.60-72 and the
                           per-container checks), serialize_cql_value, serialize_sequence /
                           _mapping / _vector / _udt / _tuple_like, the tuple macro
     serialize/writers.rs  CellWriter::{set_null,set_unset,set_value,into_value_builder},
                           CellValueBuilder::{new (the -3 placeholder), append_bytes,
                           make_sub_writer, make_sub_writer_without_size, finish (length back-patch)},
                           RowWriter::make_cell_writer
     serialize/row.rs      SerializedValues::{new, add_value (truncate on error, u16::MAX cap),
                           element_count, iter (SerializedValuesIterator), from_closure},
                           the slice / tuple SerializeRow impls (serialize_column)
     deserialize/value.rs  `type_check` of every `impl DeserializeValue for ..`
     deserialize/row.rs    type_check of the tuple DeserializeRow impls
     frame/types.rs        read_value
   Executable definitions only; proofs are in Proofs/Accept_proofs.v, statements in Props/C17.v.

   Layout:  1. carriers   2. typed values   3. buffer writers (code)   4. typed serialiser (code)
            5. dynamic serialiser on the buffer (code)   6. type-level acceptance (code)
            7. SerializedValues (code)   8. specification from the documentation   9. known class

   The serialisers of this file work on the BUFFER (`writer := bytes -> bytes * option error`): a
   failed call returns the buffer as the Rust code leaves it, partially written sub-values and
   `-3` placeholders included.  That is what `add_value` truncates. *)
From SV Require Import Base.Prelude Base.Bytes Model.Vint Model.Cql.
From SV Require Model.Request.     (* C09's model of the built-in SerializeRow impls (PART 3) *)
Open Scope N_scope.

(* ====================================================================================== *)
(* 1. Carriers: the Rust types that implement SerializeValue / DeserializeValue             *)
(* ====================================================================================== *)

(* leaf carriers (one per non-generic impl head; feature `full-serialization`) *)
Inductive base :=
| BBool | BI8 | BI16 | BI32 | BI64 | BF32 | BF64
| BStr                  (* `str` (serialize; reached through &, Box, Arc, Cow); `&str` is KRef BStr *)
| BString
| BCounter
| BVecU8 | BSliceU8 (* &[u8] *) | BBytes | BArrU8 (* [u8; N], serialize only *)
| BIpAddr | BUuid | BTimeuuid
| BCqlDate | BChronoDate (* chrono::NaiveDate *) | BTimeDate (* time::Date *)
| BCqlTime | BChronoTime | BTimeTime
| BCqlTimestamp | BChronoDateTime (* chrono::DateTime<Utc> *) | BTimeOffsetDateTime
| BCqlDuration
| BCqlDecimal | BCqlDecimalB (* CqlDecimalBorrowed *) | BBigDecimal
| BCqlVarint | BCqlVarintB | BBigInt03 | BBigInt04
| BUnset.               (* value::Unset, serialize only *)

Inductive carrier :=
| KBase (b : base)
| KCqlValue
| KOption (k : carrier)
| KMaybeUnset (k : carrier)
| KMaybeEmpty (k : carrier)
| KRef (k : carrier) | KBox (k : carrier) | KArc (k : carrier) | KCow (k : carrier)
| KSecret08 (k : carrier)      (* secrecy_08::Secret<V> *)
| KSecretBox10 (k : carrier)   (* secrecy_10::SecretBox<V> *)
| KVec (k : carrier) | KSlice (k : carrier) (* [T] *)
| KHashSet (k : carrier) | KBTreeSet (k : carrier)
| KHashMap (k v : carrier) | KBTreeMap (k v : carrier)
| KTuple (ks : list carrier)
(* deserialization only *)
| KSecretString                (* secrecy_10::SecretString *)
| KSecretSlice (k : carrier)   (* secrecy_10::SecretSlice<S> *)
| KListIter (k : carrier)      (* ListlikeIterator<T> *)
| KVecIter (k : carrier)       (* VectorIterator<T> *)
| KMapIter (k v : carrier)     (* MapIterator<K, V> *)
| KUdtIter                     (* UdtIterator *)
| KFrameSlice.                 (* FrameSliceWithMetadata *)

Definition all_bases : list base :=
  [BBool; BI8; BI16; BI32; BI64; BF32; BF64; BStr; BString; BCounter; BVecU8; BSliceU8; BBytes; BArrU8;
   BIpAddr; BUuid; BTimeuuid; BCqlDate; BChronoDate; BTimeDate; BCqlTime; BChronoTime; BTimeTime;
   BCqlTimestamp; BChronoDateTime; BTimeOffsetDateTime; BCqlDuration; BCqlDecimal; BCqlDecimalB;
   BBigDecimal; BCqlVarint; BCqlVarintB; BBigInt03; BBigInt04; BUnset].

Definition all_ntypes : list ntype :=
  [NAscii; NBoolean; NBlob; NCounter; NDate; NDecimal; NDouble; NDuration; NFloat; NInt; NBigInt; NText;
   NTimestamp; NInet; NSmallInt; NTinyInt; NTime; NTimeuuid; NUuid; NVarint].

Definition ntype_tag (n : ntype) : N :=
  match n with
  | NAscii => 0 | NBoolean => 1 | NBlob => 2 | NCounter => 3 | NDate => 4 | NDecimal => 5 | NDouble => 6
  | NDuration => 7 | NFloat => 8 | NInt => 9 | NBigInt => 10 | NText => 11 | NTimestamp => 12 | NInet => 13
  | NSmallInt => 14 | NTinyInt => 15 | NTime => 16 | NTimeuuid => 17 | NUuid => 18 | NVarint => 19
  end.
Definition ntype_eqb (a b : ntype) : bool := ntype_tag a =? ntype_tag b.

Definition base_tag (b : base) : N :=
  match b with
  | BBool => 0 | BI8 => 1 | BI16 => 2 | BI32 => 3 | BI64 => 4 | BF32 => 5 | BF64 => 6 | BStr => 7 | BString => 8
  | BCounter => 9 | BVecU8 => 10 | BSliceU8 => 11 | BBytes => 12 | BArrU8 => 13 | BIpAddr => 14 | BUuid => 15
  | BTimeuuid => 16 | BCqlDate => 17 | BChronoDate => 18 | BTimeDate => 19 | BCqlTime => 20 | BChronoTime => 21
  | BTimeTime => 22 | BCqlTimestamp => 23 | BChronoDateTime => 24 | BTimeOffsetDateTime => 25
  | BCqlDuration => 26 | BCqlDecimal => 27 | BCqlDecimalB => 28 | BBigDecimal => 29 | BCqlVarint => 30
  | BCqlVarintB => 31 | BBigInt03 => 32 | BBigInt04 => 33 | BUnset => 34
  end.
Definition base_eqb (a b : base) : bool := base_tag a =? base_tag b.

Definition native_in (t : ctype) (l : list ntype) : bool :=
  match t with
  | TNative n => existsb (ntype_eqb n) l
  | _ => false
  end.

(* the `exact_type_check!(typ, ..)` list of each leaf impl in serialize/value.rs *)
Definition ser_base_types (b : base) : list ntype :=
  match b with
  | BBool => [NBoolean] | BI8 => [NTinyInt] | BI16 => [NSmallInt] | BI32 => [NInt] | BI64 => [NBigInt]
  | BF32 => [NFloat] | BF64 => [NDouble]
  | BStr | BString => [NAscii; NText]
  | BCounter => [NCounter]
  | BVecU8 | BSliceU8 | BBytes | BArrU8 => [NBlob]
  | BIpAddr => [NInet] | BUuid => [NUuid] | BTimeuuid => [NTimeuuid]
  | BCqlDate | BChronoDate | BTimeDate => [NDate]
  | BCqlTime | BChronoTime | BTimeTime => [NTime]
  | BCqlTimestamp | BChronoDateTime | BTimeOffsetDateTime => [NTimestamp]
  | BCqlDuration => [NDuration]
  | BCqlDecimal | BCqlDecimalB | BBigDecimal => [NDecimal]
  | BCqlVarint | BCqlVarintB | BBigInt03 | BBigInt04 => [NVarint]
  | BUnset => []                      (* `Unset` has no type check: see [ser_buf] *)
  end.

(* the `impl_strict_type!(T, [..], ..)` list of each leaf impl in deserialize/value.rs;
   [] = no DeserializeValue impl.  `&'a str` is the head for KRef BStr (see [deser_check]). *)
Definition deser_base_types (b : base) : list ntype :=
  match b with
  | BBool => [NBoolean] | BI8 => [NTinyInt] | BI16 => [NSmallInt] | BI32 => [NInt] | BI64 => [NBigInt]
  | BF32 => [NFloat] | BF64 => [NDouble]
  | BString => [NAscii; NText]
  | BCounter => [NCounter]
  | BVecU8 | BSliceU8 | BBytes => [NBlob]
  | BIpAddr => [NInet] | BUuid => [NUuid] | BTimeuuid => [NTimeuuid]
  | BCqlDate | BChronoDate | BTimeDate => [NDate]
  | BCqlTime | BChronoTime | BTimeTime => [NTime]
  | BCqlTimestamp | BChronoDateTime | BTimeOffsetDateTime => [NTimestamp]
  | BCqlDuration => [NDuration]
  | BCqlDecimal | BCqlDecimalB | BBigDecimal => [NDecimal]
  | BCqlVarint | BCqlVarintB | BBigInt03 | BBigInt04 => [NVarint]
  | BStr | BArrU8 | BUnset => []
  end.
Definition string_types : list ntype := [NAscii; NText].

(* value.rs `impl Emptiable for ..` *)
Definition emptiable (b : base) : bool :=
  match b with
  | BBool | BI8 | BI16 | BI32 | BI64 | BF32 | BF64 | BCqlVarint | BCqlVarintB | BCqlDecimal | BCqlDecimalB
  | BCqlDate | BCqlTime | BCqlTimestamp | BTimeuuid | BIpAddr | BUuid | BBigInt03 | BBigInt04 | BBigDecimal
  | BChronoDate | BChronoTime | BChronoDateTime | BTimeDate | BTimeTime | BTimeOffsetDateTime => true
  | _ => false
  end.

Section all2.
  Context {A B : Type}.
  Variable f : A -> B -> bool.
  (* f on the zip of l with a prefix of m; false when m is shorter than l *)
  Fixpoint all2 (l : list A) (m : list B) : bool :=
    match l, m with
    | [], _ => true
    | x :: l', y :: m' => f x y && all2 l' m'
    | _ :: _, [] => false
    end.
  Fixpoint any2 (l : list A) (m : list B) : bool :=
    match l, m with
    | x :: l', y :: m' => f x y || any2 l' m'
    | _, _ => false
    end.
End all2.

Definition is_str (k : carrier) : bool := match k with KBase BStr => true | _ => false end.
(* Cow<'a, [u8]> is written KCow (KBase BSliceU8): BSliceU8 is `&[u8]`, the type Cow borrows *)
Definition is_slice_u8 (k : carrier) : bool := match k with KBase BSliceU8 => true | _ => false end.
Definition emptiable_carrier (k : carrier) : bool := match k with KBase b => emptiable b | _ => false end.

(* "the trait is implemented for the carrier" (Rust decides this at compile time; the theorems
   about deserialization quantify over carriers that have an impl).  Bounds that only concern the
   construction of values (Hash, Ord, Zeroize) are not tracked. *)
Definition sized (k : carrier) : bool :=
  match k with KBase BStr | KSlice _ => false | _ => true end.

Fixpoint ser_impl (k : carrier) : bool :=
  match k with
  | KBase _ | KCqlValue => true
  | KOption k' | KMaybeUnset k' | KSecret08 k' | KVec k' | KSlice k' | KHashSet k' | KBTreeSet k' =>
      sized k' && ser_impl k'
  | KMaybeEmpty k' => emptiable_carrier k'
  | KRef k' | KBox k' | KArc k' | KCow k' | KSecretBox10 k' => ser_impl k'
  | KHashMap a b | KBTreeMap a b => sized a && ser_impl a && sized b && ser_impl b
  | KTuple ks => (1 <=? List.length ks)%nat && (List.length ks <=? 16)%nat && forallb (fun x => sized x && ser_impl x) ks
  | KSecretString | KSecretSlice _ | KListIter _ | KVecIter _ | KMapIter _ _ | KUdtIter | KFrameSlice => false
  end.

Fixpoint deser_impl (k : carrier) : bool :=
  match k with
  | KBase b => negb (is_nil (deser_base_types b))
  | KCqlValue | KFrameSlice | KUdtIter | KSecretString => true
  | KRef k' => is_str k'                                 (* &'a str *)
  | KCow k' => is_str k' || is_slice_u8 k'               (* Cow<'a, str>, Cow<'a, [u8]> through <&T> *)
  | KBox k' | KArc k' => is_str k' || deser_impl k'      (* the special Box<str> / Arc<str> heads *)
  | KOption k' | KSecret08 k' | KSecretBox10 k' | KSecretSlice k' | KVec k' | KHashSet k' | KBTreeSet k'
  | KListIter k' | KVecIter k' => deser_impl k'
  | KMaybeEmpty k' => emptiable_carrier k' && deser_impl k'
  | KHashMap a b | KBTreeMap a b | KMapIter a b => deser_impl a && deser_impl b
  | KTuple ks => (List.length ks <=? 16)%nat && forallb deser_impl ks
  | KMaybeUnset _ | KSlice _ => false
  end.

(* ====================================================================================== *)
(* 2. Values of the carriers                                                               *)
(* ====================================================================================== *)

(* One tree type for the values of all carriers; [has_carrier] says which trees are values of
   which carrier.  Leaf payloads re-use the dynamic value type of Model/Cql.v. *)
Inductive kval :=
| VLeaf (x : cval)             (* a leaf carrier's value (its embedding into CqlValue); a CqlValue *)
| VNull                        (* Option::None *)
| VUnset                       (* Unset, MaybeUnset::Unset *)
| VEmpty                       (* MaybeEmpty::Empty *)
| VWrap (v : kval)             (* Some(v), MaybeUnset::Set(v), MaybeEmpty::Value(v), &v, Box / Arc / Cow / Secret *)
| VSeq (l : list kval)         (* Vec, slice, HashSet, BTreeSet in iteration order *)
| VMap (l : list (kval * kval))
| VTup (l : list kval).

(* which CqlValue constructor a leaf payload is *)
Definition payload_kind (x : cval) : option ntype :=
  match x with
  | CAscii _ => Some NAscii | CBoolean _ => Some NBoolean | CBlob _ => Some NBlob | CCounter _ => Some NCounter
  | CDecimal _ _ => Some NDecimal | CDate _ => Some NDate | CDouble _ => Some NDouble
  | CDuration _ _ _ => Some NDuration | CFloat _ => Some NFloat | CInt _ => Some NInt | CBigInt _ => Some NBigInt
  | CText _ => Some NText | CTimestamp _ => Some NTimestamp | CInet _ => Some NInet | CSmallInt _ => Some NSmallInt
  | CTinyInt _ => Some NTinyInt | CTime _ => Some NTime | CTimeuuid _ => Some NTimeuuid | CUuid _ => Some NUuid
  | CVarint _ => Some NVarint
  | CEmpty | CList _ | CMap _ | CSet _ | CUdt _ _ _ | CTuple _ | CVector _ => None
  end.

(* a leaf carrier holds the payloads of the native types it is written for *)
Definition base_payload (b : base) (x : cval) : bool :=
  match payload_kind x with
  | Some n => existsb (ntype_eqb n) (ser_base_types b)
  | None => false
  end.

(* the bytes a leaf impl hands to set_value / append_bytes (to_be_bytes, as_bytes, octets, vints) *)
Definition leaf_bytes (x : cval) : option bytes :=
  match x with
  | CAscii s | CText s => Some s
  | CBoolean b => Some [if b then 1 else 0]
  | CBlob b => Some b
  | CCounter z | CBigInt z | CTimestamp z | CTime z => Some (enc_signed 8 z)
  | CDecimal scale raw => Some (enc_signed 4 scale ++ raw)
  | CDate d => Some (be_enc 4 d)
  | CDouble bits => Some (be_enc 8 bits)
  | CDuration m d n => Some (vint_encode m ++ vint_encode d ++ vint_encode n)
  | CFloat bits => Some (be_enc 4 bits)
  | CInt z => Some (enc_signed 4 z)
  | CInet b | CTimeuuid b | CUuid b | CVarint b => Some b
  | CSmallInt z => Some (enc_signed 2 z)
  | CTinyInt z => Some (enc_signed 1 z)
  | CEmpty | CList _ | CMap _ | CSet _ | CUdt _ _ _ | CTuple _ | CVector _ => None
  end.

Fixpoint has_carrier (k : carrier) (v : kval) {struct k} : bool :=
  match k with
  | KBase BUnset => match v with VUnset => true | _ => false end
  | KBase b => match v with VLeaf x => base_payload b x | _ => false end
  | KCqlValue => match v with VLeaf _ => true | _ => false end
  | KOption k' => match v with VNull => true | VWrap x => has_carrier k' x | _ => false end
  | KMaybeUnset k' => match v with VUnset => true | VWrap x => has_carrier k' x | _ => false end
  | KMaybeEmpty k' => match v with VEmpty => true | VWrap x => has_carrier k' x | _ => false end
  | KRef k' | KBox k' | KArc k' | KCow k' | KSecret08 k' | KSecretBox10 k' =>
      match v with VWrap x => has_carrier k' x | _ => false end
  | KVec k' | KSlice k' | KHashSet k' | KBTreeSet k' =>
      match v with VSeq l => forallb (has_carrier k') l | _ => false end
  | KHashMap a b | KBTreeMap a b =>
      match v with
      | VMap l => forallb (fun kv => has_carrier a (fst kv) && has_carrier b (snd kv)) l
      | _ => false
      end
  | KTuple ks =>
      match v with
      | VTup vs => (List.length ks =? List.length vs)%nat && all2 has_carrier ks vs
      | _ => false
      end
  | KSecretString | KSecretSlice _ | KListIter _ | KVecIter _ | KMapIter _ _ | KUdtIter | KFrameSlice => false
  end.

(* every optional position is filled and every collection has an element: the values on which the
   lazily evaluated type checks of serialisation visit every position of the carrier *)
Fixpoint populated (v : kval) : bool :=
  match v with
  | VLeaf _ => true
  | VNull | VUnset | VEmpty => false
  | VWrap x => populated x
  | VSeq l => negb (is_nil l) && forallb populated l
  | VMap l => negb (is_nil l) && forallb (fun kv => populated (fst kv) && populated (snd kv)) l
  | VTup l => forallb populated l
  end.

(* ====================================================================================== *)
(* 3. Writers on the buffer: serialize/writers.rs                                          *)
(* ====================================================================================== *)

(* error leaf kinds: those of Model/Cql.v plus the model artefact "the tree is not a value of
   the carrier" (excluded by [has_carrier] in the theorems, never produced by the harness) *)
Inductive kerr :=
| KE (e : ser_err)
| KE_ValueOverflow      (* BuiltinSerializationErrorKind::ValueOverflow (not among Cql.v's leaf kinds) *)
| KE_IllTyped.

(* the buffer after the call, and the error if the call failed *)
Definition sout := (bytes * option kerr)%type.
Definition writer := bytes -> sout.

Definition w_ok : writer := fun buf => (buf, None).
Definition w_fail (e : kerr) : writer := fun buf => (buf, Some e).
(* buf.extend_from_slice(c): set_null, set_unset, append_bytes *)
Definition w_append (c : bytes) : writer := fun buf => (buf ++ c, None).
(* `a?; b` *)
Definition w_then (w k : writer) : writer :=
  fun buf => match w buf with
             | (b, None) => k b
             | (b, Some e) => (b, Some e)
             end.
Fixpoint w_loop {A} (f : A -> writer) (l : list A) : writer :=
  match l with
  | [] => w_ok
  | x :: r => w_then (f x) (w_loop f r)
  end.

(* CellWriter::set_value: the i32 conversion is checked whatever `write_size` says *)
Definition w_set_value (ws : bool) (c : bytes) : writer :=
  fun buf => if i32_max <? blen c then (buf, Some (KE SE_SizeOverflow))
             else (buf ++ (if ws then be32 (blen c) else []) ++ c, None).

(* CellValueBuilder::new pushes -3 when it writes a size *)
Definition placeholder : bytes := enc_signed 4 (-3).
(* `buf[pos..pos + 4].copy_from_slice(four)` *)
Definition patch (buf : bytes) (pos : nat) (four : bytes) : bytes :=
  firstn pos buf ++ four ++ skipn (pos + 4) buf.
(* CellValueBuilder::finish *)
Definition w_finish (ws : bool) (start : nat) : writer :=
  fun buf => if ws then
               let vl := blen buf - N.of_nat start - 4 in
               if i32_max <? vl then (buf, Some (KE SE_SizeOverflow))
               else (patch buf start (be32 vl), None)
             else (buf, None).
(* writer.into_value_builder(); body; builder.finish() *)
Definition w_builder (ws : bool) (body : writer) : writer :=
  fun buf => w_then (w_then (if ws then w_append placeholder else w_ok) body)
                    (w_finish ws (List.length buf)) buf.

(* serialize_sequence (after its match on the type): the builder exists before the element
   count is converted; elements go through sized sub-writers *)
Definition w_sequence {A} (ws : bool) (f : A -> writer) (l : list A) : writer :=
  w_builder ws (fun buf =>
    if i32_max <? N.of_nat (List.length l) then (buf, Some (KE SE_TooManyElements))
    else w_then (w_append (be32 (N.of_nat (List.length l)))) (w_loop f l) buf).

(* serialize_mapping *)
Definition w_mapping {A B} (ws : bool) (fk : A -> writer) (fv : B -> writer) (l : list (A * B)) : writer :=
  w_builder ws (fun buf =>
    if i32_max <? N.of_nat (List.length l) then (buf, Some (KE SE_TooManyElements))
    else w_then (w_append (be32 (N.of_nat (List.length l))))
                (w_loop (fun kv => w_then (fk (fst kv)) (fv (snd kv))) l) buf).

(* serialize_next_variable_length_elem: the element is written into a scratch Vec through a
   size-less writer; on success its vint length and the scratch bytes are appended *)
Definition w_var_elem (w : writer) : writer :=
  fun buf => match w [] with
             | (_, Some e) => (buf, Some e)
             | (eb, None) => (buf ++ uvint_encode (blen eb mod two64) ++ eb, None)
             end.

(* serialize_vector; [f] writes one element through a size-less writer *)
Definition w_vector {A} (ws fixed : bool) (dim : N) (f : A -> writer) (l : list A) : writer :=
  if negb (N.of_nat (List.length l) =? dim) then w_fail (KE SE_VectorLen)
  else w_builder ws (w_loop (fun x => if fixed then f x else w_var_elem (f x)) l).

Definition is_some {A} (o : option A) : bool := match o with Some _ => true | None => false end.

(* ====================================================================================== *)
(* 4. The typed serialiser: `<K as SerializeValue>::serialize(&v, typ, writer)`              *)
(* ====================================================================================== *)

(* the three decimal carriers go through a value builder, everything else through set_value *)
Definition uses_builder (b : base) : bool :=
  match b with BCqlDecimal | BCqlDecimalB | BBigDecimal => true | _ => false end.

(* The two conversions that can fail (serialize/value.rs l.141-156, l.189-198):
   chrono::NaiveTime -> CqlTime fails on a leap second (more than 86399999999999 ns since
   midnight; the payload CTime z carries those ns), bigdecimal's i64 exponent -> i32 scale fails
   outside i32 (the payload CDecimal scale raw carries the i64 exponent). *)
Definition value_overflow (b : base) (x : cval) : bool :=
  match b, x with
  | BChronoTime, CTime z => (time_max <? z)%Z
  | BBigDecimal, CDecimal scale _ => negb (i32_ok scale)
  | _, _ => false
  end.

(* a leaf impl: exact_type_check!, then the conversion (BigDecimal: AFTER into_value_builder, so
   the -3 placeholder is already in the buffer when ValueOverflow is returned), then the bytes *)
Definition ser_leaf (b : base) (ws : bool) (t : ctype) (x : cval) : writer :=
  if negb (native_in t (ser_base_types b)) then w_fail (KE SE_MismatchedType)
  else if negb (base_payload b x) then w_fail KE_IllTyped
  else match leaf_bytes x with
       | None => w_fail KE_IllTyped
       | Some c =>
           if uses_builder b
           then w_builder ws (if value_overflow b x then w_fail KE_ValueOverflow else w_append c)
           else if value_overflow b x then w_fail KE_ValueOverflow else w_set_value ws c
       end.

Definition ill : writer := w_fail KE_IllTyped.

(* serialize_cql_value's dispatch of a leaf variant: `<_ as SerializeValue>::serialize(&x, ..)` *)
Definition dyn_base (x : cval) : base :=
  match x with
  | CAscii _ | CText _ => BString
  | CBoolean _ => BBool | CBlob _ => BVecU8 | CCounter _ => BCounter | CDecimal _ _ => BCqlDecimal
  | CDate _ => BCqlDate | CDouble _ => BF64 | CDuration _ _ _ => BCqlDuration | CFloat _ => BF32
  | CInt _ => BI32 | CBigInt _ => BI64 | CTimestamp _ => BCqlTimestamp | CInet _ => BIpAddr
  | CSmallInt _ => BI16 | CTinyInt _ => BI8 | CTime _ => BCqlTime | CTimeuuid _ => BTimeuuid
  | CUuid _ => BUuid | CVarint _ => BCqlVarint
  | CEmpty | CList _ | CMap _ | CSet _ | CUdt _ _ _ | CTuple _ | CVector _ => BUnset   (* not leaves *)
  end.

(* ====================================================================================== *)
(* 5. The dynamic serialiser on the buffer: serialize_cql_value                            *)
(* ====================================================================================== *)
(* The buffer-level twin of Model/Cql.v [ser_value] (lemma ser_dyn_value relates them). *)
Fixpoint ser_dyn (ws : bool) (t : ctype) (v : cval) {struct t} : writer :=
  match v with
  | CEmpty => if supports_empty t then w_set_value ws [] else w_fail (KE SE_NotEmptyable)
  | CList l | CSet l | CVector l =>
      match t with
      | TList e | TSet e => w_sequence ws (ser_dyn true e) l
      | TVector e dim => w_vector ws (is_some (type_size e)) dim (ser_dyn false e) l
      | _ => w_fail (KE SE_NotSetOrList)
      end
  | CMap l =>
      match t with
      | TMap k e => w_mapping ws (ser_dyn true k) (ser_dyn true e) l
      | _ => w_fail (KE SE_NotMap)
      end
  | CUdt ks nm fields =>
      match t with
      | TUdt ks' nm' fts =>
          if negb (bytes_eqb ks ks' && bytes_eqb nm nm') then w_fail (KE SE_UdtNameMismatch) else
          w_builder ws
            ((fix go (fts : list (name * ctype)) (st : list (name * option cval)) {struct fts} : writer :=
                match fts with
                | [] => if is_nil st then w_ok else w_fail (KE SE_NoSuchFieldInUdt)
                | (fname, ft) :: r =>
                    w_then (match udt_field_value fname st with
                            | None => w_append null_marker
                            | Some x => ser_dyn true ft x
                            end)
                           (go r (remove_name fname st))
                end) fts fields)
      | _ => w_fail (KE SE_NotUdt)
      end
  | CTuple l =>
      match t with
      | TTuple ts =>
          if (List.length ts <? List.length l)%nat then w_fail (KE SE_TupleWrongCount) else
          w_builder ws
            ((fix go (ts : list ctype) (l : list (option cval)) {struct ts} : writer :=
                match ts, l with
                | et :: ts', ox :: l' =>
                    w_then (match ox with
                            | None => w_append null_marker
                            | Some x => ser_dyn true et x
                            end)
                           (go ts' l')
                | _, _ => w_ok
                end) ts l)
      | _ => w_fail (KE SE_NotTuple)
      end
  | CAscii _ | CBoolean _ | CBlob _ | CCounter _ | CDecimal _ _ | CDate _ | CDouble _ | CDuration _ _ _
  | CFloat _ | CInt _ | CBigInt _ | CText _ | CTimestamp _ | CInet _ | CSmallInt _ | CTinyInt _ | CTime _
  | CTimeuuid _ | CUuid _ | CVarint _ => ser_leaf (dyn_base v) ws t v
  end.

(* [ws] is the `write_size` flag of the CellWriter the value is serialised into.  Recursion is
   structural on the carrier; the checks are made in the order of the code. *)
Fixpoint ser_buf (k : carrier) (ws : bool) (t : ctype) (v : kval) {struct k} : writer :=
  match k with
  (* `impl SerializeValue for Unset`: writer.set_unset(), no look at the type *)
  | KBase BUnset => match v with VUnset => w_append unset_marker | _ => ill end
  | KBase b => match v with VLeaf x => ser_leaf b ws t x | _ => ill end
  | KCqlValue => match v with VLeaf x => ser_dyn ws t x | _ => ill end
  | KOption k' =>
      match v with VNull => w_append null_marker | VWrap x => ser_buf k' ws t x | _ => ill end
  | KMaybeUnset k' =>
      match v with VUnset => w_append unset_marker | VWrap x => ser_buf k' ws t x | _ => ill end
  | KMaybeEmpty k' =>
      if negb (supports_empty t) then w_fail (KE SE_NotEmptyable) else
      match v with VEmpty => w_set_value ws [] | VWrap x => ser_buf k' ws t x | _ => ill end
  | KRef k' | KBox k' | KArc k' | KCow k' | KSecret08 k' | KSecretBox10 k' =>
      match v with VWrap x => ser_buf k' ws t x | _ => ill end
  (* Vec<T>, [T]: List | Set -> serialize_sequence, Vector -> serialize_vector *)
  | KVec k' | KSlice k' =>
      match v with
      | VSeq l =>
          match t with
          | TList e | TSet e => w_sequence ws (ser_buf k' true e) l
          | TVector e dim => w_vector ws (is_some (type_size e)) dim (ser_buf k' false e) l
          | _ => w_fail (KE SE_NotSetOrList)
          end
      | _ => ill
      end
  (* HashSet, BTreeSet: serialize_sequence only *)
  | KHashSet k' | KBTreeSet k' =>
      match v with
      | VSeq l =>
          match t with
          | TList e | TSet e => w_sequence ws (ser_buf k' true e) l
          | _ => w_fail (KE SE_NotSetOrList)
          end
      | _ => ill
      end
  | KHashMap a b | KBTreeMap a b =>
      match v with
      | VMap l =>
          match t with
          | TMap tk tv => w_mapping ws (ser_buf a true tk) (ser_buf b true tv) l
          | _ => w_fail (KE SE_NotMap)
          end
      | _ => ill
      end
  (* the tuple macro: the CQL tuple may have MORE components than the Rust tuple *)
  | KTuple ks =>
      match v with
      | VTup vs =>
          match t with
          | TTuple ts =>
              if (List.length ts <? List.length ks)%nat then w_fail (KE SE_TupleWrongCount) else
              w_builder ws
                ((fix go (ks : list carrier) (ts : list ctype) (vs : list kval) {struct ks} : writer :=
                    match ks, ts, vs with
                    | [], _, [] => w_ok
                    | k1 :: ks', t1 :: ts', v1 :: vs' => w_then (ser_buf k1 true t1 v1) (go ks' ts' vs')
                    | _, _, _ => ill
                    end) ks ts vs)
          | _ => w_fail (KE SE_NotTuple)
          end
      | _ => ill
      end
  | KSecretString | KSecretSlice _ | KListIter _ | KVecIter _ | KMapIter _ _ | KUdtIter | KFrameSlice => ill
  end.

(* ====================================================================================== *)
(* 6. Type-level acceptance                                                                *)
(* ====================================================================================== *)

(* What the checks of section 4 amount to when every position of the carrier is visited (a
   populated value): would `serialize` raise a type-check error?  CqlValue decides per value
   ([ser_dyn]); at the type level it is the carrier that fits every type. *)
Fixpoint ser_accepts (k : carrier) (t : ctype) {struct k} : bool :=
  match k with
  | KBase BUnset => true
  | KBase b => native_in t (ser_base_types b)
  | KCqlValue => true
  | KOption k' | KMaybeUnset k' | KRef k' | KBox k' | KArc k' | KCow k' | KSecret08 k' | KSecretBox10 k' =>
      ser_accepts k' t
  | KMaybeEmpty k' => supports_empty t && ser_accepts k' t
  | KVec k' | KSlice k' =>
      match t with TList e | TSet e | TVector e _ => ser_accepts k' e | _ => false end
  | KHashSet k' | KBTreeSet k' =>
      match t with TList e | TSet e => ser_accepts k' e | _ => false end
  | KHashMap a b | KBTreeMap a b =>
      match t with TMap tk tv => ser_accepts a tk && ser_accepts b tv | _ => false end
  | KTuple ks =>
      match t with TTuple ts => all2 ser_accepts ks ts | _ => false end
  | KSecretString | KSecretSlice _ | KListIter _ | KVecIter _ | KMapIter _ _ | KUdtIter | KFrameSlice => false
  end.

(* leaf kinds of deserialize::value::BuiltinTypeCheckError *)
Inductive tck_err :=
| TE_MismatchedType
| TE_NotSetOrList | TE_NotSet
| TE_NotVector
| TE_NotMap
| TE_NotTuple | TE_TupleWrongCount
| TE_NotUdt
| TE_NotDeserializableToVec
| TE_NoImpl.            (* model artefact: the carrier has no DeserializeValue impl *)

Definition tres := option tck_err.     (* None = Ok(()) *)
Definition t_and (a b : tres) : tres := match a with None => b | Some e => Some e end.
Definition t_native (t : ctype) (l : list ntype) : tres :=
  if native_in t l then None else Some TE_MismatchedType.

(* `<K as DeserializeValue>::type_check(typ)`; the first failing check, innermost leaf kind *)
Fixpoint deser_check (k : carrier) (t : ctype) {struct k} : tres :=
  match k with
  | KBase b => if is_nil (deser_base_types b) then Some TE_NoImpl else t_native t (deser_base_types b)
  | KCqlValue | KFrameSlice => None
  | KOption k' | KMaybeEmpty k' | KSecret08 k' | KSecretBox10 k' => deser_check k' t
  (* &'a str (impl_string_type!), Cow<'a, T> where &T: DeserializeValue *)
  | KRef k' => if is_str k' then t_native t string_types else Some TE_NoImpl
  | KCow k' => if is_str k' then t_native t string_types
               else if is_slice_u8 k' then t_native t [NBlob] else Some TE_NoImpl
  (* Box<str> -> String's check, Arc<str> -> &str's check; otherwise T::type_check *)
  | KBox k' | KArc k' => if is_str k' then t_native t string_types else deser_check k' t
  | KSecretString => t_native t string_types
  (* Vec<T>: List | Set -> ListlikeIterator, Vector -> VectorIterator, else NotDeserializableToVec *)
  | KVec k' | KSecretSlice k' =>
      match t with
      | TList e | TSet e | TVector e _ => deser_check k' e
      | _ => Some TE_NotDeserializableToVec
      end
  | KBTreeSet k' | KHashSet k' =>
      match t with TSet e => deser_check k' e | _ => Some TE_NotSet end
  | KListIter k' =>
      match t with TList e | TSet e => deser_check k' e | _ => Some TE_NotSetOrList end
  | KVecIter k' =>
      match t with TVector e _ => deser_check k' e | _ => Some TE_NotVector end
  | KHashMap a b | KBTreeMap a b | KMapIter a b =>
      match t with TMap tk tv => t_and (deser_check a tk) (deser_check b tv) | _ => Some TE_NotMap end
  (* ensure_tuple_type: exactly the arity of the Rust tuple *)
  | KTuple ks =>
      match t with
      | TTuple ts =>
          if negb (List.length ks =? List.length ts)%nat then Some TE_TupleWrongCount else
          (fix go (ks : list carrier) (ts : list ctype) {struct ks} : tres :=
             match ks, ts with
             | k1 :: ks', t1 :: ts' => t_and (deser_check k1 t1) (go ks' ts')
             | _, _ => None
             end) ks ts
      | _ => Some TE_NotTuple
      end
  | KUdtIter => match t with TUdt _ _ _ => None | _ => Some TE_NotUdt end
  | KMaybeUnset _ | KSlice _ => Some TE_NoImpl
  end.

Definition deser_accepts (k : carrier) (t : ctype) : bool :=
  match deser_check k t with None => true | Some _ => false end.

(* deserialize/row.rs: `<(T0, .., Tn) as DeserializeRow>::type_check(specs)`, what
   TypedRowIterator::new calls once before any row is read *)
Definition row_accepts (ks : list carrier) (cols : list ctype) : bool :=
  (List.length ks =? List.length cols)%nat && all2 deser_accepts ks cols.

(* the same with the error: WrongColumnCount, or the first failing column and its leaf kind *)
Inductive rowck := RK_Ok | RK_WrongColumnCount | RK_Column (i : nat) (e : tck_err).
Fixpoint row_cols (i : nat) (ks : list carrier) (cols : list ctype) : rowck :=
  match ks, cols with
  | k :: ks', t :: cols' =>
      match deser_check k t with
      | Some e => RK_Column i e
      | None => row_cols (S i) ks' cols'
      end
  | _, _ => RK_Ok
  end.
Definition row_check (ks : list carrier) (cols : list ctype) : rowck :=
  if (List.length ks =? List.length cols)%nat then row_cols 0 ks cols else RK_WrongColumnCount.

(* deserialize/result.rs TypedRowIterator::new(raw): `R::type_check(raw.specs())?` comes first; an
   iterator exists only when the check passed (TypedRowStream in scylla/src/client/pager.rs has its own
   call of the same check and is not modelled).  [rows] is the
   number of rows the raw iterator holds: what the typed iterator may hand to deserialize. *)
Definition typed_rows (ks : list carrier) (cols : list ctype) (rows : N) : result rowck N :=
  match row_check ks cols with
  | RK_Ok => Ok rows
  | e => Err e
  end.

(* ====================================================================================== *)
(* 7. SerializedValues: serialize/row.rs                                                   *)
(* ====================================================================================== *)

Record svals := { sv_bytes : bytes; sv_count : N }.     (* serialized_values, element_count: u16 *)
Definition sv_new : svals := {| sv_bytes := []; sv_count := 0 |}.

Inductive row_err :=
| RE_TooManyValues
| RE_WrongColumnCount
| RE_Ser (e : kerr).

Definition u16_max : N := 65535.

(* Vec::resize(n, 0) *)
Definition resize (n : nat) (b : bytes) : bytes := firstn n b ++ repeat 0 (n - List.length b).

(* SerializedValues::add_value(&mut self, val, typ) *)
Definition add_value (s : svals) (k : carrier) (t : ctype) (v : kval) : svals * option row_err :=
  if sv_count s =? u16_max then (s, Some RE_TooManyValues) else
  let len_before := List.length (sv_bytes s) in
  match ser_buf k true t v (sv_bytes s) with
  | (buf', Some e) => ({| sv_bytes := resize len_before buf'; sv_count := sv_count s |}, Some (RE_Ser e))
  | (buf', None) => ({| sv_bytes := buf'; sv_count := (sv_count s + 1) mod 65536 |}, None)
  end.

(* frame/types.rs RawValue / read_value *)
Inductive rawvalue := RNull | RUnset | RValue (b : bytes).
Definition read_value (b : bytes) : option (rawvalue * bytes) :=
  match read_int b with
  | None => None
  | Some (len, r) =>
      if (len =? -2)%Z then Some (RUnset, r)
      else if (len =? -1)%Z then Some (RNull, r)
      else if (0 <=? len)%Z then
        match take_n (Z.to_N len) r with
        | Some (x, r') => Some (RValue x, r')
        | None => None
        end
      else None
  end.

(* SerializedValues::iter() collected: None = the iterator panics ("badly encoded value").
   Every successful read consumes at least 4 bytes, so fuel = 1 + length never runs out. *)
Fixpoint sv_iter_go (fuel : nat) (b : bytes) : option (list rawvalue) :=
  if is_nil b then Some [] else
  match fuel with
  | O => None
  | S f =>
      match read_value b with
      | None => None
      | Some (x, r) => option_map (cons x) (sv_iter_go f r)
      end
  end.
Definition sv_iter (s : svals) : option (list rawvalue) :=
  sv_iter_go (S (List.length (sv_bytes s))) (sv_bytes s).

(* an operation sequence on one SerializedValues *)
Definition bind_op := (carrier * ctype * kval)%type.
Definition apply_op (s : svals) (o : bind_op) : svals :=
  match o with (k, t, v) => fst (add_value s k t v) end.
Definition run_ops (ops : list bind_op) : svals := fold_left apply_op ops sv_new.

(* SerializedValues::from_serializable for the slice / Vec / tuple rows: WrongColumnCount, then
   serialize_column per value (RowWriter::make_cell_writer counts BEFORE the cell is written; an
   error aborts and the buffer is dropped), then value_count -> u16 in from_closure *)
Fixpoint row_write (cols : list ctype) (vals : list (carrier * kval)) (buf : bytes) (cnt : N)
  : bytes * N * option kerr :=
  match cols, vals with
  | t :: cols', (k, v) :: vals' =>
      match ser_buf k true t v buf with
      | (b, Some e) => (b, cnt + 1, Some e)
      | (b, None) => row_write cols' vals' b (cnt + 1)
      end
  | _, _ => (buf, cnt, None)
  end.
Definition from_row (cols : list ctype) (vals : list (carrier * kval)) : result row_err svals :=
  if negb (List.length cols =? List.length vals)%nat then Err RE_WrongColumnCount else
  match row_write cols vals [] 0 with
  | (_, _, Some e) => Err (RE_Ser e)
  | (b, cnt, None) => if u16_max <? cnt then Err RE_TooManyValues else Ok {| sv_bytes := b; sv_count := cnt |}
  end.

(* SerializedValues::from_closure with a closure that adds cells (make_cell_writer) and whole rows
   (RowWriter::append_serialize_row): value_count is a usize sum, converted to u16 at the end *)
Definition closure_count (parts : list N) : result row_err N :=
  let total := fold_left N.add parts 0 in
  if u16_max <? total then Err RE_TooManyValues else Ok total.

(* Rows bound BY NAME: `impl SerializeRow for BTreeMap<String | &str, T>` / `HashMap<String | &str, T, S>`
   (serialize/row.rs impl_serialize_row_for_map!) and, for completeness, the unit / sequence rows,
   through SerializedValues::from_serializable.  The binding of a row to the statement's columns is
   C09's model [Request.bind_row] (per column `self.get(col.name())` -> ValueMissingForColumn,
   serialize_column, then the lexicographically first unused key -> NoColumnWithName, then the u16
   count check), imported, not copied; it is instantiated here with the real value serialiser:
   a value is a (carrier, tree) pair, a column type a [ctype], and one value for one column is
   [ser_out] through a sized CellWriter. *)
Definition cell_of_out (o : bytes) : Request.cell :=
  if bytes_eqb o null_marker then Request.CNull
  else if bytes_eqb o unset_marker then Request.CUnset
  else Request.CVal (skipn 4 o).
Definition cell_wire (c : Request.cell) : bytes :=
  match c with
  | Request.CNull => null_marker
  | Request.CUnset => unset_marker
  | Request.CVal b => framed b
  end.
Definition named_vser (kv : carrier * kval) (t : ctype) : option Request.cell :=
  match ser_buf (fst kv) true t (snd kv) [] with
  | (o, None) => Some (cell_of_out o)
  | (_, Some _) => None
  end.
Definition typed_row := Request.row (carrier * kval).
Definition sv_of_cells (cells : list Request.cell) : svals :=
  {| sv_bytes := concat (map cell_wire cells); sv_count := N.of_nat (List.length cells) |}.
Definition from_typed_row (cols : list (bytes * ctype)) (r : typed_row) : result Request.row_err svals :=
  match Request.bind_row (carrier * kval) ctype named_vser cols r with
  | Ok cells => Ok (sv_of_cells cells)
  | Err e => Err e
  end.

(* The same state held as the list of appended chunks, most recent first: what the correspondence
   driver uses for long sequences (lemma add_value_chunks: it is add_value on the concatenation). *)
Definition add_value_chunks (cs : list bytes) (cnt : N) (k : carrier) (t : ctype) (v : kval)
  : list bytes * N * option row_err :=
  if cnt =? u16_max then (cs, cnt, Some RE_TooManyValues) else
  match ser_buf k true t v [] with
  | (_, Some e) => (cs, cnt, Some (RE_Ser e))
  | (o, None) => (o :: cs, (cnt + 1) mod 65536, None)
  end.
(* oldest chunk first; written as a fold so that the extracted code is linear *)
Definition chunks_bytes (cs : list bytes) : bytes := fold_left (fun acc c => c ++ acc) cs [].

(* ====================================================================================== *)
(* 8. Specification: which Rust type goes with which CQL type, from the documentation       *)
(* ====================================================================================== *)
(* Transcribed from /repo/docs/source/data-types/ (data-types.md: the table "Database types and
   their Rust equivalents" and the line "Additionally, Box, Arc, and Cow serialization and
   deserialization is supported for all above types"; blob.md, text.md, collections.md, tuple.md,
   vector.md, udt.md and the per-type pages), docs/source/statements/values.md (Option -> NULL,
   Unset / MaybeUnset, CqlValue, values passed by reference) and statements/result.md (Option on
   reading).  Carriers those pages do not mention are taken from their rustdoc, quoted below.
   Nothing here is derived from the checks of sections 4-6. *)

Inductive dir := Ser | De.
Definition is_ser (d : dir) : bool := match d with Ser => true | De => false end.
Definition is_de (d : dir) : bool := negb (is_ser d).

(* data-types.md, one line per CQL type: the leaf carriers, and in which directions *)
Definition both (b : base) := (b, true, true).
Definition ser_only (b : base) := (b, true, false).
Definition doc_carriers (n : ntype) : list (base * bool * bool) :=
  match n with
  | NBoolean => [both BBool]                                         (* `Boolean` <----> `bool` *)
  | NTinyInt => [both BI8] | NSmallInt => [both BI16] | NInt => [both BI32] | NBigInt => [both BI64]
  | NFloat => [both BF32] | NDouble => [both BF64]
  (* `Ascii`, `Text`, `Varchar` <----> `&str`, `String`, `Box<str>`, `Arc<str>` *)
  | NAscii | NText => [both BStr; both BString]
  | NCounter => [both BCounter]                                      (* `value::Counter` *)
  (* `Blob` <----> `&[u8]`, `Vec<u8>`, `Bytes`, (and `[u8; N]` for serialization only) *)
  | NBlob => [both BSliceU8; both BVecU8; both BBytes; ser_only BArrU8]
  | NInet => [both BIpAddr] | NUuid => [both BUuid] | NTimeuuid => [both BTimeuuid]
  | NDate => [both BCqlDate; both BChronoDate; both BTimeDate]
  | NTime => [both BCqlTime; both BChronoTime; both BTimeTime]
  | NTimestamp => [both BCqlTimestamp; both BChronoDateTime; both BTimeOffsetDateTime]
  | NDuration => [both BCqlDuration]
  | NDecimal => [both BCqlDecimal; both BCqlDecimalB; both BBigDecimal]
  | NVarint => [both BCqlVarint; both BCqlVarintB; both BBigInt03; both BBigInt04]
  end.
Definition doc_base (d : dir) (b : base) (n : ntype) : bool :=
  existsb (fun e => match e with (b', s, r) => base_eqb b b' && (if is_ser d then s else r) end)
          (doc_carriers n).

(* A CQL vector has no representation for a null / not-set element, and an element of a type with
   a fixed width has none for the empty value either (vector.md: "Vector is represented as
   Vec<T>"; the wire format is [enc_spec] of Model/Cql.v): a carrier that can produce such a
   value cannot be the element carrier of a vector bind value. *)
Fixpoint nullable (k : carrier) : bool :=
  match k with
  | KOption _ | KMaybeUnset _ | KBase BUnset => true
  | KRef k' | KBox k' | KArc k' | KCow k' | KSecret08 k' | KSecretBox10 k' | KMaybeEmpty k' => nullable k'
  | _ => false
  end.
Fixpoint can_be_empty (k : carrier) : bool :=
  match k with
  | KMaybeEmpty _ => true
  | KRef k' | KBox k' | KArc k' | KCow k' | KSecret08 k' | KSecretBox10 k' | KOption k' | KMaybeUnset k' =>
      can_be_empty k'
  | _ => false
  end.
Definition vec_elem_ok (k : carrier) (e : ctype) : bool :=
  negb (nullable k) && (negb (can_be_empty k) || negb (is_some (type_size e))).

(* What the documentation does NOT give, and the code concedes (serialisation only).  Each is a
   flag of [compat], so that a reader sees what each concession lets through:
     r_tuple  a Rust tuple may have fewer components than the CQL tuple (rustdoc of
              TupleTypeCheckErrorKind::WrongElementCount: "it is allowed to write a Rust tuple with
              less elements than the corresponding CQL type, but not more");
     r_set    a Rust HashSet / BTreeSet may be bound to a list column (same wire format; rustdoc of
              SetOrListTypeCheckErrorKind::NotSetOrList: "neither a set, nor a list, nor a vector");
     r_unset  Unset / MaybeUnset below the bind marker itself (as a list element, map key or value,
              tuple field): values.md documents them for bind values only - the protocol defines
              "not set" for a [value] and not for the [bytes] items inside one; the code writes the
              -2 marker there, a server reads a negative [bytes] length as null.  No documentation
              supports this one: it is conceded, not specified (observation O3 of docs/C17.md);
     r_vec    the vector element rule [vec_elem_ok] dropped: NOT conceded - this is finding F2b. *)
Record relax := { r_tuple : bool; r_set : bool; r_unset : bool; r_vec : bool }.
Definition docs_only : relax := {| r_tuple := false; r_set := false; r_unset := false; r_vec := false |}.
Definition conceded : relax := {| r_tuple := true; r_set := true; r_unset := true; r_vec := false |}.
Definition as_code : relax := {| r_tuple := true; r_set := true; r_unset := true; r_vec := true |}.

(* [compat r d top k t]: carrier k goes with CQL type t in direction d; [top] = the position is
   the bind marker / result column itself (not inside a collection, tuple or UDT). *)
Fixpoint compat (r : relax) (d : dir) (top : bool) (k : carrier) (t : ctype) {struct k} : bool :=
  match k with
  (* values.md: "If we are sure that a value should be unset we can simply use Unset" *)
  | KBase BUnset => is_ser d && (top || r_unset r)
  | KBase b => match t with TNative n => doc_base d b n | _ => false end
  (* values.md sends CqlValue for any column; rustdoc: "CqlValue accepts all possible CQL types" *)
  | KCqlValue => true
  (* values.md: "Null values can be sent using Option<>"; result.md: "parse column as an Option<>" *)
  | KOption k' => compat r d top k' t
  (* values.md: MaybeUnset (bind values only) *)
  | KMaybeUnset k' => is_ser d && (top || r_unset r) && compat r d top k' t
  (* rustdoc of MaybeEmpty: "When serializing, MaybeEmpty::Empty will produce an empty value
     (0 bytes) for emptiable types. When deserializing, an empty value will be represented as
     MaybeEmpty::Empty" *)
  | KMaybeEmpty k' => supports_empty t && compat r d top k' t
  (* data-types.md: Box, Arc, Cow for all types; the pages pass values by reference; secrecy
     wrappers expose the inner value *)
  | KRef k' | KBox k' | KArc k' | KCow k' | KSecret08 k' | KSecretBox10 k' => compat r d top k' t
  (* `List` <----> `Vec<T>`, `Set` <----> `Vec<T>`, `Vector` <----> `Vec<T>` *)
  | KVec k' =>
      match t with
      | TList e | TSet e => compat r d false k' e
      | TVector e _ => compat r d false k' e && (is_de d || r_vec r || vec_elem_ok k' e)
      | _ => false
      end
  | KSlice k' =>
      is_ser d &&
      match t with
      | TList e | TSet e => compat r d false k' e
      | TVector e _ => compat r d false k' e && (r_vec r || vec_elem_ok k' e)
      | _ => false
      end
  (* collections.md: "Set is represented as Vec<T>, HashSet<T> or BTreeSet<T>" *)
  | KHashSet k' | KBTreeSet k' =>
      match t with
      | TSet e => compat r d false k' e
      | TList e => r_set r && is_ser d && compat r d false k' e
      | _ => false
      end
  (* collections.md: "Map is represented as HashMap<K, V> or BTreeMap<K, V>" *)
  | KHashMap a b | KBTreeMap a b =>
      match t with TMap tk tv => compat r d false a tk && compat r d false b tv | _ => false end
  (* tuple.md: "Tuple is represented as rust tuples of max 16 elements" *)
  | KTuple ks =>
      match t with
      | TTuple ts =>
          (if r_tuple r && is_ser d then (List.length ks <=? List.length ts)%nat
           else (List.length ks =? List.length ts)%nat) && all2 (compat r d false) ks ts
      | _ => false
      end
  (* rustdoc: SecretString / SecretSlice decode as String / Vec<S> *)
  | KSecretString => is_de d && native_in t string_types
  | KSecretSlice k' =>
      is_de d && match t with TList e | TSet e | TVector e _ => compat r d false k' e | _ => false end
  (* rustdoc: "An iterator over either a CQL set or list" *)
  | KListIter k' => is_de d && match t with TList e | TSet e => compat r d false k' e | _ => false end
  (* rustdoc: "A deserialization iterator over a CQL vector" *)
  | KVecIter k' => is_de d && match t with TVector e _ => compat r d false k' e | _ => false end
  | KMapIter a b =>
      is_de d && match t with TMap tk tv => compat r d false a tk && compat r d false b tv | _ => false end
  (* rustdoc: "An iterator over fields of a User Defined Type" *)
  | KUdtIter => is_de d && match t with TUdt _ _ _ => true | _ => false end
  (* rustdoc: pairs the raw slice of any column with its type *)
  | KFrameSlice => is_de d
  end.

(* the documentation alone / the documentation plus the three concessions / what the code does *)
Definition doc_compat (d : dir) (k : carrier) (t : ctype) : bool := compat docs_only d true k t.
Definition spec_compat (d : dir) (k : carrier) (t : ctype) : bool := compat conceded d true k t.
Definition code_compat (k : carrier) (t : ctype) : bool := compat as_code Ser true k t.
(* accepted by the specification although the documentation does not list it *)
Definition relaxed (k : carrier) (t : ctype) : bool := spec_compat Ser k t && negb (doc_compat Ser k t).

(* ====================================================================================== *)
(* 9. Known class "vector-null-element" (finding F2b, open)                                 *)
(* ====================================================================================== *)
(* A sequence carrier is bound to a vector type while its element carrier can produce null /
   unset (or the empty value at a fixed-width element type): serialisation accepts the pair
   although the vector format cannot express such elements - set_null / set_unset ignore
   `write_size`, set_value(&[]) writes nothing.
   [vector_elem_hole]: the shape (somewhere in the pair such an element carrier sits under a
   vector type).  [known_class]: the pairs the code ACCEPTS and the specification excludes; by
   theorem C17_known_class_shape they all have the shape, and by C17_code_matrix the vector
   element rule is the only rule the code lacks. *)
Fixpoint vector_elem_hole (k : carrier) (t : ctype) {struct k} : bool :=
  match k with
  | KOption k' | KMaybeUnset k' | KMaybeEmpty k' | KRef k' | KBox k' | KArc k' | KCow k' | KSecret08 k'
  | KSecretBox10 k' => vector_elem_hole k' t
  | KVec k' | KSlice k' =>
      match t with
      | TList e | TSet e => vector_elem_hole k' e
      | TVector e _ => negb (vec_elem_ok k' e) || vector_elem_hole k' e
      | _ => false
      end
  | KHashSet k' | KBTreeSet k' =>
      match t with TList e | TSet e => vector_elem_hole k' e | _ => false end
  | KHashMap a b | KBTreeMap a b =>
      match t with TMap tk tv => vector_elem_hole a tk || vector_elem_hole b tv | _ => false end
  | KTuple ks => match t with TTuple ts => any2 vector_elem_hole ks ts | _ => false end
  | _ => false
  end.

Definition known_class (k : carrier) (t : ctype) : bool := ser_accepts k t && negb (spec_compat Ser k t).

(* the carrier contains no CqlValue: its type checks do not depend on the value *)
Fixpoint static (k : carrier) : bool :=
  match k with
  | KCqlValue => false
  | KBase _ => true
  | KOption k' | KMaybeUnset k' | KMaybeEmpty k' | KRef k' | KBox k' | KArc k' | KCow k' | KSecret08 k'
  | KSecretBox10 k' | KVec k' | KSlice k' | KHashSet k' | KBTreeSet k' | KSecretSlice k' | KListIter k'
  | KVecIter k' => static k'
  | KHashMap a b | KBTreeMap a b | KMapIter a b => static a && static b
  | KTuple ks => forallb static ks
  | KSecretString | KUdtIter | KFrameSlice => true
  end.

(* which errors are type-check errors (serialize::value::BuiltinTypeCheckErrorKind) *)
Definition is_typeck (e : kerr) : bool :=
  match e with
  | KE (SE_MismatchedType | SE_NotEmptyable | SE_NotSetOrList | SE_NotMap | SE_NotTuple | SE_TupleWrongCount
       | SE_NotUdt | SE_UdtNameMismatch | SE_NoSuchFieldInUdt) => true
  | _ => false
  end.

(* ---- dynamic values ------------------------------------------------------------------------ *)
(* "The CqlValue v is a value of the column type t": each variant belongs to the CQL type it is
   named after (Ascii and Text to both string types; List, Set and Vector to the three sequence
   types - all are Vec<CqlValue>), Empty to the types that have an empty value, a vector value has
   exactly `dimensions` elements, a tuple value at most as many components as the type, a UDT value
   carries the type's keyspace and name and only fields the type has (matched by name, the last
   entry of a name counts, as in the HashMap of serialize_udt).  No ranges, no ASCII / UTF-8
   validity: only what a type check can see. *)
Definition is_cempty := Cql.is_cempty.
Fixpoint dyn_fits_gen (strict : bool) (t : ctype) (v : cval) {struct t} : bool :=
  match v with
  | CEmpty => supports_empty t
  | CList l | CSet l | CVector l =>
      match t with
      | TList e | TSet e => forallb (dyn_fits_gen strict e) l
      (* a vector has exactly `dim` elements, and an element of a fixed-width type cannot be Empty *)
      | TVector e dim =>
          (N.of_nat (List.length l) =? dim) && negb (strict && is_some (type_size e) && existsb is_cempty l) &&
          forallb (dyn_fits_gen strict e) l
      | _ => false
      end
  | CMap l =>
      match t with
      | TMap k e => forallb (fun kv => dyn_fits_gen strict k (fst kv) && dyn_fits_gen strict e (snd kv)) l
      | _ => false
      end
  | CUdt ks nm fields =>
      match t with
      | TUdt ks' nm' fts =>
          bytes_eqb ks ks' && bytes_eqb nm nm' &&
          (fix go (fts : list (name * ctype)) (st : list (name * option cval)) {struct fts} : bool :=
             match fts with
             | [] => is_nil st
             | (fname, ft) :: r =>
                 match udt_field_value fname st with
                 | None => true
                 | Some x => dyn_fits_gen strict ft x
                 end && go r (remove_name fname st)
             end) fts fields
      | _ => false
      end
  | CTuple l =>
      match t with
      | TTuple ts =>
          (List.length l <=? List.length ts)%nat &&
          (fix go (ts : list ctype) (l : list (option cval)) {struct ts} : bool :=
             match ts, l with
             | et :: ts', ox :: l' =>
                 match ox with None => true | Some x => dyn_fits_gen strict et x end && go ts' l'
             | _, _ => true
             end) ts l
      | _ => false
      end
  | CAscii _ | CBoolean _ | CBlob _ | CCounter _ | CDecimal _ _ | CDate _ | CDouble _ | CDuration _ _ _
  | CFloat _ | CInt _ | CBigInt _ | CText _ | CTimestamp _ | CInet _ | CSmallInt _ | CTinyInt _ | CTime _
  | CTimeuuid _ | CUuid _ | CVarint _ =>
      match t, payload_kind v with
      | TNative n, Some m => ntype_eqb n m || (native_in t string_types && native_in (TNative m) string_types)
      | _, _ => false
      end
  end.

(* strict = with the rule "no Empty element in a vector of fixed-width elements" (the
   specification); lax = without it (what the code implements: the rule is finding F2b) *)
Definition dyn_fits : ctype -> cval -> bool := dyn_fits_gen true.
Definition dyn_lax : ctype -> cval -> bool := dyn_fits_gen false.

(* the known class on the dynamic path (F2b / F2): the ONLY thing wrong with the value is an Empty
   element of a vector whose elements are packed without length *)
Definition dyn_known (t : ctype) (v : cval) : bool := dyn_lax t v && negb (dyn_fits t v).

(* ---- values of all carriers ---------------------------------------------------------------- *)
(* "The value v of carrier k, as it will be written, is a value of the column type t": what the
   property asks of the BYTES.  A null is a value of every type; a collection is a value of a
   collection type if its elements are values of the element type (an empty one always is); a
   vector has its dimension and no element without a representation; a CqlValue must be
   [dyn_fits].  Not-set markers count as null below the bind marker (concession r_unset). *)
Fixpoint hole_val (fixed : bool) (v : kval) : bool :=
  match v with
  | VNull | VUnset => true
  | VEmpty | VLeaf CEmpty => fixed
  | VWrap x => hole_val fixed x
  | _ => false
  end.

Fixpoint val_fits_gen (strict : bool) (k : carrier) (t : ctype) (v : kval) {struct k} : bool :=
  match k with
  | KBase BUnset => match v with VUnset => true | _ => false end
  | KBase b => match v with VLeaf x => native_in t (ser_base_types b) && base_payload b x && negb (value_overflow b x) | _ => false end
  | KCqlValue => match v with VLeaf x => dyn_fits_gen strict t x | _ => false end
  | KOption k' => match v with VNull => true | VWrap x => val_fits_gen strict k' t x | _ => false end
  | KMaybeUnset k' => match v with VUnset => true | VWrap x => val_fits_gen strict k' t x | _ => false end
  | KMaybeEmpty k' =>
      supports_empty t && match v with VEmpty => true | VWrap x => val_fits_gen strict k' t x | _ => false end
  | KRef k' | KBox k' | KArc k' | KCow k' | KSecret08 k' | KSecretBox10 k' =>
      match v with VWrap x => val_fits_gen strict k' t x | _ => false end
  | KVec k' | KSlice k' =>
      match v with
      | VSeq l =>
          match t with
          | TList e | TSet e => forallb (val_fits_gen strict k' e) l
          | TVector e dim =>
              (N.of_nat (List.length l) =? dim) &&
              forallb (fun x => negb (strict && hole_val (is_some (type_size e)) x) && val_fits_gen strict k' e x) l
          | _ => false
          end
      | _ => false
      end
  | KHashSet k' | KBTreeSet k' =>
      match v with
      | VSeq l => match t with TList e | TSet e => forallb (val_fits_gen strict k' e) l | _ => false end
      | _ => false
      end
  | KHashMap a b | KBTreeMap a b =>
      match v with
      | VMap l =>
          match t with
          | TMap tk tv => forallb (fun kv => val_fits_gen strict a tk (fst kv) && val_fits_gen strict b tv (snd kv)) l
          | _ => false
          end
      | _ => false
      end
  | KTuple ks =>
      match v with
      | VTup vs =>
          match t with
          | TTuple ts =>
              (List.length ks <=? List.length ts)%nat && (List.length ks =? List.length vs)%nat &&
              (fix go (ks : list carrier) (ts : list ctype) (vs : list kval) {struct ks} : bool :=
                 match ks, ts, vs with
                 | k1 :: ks', t1 :: ts', v1 :: vs' => val_fits_gen strict k1 t1 v1 && go ks' ts' vs'
                 | _, _, _ => true
                 end) ks ts vs
          | _ => false
          end
      | _ => false
      end
  | KSecretString | KSecretSlice _ | KListIter _ | KVecIter _ | KMapIter _ _ | KUdtIter | KFrameSlice => false
  end.

Definition val_fits : carrier -> ctype -> kval -> bool := val_fits_gen true.
Definition val_lax : carrier -> ctype -> kval -> bool := val_fits_gen false.

(* the known class at the value level: the value fits once the vector element rule is dropped, and
   only then - nothing else is wrong with it *)
Definition val_known (k : carrier) (t : ctype) (v : kval) : bool := val_lax k t v && negb (val_fits k t v).

(* a vector position (typed or inside a CqlValue) whose value has the wrong number of elements:
   the cause of VectorLen *)
Fixpoint dyn_len_mis (t : ctype) (v : cval) {struct t} : bool :=
  match v with
  | CList l | CSet l | CVector l =>
      match t with
      | TList e | TSet e => existsb (dyn_len_mis e) l
      | TVector e dim => negb (N.of_nat (List.length l) =? dim) || existsb (dyn_len_mis e) l
      | _ => false
      end
  | CMap l =>
      match t with
      | TMap k e => existsb (fun kv => dyn_len_mis k (fst kv) || dyn_len_mis e (snd kv)) l
      | _ => false
      end
  | CUdt _ _ fields =>
      match t with
      | TUdt _ _ fts =>
          existsb (fun ft => existsb (fun f => bytes_eqb (fst ft) (fst f) &&
                                               match snd f with Some x => dyn_len_mis (snd ft) x | None => false end) fields) fts
      | _ => false
      end
  | CTuple l =>
      match t with
      | TTuple ts =>
          (fix go (ts : list ctype) (l : list (option cval)) {struct ts} : bool :=
             match ts, l with
             | et :: ts', ox :: l' =>
                 match ox with None => false | Some x => dyn_len_mis et x end || go ts' l'
             | _, _ => false
             end) ts l
      | _ => false
      end
  | _ => false
  end.

Fixpoint val_len_mis (k : carrier) (t : ctype) (v : kval) {struct k} : bool :=
  match k with
  | KCqlValue => match v with VLeaf x => dyn_len_mis t x | _ => false end
  | KOption k' | KMaybeUnset k' | KMaybeEmpty k' | KRef k' | KBox k' | KArc k' | KCow k' | KSecret08 k'
  | KSecretBox10 k' => match v with VWrap x => val_len_mis k' t x | _ => false end
  | KVec k' | KSlice k' =>
      match v with
      | VSeq l =>
          match t with
          | TList e | TSet e => existsb (val_len_mis k' e) l
          | TVector e dim => negb (N.of_nat (List.length l) =? dim) || existsb (val_len_mis k' e) l
          | _ => false
          end
      | _ => false
      end
  | KHashSet k' | KBTreeSet k' =>
      match v with
      | VSeq l => match t with TList e | TSet e => existsb (val_len_mis k' e) l | _ => false end
      | _ => false
      end
  | KHashMap a b | KBTreeMap a b =>
      match v with
      | VMap l =>
          match t with
          | TMap tk tv => existsb (fun kv => val_len_mis a tk (fst kv) || val_len_mis b tv (snd kv)) l
          | _ => false
          end
      | _ => false
      end
  | KTuple ks =>
      match v with
      | VTup vs =>
          match t with
          | TTuple ts =>
              (fix go (ks : list carrier) (ts : list ctype) (vs : list kval) {struct ks} : bool :=
                 match ks, ts, vs with
                 | k1 :: ks', t1 :: ts', v1 :: vs' => val_len_mis k1 t1 v1 || go ks' ts' vs'
                 | _, _, _ => false
                 end) ks ts vs
          | _ => false
          end
      | _ => false
      end
  | _ => false
  end.

(* a collection with more than i32::MAX elements somewhere in the value: the cause of
   TooManyElements (independent of the column type) *)
Fixpoint cval_big (v : cval) : bool :=
  match v with
  | CList l | CSet l | CVector l => (i32_max <? N.of_nat (List.length l)) || existsb cval_big l
  | CMap l => (i32_max <? N.of_nat (List.length l)) || existsb (fun kv => cval_big (fst kv) || cval_big (snd kv)) l
  | CTuple l => existsb (fun ox => match ox with Some x => cval_big x | None => false end) l
  | CUdt _ _ fs => existsb (fun f => match snd f with Some x => cval_big x | None => false end) fs
  | _ => false
  end.
Fixpoint kv_big (v : kval) : bool :=
  match v with
  | VLeaf x => cval_big x
  | VWrap x => kv_big x
  | VSeq l => (i32_max <? N.of_nat (List.length l)) || existsb kv_big l
  | VMap l => (i32_max <? N.of_nat (List.length l)) || existsb (fun kv => kv_big (fst kv) || kv_big (snd kv)) l
  | VTup l => existsb kv_big l
  | VNull | VUnset | VEmpty => false
  end.

(* the errors by which a misfit is refused: a type-check error, the vector length error (checked
   before the elements) or the failed conversion of a leaf value *)
Definition is_refusal (e : kerr) : bool :=
  is_typeck e || match e with KE SE_VectorLen | KE_ValueOverflow => true | _ => false end.

(* the errors that a value OF the type can still get: sizes beyond the wire format's i32 *)
Definition is_size_err (e : kerr) : bool :=
  match e with KE SE_SizeOverflow | KE SE_TooManyElements => true | _ => false end.

(* ====================================================================================== *)
(* Boolean forms of the property for the correspondence driver (evaluated on the            *)
(* IMPLEMENTATION's outputs)                                                               *)
(* ====================================================================================== *)

(* a matrix cell of serialisation, given whether the implementation accepted the pair:
   accepted pairs must be in the specification, documented pairs must be accepted *)
Definition ser_cell_ok (k : carrier) (t : ctype) (impl_accepts : bool) : bool :=
  if impl_accepts then spec_compat Ser k t else negb (doc_compat Ser k t).
Definition deser_cell_ok (k : carrier) (t : ctype) (impl_accepts : bool) : bool :=
  if impl_accepts then spec_compat De k t else negb (doc_compat De k t).
