(* Model of the TYPED value codec of scylla-cql-core (property C01, "the same holds through every
   typed Rust representation"): the `impl SerializeValue for ..` / `impl DeserializeValue for ..` of
   the typed carriers, which are separate Rust code from the dynamic `CqlValue` path of Model/Cql.v
   (only the dynamic serialiser calls into the typed leaf impls; the typed decoders and the typed
   containers share nothing with `DeserializeValue for CqlValue` but the low-level readers).

   Source: serialize/value.rs l.93-612 (leaf impls, Option, MaybeUnset, MaybeEmpty, &/Box/Arc,
   sets, maps, Vec / [T]), l.847-930 (tuple macro), serialize_sequence/_mapping/_vector;
   deserialize/value.rs l.250-800 (Option, MaybeEmpty, impl_strict_type leaf decoders),
   l.923-1593 (ListlikeIterator, Vec, sets, VectorIterator, MapIterator, maps), l.1632-1745 (tuple
   macro), l.1864-1900 (Box / Arc).
   Executable definitions only; proofs in Proofs/CqlTyped_proofs.v, statements in Props/C01.v.

   Carriers covered: i8 i16 i32 i64 f32 f64 bool String/str Vec<u8>/&[u8]/Bytes IpAddr Uuid
   CqlTimeuuid CqlDate CqlTime CqlTimestamp CqlDuration Counter CqlVarint(+Borrowed)
   CqlDecimal(+Borrowed) num_bigint::BigInt (0.3 / 0.4), CqlValue, Option<T>, MaybeUnset<T>,
   MaybeEmpty<T>, &T / Box<T> / Arc<T> / Cow / Secret (transparent), Vec<T> / [T], BTreeSet / HashSet
   (in iteration order), BTreeMap / HashMap (in iteration order), tuples of any arity.
   Not covered (tie only): bigdecimal, chrono, time (conversions of external crates). *)
From SV Require Import Base.Prelude Base.Bytes Model.Vint Model.Cql.
Open Scope N_scope.

(* ====================================================================================== *)
(* 1. Carriers and their values                                                             *)
(* ====================================================================================== *)

Inductive leaf :=
| LI8 | LI16 | LI32 | LI64 | LF32 | LF64 | LBool | LString | LBlob | LInet | LUuid | LTimeuuid
| LDate | LTime | LTimestamp | LDuration | LCounter | LVarint | LDecimal | LBigInt.

Inductive carrier :=
| KLeaf (l : leaf)
| KDyn                          (* CqlValue *)
| KOption (k : carrier)
| KMaybeUnset (k : carrier)     (* serialize only *)
| KMaybeEmpty (k : carrier)
| KPtr (k : carrier)            (* &T, Box<T>, Arc<T>, Cow, Secret: transparent *)
| KVec (k : carrier)            (* Vec<T>, [T]: list, set or vector *)
| KSetC (k : carrier)           (* BTreeSet<T>, HashSet<T>: list or set on the way in, set on the way out *)
| KMapC (k v : carrier)         (* BTreeMap, HashMap *)
| KTuple (ks : list carrier).

Inductive tval :=
| TInt (z : Z)                  (* i8..i64, Counter, CqlTime, CqlTimestamp *)
| TNat (n : N)                  (* f32 / f64 bits, CqlDate *)
| TBool (b : bool)
| TBytes (b : bytes)            (* String, blob, IpAddr octets, Uuid, CqlVarint raw bytes *)
| TDur (m d n : Z)
| TDec (scale : Z) (raw : bytes)
| TBig (z : Z)                  (* num_bigint::BigInt: the integer itself *)
| TDynV (v : cval)
| TNone | TUnsetV | TEmptyV
| TSome (v : tval)              (* Some, Set, Value, and the pointer carriers *)
| TSeq (l : list tval)
| TMapV (l : list (tval * tval))
| TTup (l : list tval).

(* the native types a leaf impl is written for (exact_type_check! / impl_strict_type!) *)
Definition leaf_types (l : leaf) : list ntype :=
  match l with
  | LI8 => [NTinyInt] | LI16 => [NSmallInt] | LI32 => [NInt] | LI64 => [NBigInt]
  | LF32 => [NFloat] | LF64 => [NDouble] | LBool => [NBoolean] | LString => [NAscii; NText]
  | LBlob => [NBlob] | LInet => [NInet] | LUuid => [NUuid] | LTimeuuid => [NTimeuuid]
  | LDate => [NDate] | LTime => [NTime] | LTimestamp => [NTimestamp] | LDuration => [NDuration]
  | LCounter => [NCounter] | LVarint => [NVarint] | LDecimal => [NDecimal] | LBigInt => [NVarint]
  end.

Definition ntype_tag (n : ntype) : N :=
  match n with
  | NAscii => 0 | NBoolean => 1 | NBlob => 2 | NCounter => 3 | NDate => 4 | NDecimal => 5 | NDouble => 6
  | NDuration => 7 | NFloat => 8 | NInt => 9 | NBigInt => 10 | NText => 11 | NTimestamp => 12 | NInet => 13
  | NSmallInt => 14 | NTinyInt => 15 | NTime => 16 | NTimeuuid => 17 | NUuid => 18 | NVarint => 19
  end.
Definition native_in (t : ctype) (l : list ntype) : bool :=
  match t with
  | TNative n => existsb (fun m => ntype_tag n =? ntype_tag m) l
  | _ => false
  end.

(* num_bigint::BigInt::to_signed_bytes_be: the SHORTEST two's complement form, at least one byte *)
Definition min_twos_len (z : Z) : nat :=
  let m := if (z <? 0)%Z then (- z - 1)%Z else z in
  if (m =? 0)%Z then 1%nat else Z.to_nat ((Z.log2 m + 1) / 8 + 1).
Definition min_twos (z : Z) : bytes := enc_signed (min_twos_len z) z.
(* BigInt::from_signed_bytes_be: zero bytes are the integer 0 *)
Definition big_of_bytes (b : bytes) : Z := if is_nil b then 0%Z else dec_signed b.

(* ====================================================================================== *)
(* 2. Typed serialisers                                                                     *)
(* ====================================================================================== *)

(* the bytes a leaf impl hands to the writer; None = the value is not of the carrier *)
Definition leaf_contents (l : leaf) (v : tval) : option bytes :=
  match l, v with
  | LI8, TInt z => Some (enc_signed 1 z)
  | LI16, TInt z => Some (enc_signed 2 z)
  | LI32, TInt z => Some (enc_signed 4 z)
  | (LI64 | LCounter | LTime | LTimestamp), TInt z => Some (enc_signed 8 z)
  | LF32, TNat n => Some (be_enc 4 n)
  | LF64, TNat n => Some (be_enc 8 n)
  | LDate, TNat n => Some (be_enc 4 n)
  | LBool, TBool b => Some [if b then 1 else 0]
  | (LString | LBlob | LInet | LUuid | LTimeuuid | LVarint), TBytes b => Some b
  | LDuration, TDur m d n => Some (vint_encode m ++ vint_encode d ++ vint_encode n)
  | LDecimal, TDec scale raw => Some (enc_signed 4 scale ++ raw)
  | LBigInt, TBig z => Some (min_twos z)
  | _, _ => None
  end.

(* what a writer with flag [ws] appends for non-null contents *)
Definition wrap (ws : bool) (c : bytes) : bytes := if ws then framed c else c.

(* T::serialize(value, typ, writer) for a writer with `write_size` = ws: the bytes APPENDED (length
   prefix included when the writer writes one; markers for null / unset) *)
Fixpoint typed_write (k : carrier) (ws : bool) (t : ctype) (v : tval) {struct k} : sres :=
  match k with
  | KLeaf l =>
      if negb (native_in t (leaf_types l)) then Err SE_MismatchedType else
      match leaf_contents l v with
      | None => Err SE_MismatchedType                      (* not a value of the carrier *)
      | Some c =>
          (* CqlDecimal goes through a value builder (finish), everything else through set_value *)
          (* the fixed-size arrays (octets, uuid bytes) and the <= 27-byte duration: set_value(..).unwrap() *)
          rbind (match l with
                 | LDecimal => finish ws c
                 | LInet | LUuid | LTimeuuid | LDuration => Ok c
                 | _ => set_value c
                 end) (fun c => Ok (wrap ws c))
      end
  | KDyn => match v with TDynV x => ser_cell_ws ws t (CVal x) | _ => Err SE_MismatchedType end
  | KOption k' =>
      match v with TNone => Ok null_marker | TSome x => typed_write k' ws t x | _ => Err SE_MismatchedType end
  | KMaybeUnset k' =>
      match v with TUnsetV => Ok unset_marker | TSome x => typed_write k' ws t x | _ => Err SE_MismatchedType end
  | KMaybeEmpty k' =>
      if negb (supports_empty t) then Err SE_NotEmptyable else
      match v with TEmptyV => Ok (wrap ws []) | TSome x => typed_write k' ws t x | _ => Err SE_MismatchedType end
  | KPtr k' => match v with TSome x => typed_write k' ws t x | _ => Err SE_MismatchedType end
  | KVec k' =>
      match v with
      | TSeq l =>
          match t with
          | TList e | TSet e =>       (* serialize_sequence *)
              if i32_max <? N.of_nat (List.length l) then Err SE_TooManyElements else
              rbind (ser_concat (typed_write k' true e) l) (fun bs =>
              rbind (finish ws (be32 (N.of_nat (List.length l)) ++ bs)) (fun c => Ok (wrap ws c)))
          | TVector e dim =>          (* serialize_vector *)
              if negb (N.of_nat (List.length l) =? dim) then Err SE_VectorLen else
              rbind (ser_concat (match type_size e with
                                 | Some _ => typed_write k' false e
                                 | None => fun x => rbind (typed_write k' false e x)
                                                          (fun b => Ok (uvint_encode (blen b mod two64) ++ b))
                                 end) l) (fun bs =>
              rbind (finish ws bs) (fun c => Ok (wrap ws c)))
          | _ => Err SE_NotSetOrList
          end
      | _ => Err SE_MismatchedType
      end
  | KSetC k' =>
      match v with
      | TSeq l =>
          match t with
          | TList e | TSet e =>
              if i32_max <? N.of_nat (List.length l) then Err SE_TooManyElements else
              rbind (ser_concat (typed_write k' true e) l) (fun bs =>
              rbind (finish ws (be32 (N.of_nat (List.length l)) ++ bs)) (fun c => Ok (wrap ws c)))
          | _ => Err SE_NotSetOrList
          end
      | _ => Err SE_MismatchedType
      end
  | KMapC ka kb =>
      match v with
      | TMapV l =>
          match t with
          | TMap tk tv =>
              if i32_max <? N.of_nat (List.length l) then Err SE_TooManyElements else
              rbind (ser_concat (fun kv => rbind (typed_write ka true tk (fst kv)) (fun a =>
                                           rbind (typed_write kb true tv (snd kv)) (fun b => Ok (a ++ b)))) l) (fun bs =>
              rbind (finish ws (be32 (N.of_nat (List.length l)) ++ bs)) (fun c => Ok (wrap ws c)))
          | _ => Err SE_NotMap
          end
      | _ => Err SE_MismatchedType
      end
  | KTuple ks =>
      match v with
      | TTup vs =>
          match t with
          | TTuple ts =>
              (* the CQL tuple may have MORE components than the Rust tuple *)
              if (List.length ts <? List.length ks)%nat then Err SE_TupleWrongCount else
              rbind ((fix go (ks : list carrier) (ts : list ctype) (vs : list tval) {struct ks} : sres :=
                        match ks, ts, vs with
                        | k1 :: ks', t1 :: ts', v1 :: vs' =>
                            rbind (typed_write k1 true t1 v1) (fun b =>
                            rbind (go ks' ts' vs') (fun bs => Ok (b ++ bs)))
                        | [], _, _ => Ok []
                        | _, _, _ => Err SE_MismatchedType
                        end) ks ts vs) (fun bs =>
              rbind (finish ws bs) (fun c => Ok (wrap ws c)))
          | _ => Err SE_NotTuple
          end
      | _ => Err SE_MismatchedType
      end
  end.

(* ====================================================================================== *)
(* 3. Typed decoders                                                                        *)
(* ====================================================================================== *)

(* `impl Emptiable for ..` (value.rs l.66-105): the leaf carriers MaybeEmpty can wrap *)
Definition emptiable (k : carrier) : bool :=
  match k with
  | KLeaf (LString | LBlob | LDuration | LCounter) => false
  | KLeaf _ => true
  | _ => false
  end.

(* `type_check` of the carrier against the column type *)
Fixpoint typed_check (k : carrier) (t : ctype) {struct k} : bool :=
  match k with
  | KLeaf l => native_in t (leaf_types l)
  | KDyn => true
  | KOption k' | KPtr k' => typed_check k' t
  | KMaybeEmpty k' => emptiable k' && typed_check k' t
  | KMaybeUnset _ => false                               (* no DeserializeValue impl *)
  | KVec k' => match t with TList e | TSet e | TVector e _ => typed_check k' e | _ => false end
  | KSetC k' => match t with TSet e => typed_check k' e | _ => false end
  | KMapC ka kb => match t with TMap tk tv => typed_check ka tk && typed_check kb tv | _ => false end
  | KTuple ks =>
      match t with
      | TTuple ts =>
          (List.length ks =? List.length ts)%nat &&
          (fix go (ks : list carrier) (ts : list ctype) {struct ks} : bool :=
             match ks, ts with
             | k1 :: ks', t1 :: ts' => typed_check k1 t1 && go ks' ts'
             | _, _ => true
             end) ks ts
      | _ => false
      end
  end.

(* the leaf decoders on a non-null slice (no empty-cell rule here: that is CqlValue's) *)
Definition leaf_read (l : leaf) (t : ctype) (b : bytes) : dres tval :=
  match l with
  | LI8 => exact_len 1 b (fun b => Ok (TInt (dec_signed b)))
  | LI16 => exact_len 2 b (fun b => Ok (TInt (dec_signed b)))
  | LI32 => exact_len 4 b (fun b => Ok (TInt (dec_signed b)))
  | LI64 | LCounter | LTimestamp => exact_len 8 b (fun b => Ok (TInt (dec_signed b)))
  | LTime => exact_len 8 b (fun b => let z := dec_signed b in
                                     if ((0 <=? z) && (z <=? time_max))%Z then Ok (TInt z) else Err DE_ValueOverflow)
  | LF32 | LDate => exact_len 4 b (fun b => Ok (TNat (be_dec b)))
  | LF64 => exact_len 8 b (fun b => Ok (TNat (be_dec b)))
  | LBool => exact_len 1 b (fun b => Ok (TBool (negb (be_dec b =? 0))))
  | LString =>
      if (match t with TNative NAscii => true | _ => false end) && negb (ascii_valid b) then Err DE_ExpectedAscii
      else if negb (utf8_valid b) then Err DE_InvalidUtf8 else Ok (TBytes b)
  | LBlob | LVarint => Ok (TBytes b)
  | LInet => if ((List.length b =? 4) || (List.length b =? 16))%nat then Ok (TBytes b) else Err DE_BadInetLength
  | LUuid | LTimeuuid => exact_len 16 b (fun b => Ok (TBytes b))
  | LDuration =>
      match deser_native NDuration b with
      | Ok (CDuration m d n) => Ok (TDur m d n)
      | Ok _ => Err DE_BadDate
      | Err e => Err e
      end
  | LDecimal =>
      match read_int b with
      | None => Err DE_BadDecimalScale
      | Some (scale, raw) => Ok (TDec scale raw)
      end
  | LBigInt => Ok (TBig (big_of_bytes b))
  end.

(* element loops with the typed element decoder [g : option bytes -> dres tval] *)
Fixpoint typed_items (g : option bytes -> dres tval) (fuel : nat) (n : N) (b : bytes) : dres (list tval) :=
  if n =? 0 then Ok [] else
  match fuel with
  | O => Err DE_OutOfFuel
  | S fuel' =>
      match read_cql_bytes b with
      | None => Err DE_RawCqlBytesRead
      | Some (ob, r) =>
          rbind (g ob) (fun x => rbind (typed_items g fuel' (n - 1) r) (fun xs => Ok (x :: xs)))
      end
  end.

Fixpoint typed_pairs (gk gv : option bytes -> dres tval) (fuel : nat) (n : N) (b : bytes)
  : dres (list (tval * tval)) :=
  if n =? 0 then Ok [] else
  match fuel with
  | O => Err DE_OutOfFuel
  | S fuel' =>
      match read_cql_bytes b with
      | None => Err DE_RawCqlBytesRead
      | Some (ok, r1) =>
          match read_cql_bytes r1 with
          | None => Err DE_RawCqlBytesRead
          | Some (ov, r2) =>
              rbind (gk ok) (fun k => rbind (gv ov) (fun v =>
              rbind (typed_pairs gk gv fuel' (n - 1) r2) (fun xs => Ok ((k, v) :: xs))))
          end
      end
  end.

Fixpoint typed_vec_fixed (g : option bytes -> dres tval) (size : N) (cnt : nat) (b : bytes) : dres (list tval) :=
  match cnt with
  | O => Ok []
  | S c =>
      match read_n_bytes size b with
      | None => Err DE_RawCqlBytesRead
      | Some (ob, r) => rbind (g ob) (fun x => rbind (typed_vec_fixed g size c r) (fun xs => Ok (x :: xs)))
      end
  end.

Fixpoint typed_vec_var (g : option bytes -> dres tval) (cnt : nat) (b : bytes) : dres (list tval) :=
  match cnt with
  | O => Ok []
  | S c =>
      match uvint_decode b with
      | None => Err DE_RawCqlBytesRead
      | Some (size, r0) =>
          match (if size =? 0 then Some (Some [], r0) else read_n_bytes size r0) with
          | None => Err DE_RawCqlBytesRead
          | Some (ob, r) => rbind (g ob) (fun x => rbind (typed_vec_var g c r) (fun xs => Ok (x :: xs)))
          end
      end
  end.

(* T::deserialize(typ, v) with v : Option<FrameSlice>; assumes typed_check k t *)
Fixpoint typed_read (k : carrier) (t : ctype) (ob : option bytes) {struct k} : dres tval :=
  match k with
  | KLeaf l => match ob with None => Err DE_ExpectedNonNull | Some b => leaf_read l t b end
  | KDyn => match ob with None => Err DE_ExpectedNonNull | Some b => rbind (deser_value t b) (fun x => Ok (TDynV x)) end
  | KOption k' => match ob with None => Ok TNone | Some _ => rbind (typed_read k' t ob) (fun x => Ok (TSome x)) end
  | KMaybeUnset _ => Err DE_ExpectedNonNull
  | KMaybeEmpty k' =>
      match ob with
      | None => Err DE_ExpectedNonNull
      | Some b => if is_nil b then Ok TEmptyV else rbind (typed_read k' t ob) (fun x => Ok (TSome x))
      end
  | KPtr k' => rbind (typed_read k' t ob) (fun x => Ok (TSome x))
  | KVec k' =>
      match t with
      | TVector e dim =>
          match ob with
          | None => Err DE_ExpectedNonNull
          | Some b =>
              rbind (match type_size e with
                     | Some s => typed_vec_fixed (typed_read k' e) s (N.to_nat dim) b
                     | None => typed_vec_var (typed_read k' e) (N.to_nat dim) b
                     end) (fun l => Ok (TSeq l))
          end
      | TList e | TSet e =>
          match ob with
          | None => Ok (TSeq [])          (* ListlikeIterator::empty: a null collection is empty *)
          | Some b =>
              rbind (read_count b) (fun nr =>
              rbind (typed_items (typed_read k' e) (S (List.length b)) (fst nr) (snd nr)) (fun l => Ok (TSeq l)))
          end
      | _ => Err DE_ExpectedNonNull
      end
  | KSetC k' =>
      match t with
      | TList e | TSet e =>
          match ob with
          | None => Ok (TSeq [])
          | Some b =>
              rbind (read_count b) (fun nr =>
              rbind (typed_items (typed_read k' e) (S (List.length b)) (fst nr) (snd nr)) (fun l => Ok (TSeq l)))
          end
      | _ => Err DE_ExpectedNonNull
      end
  | KMapC ka kb =>
      match t with
      | TMap tk tv =>
          match ob with
          | None => Ok (TMapV [])
          | Some b =>
              rbind (read_count b) (fun nr =>
              rbind (typed_pairs (typed_read ka tk) (typed_read kb tv) (S (List.length b)) (fst nr) (snd nr))
                    (fun l => Ok (TMapV l)))
          end
      | _ => Err DE_ExpectedNonNull
      end
  | KTuple ks =>
      match t, ob with
      | TTuple ts, Some b =>
          rbind ((fix go (ks : list carrier) (ts : list ctype) (b : bytes) {struct ks} : dres (list tval) :=
                    match ks, ts with
                    | k1 :: ks', t1 :: ts' =>
                        (* no bytes left: the element is null; a failed [bytes] read is an error *)
                        match (if is_nil b then Some (None, b) else read_cql_bytes b) with
                        | None => Err DE_RawCqlBytesRead
                        | Some (o1, r) =>
                            rbind (typed_read k1 t1 o1) (fun x => rbind (go ks' ts' r) (fun xs => Ok (x :: xs)))
                        end
                    | _, _ => Ok []
                    end) ks ts b) (fun l => Ok (TTup l))
      | _, _ => Err DE_ExpectedNonNull
      end
  end.

(* ====================================================================================== *)
(* 4. Embedding into the dynamic value type                                                 *)
(* ====================================================================================== *)

(* the CqlValue a leaf value IS (the constructor follows the column type for strings) *)
Definition leaf_embed (l : leaf) (t : ctype) (v : tval) : option cval :=
  match l, v with
  | LI8, TInt z => Some (CTinyInt z) | LI16, TInt z => Some (CSmallInt z)
  | LI32, TInt z => Some (CInt z) | LI64, TInt z => Some (CBigInt z)
  | LCounter, TInt z => Some (CCounter z) | LTime, TInt z => Some (CTime z)
  | LTimestamp, TInt z => Some (CTimestamp z)
  | LF32, TNat n => Some (CFloat n) | LF64, TNat n => Some (CDouble n) | LDate, TNat n => Some (CDate n)
  | LBool, TBool b => Some (CBoolean b)
  | LString, TBytes b => Some (match t with TNative NAscii => CAscii b | _ => CText b end)
  | LBlob, TBytes b => Some (CBlob b) | LInet, TBytes b => Some (CInet b)
  | LUuid, TBytes b => Some (CUuid b) | LTimeuuid, TBytes b => Some (CTimeuuid b)
  | LVarint, TBytes b => Some (CVarint b)
  | LDuration, TDur m d n => Some (CDuration m d n)
  | LDecimal, TDec s r => Some (CDecimal s r)
  | LBigInt, TBig z => Some (CVarint (min_twos z))
  | _, _ => None
  end.

Definition cell_val (c : cell) : option cval := match c with CVal v => Some v | _ => None end.
Fixpoint all_some {A} (l : list (option A)) : option (list A) :=
  match l with
  | [] => Some []
  | Some x :: r => option_map (cons x) (all_some r)
  | None :: _ => None
  end.

(* None: the carrier value has no counterpart (a null inside a Vec / map, an unset inside a tuple,
   a carrier that cannot be bound to this shape of type) *)
Fixpoint embed (k : carrier) (t : ctype) (v : tval) {struct k} : option cell :=
  match k with
  | KLeaf l => option_map CVal (leaf_embed l t v)
  | KDyn => match v with TDynV x => Some (CVal x) | _ => None end
  | KOption k' => match v with TNone => Some CNull | TSome x => embed k' t x | _ => None end
  | KMaybeUnset k' => match v with TUnsetV => Some CUnset | TSome x => embed k' t x | _ => None end
  | KMaybeEmpty k' =>
      if negb (supports_empty t) then None else
      match v with TEmptyV => Some (CVal CEmpty) | TSome x => embed k' t x | _ => None end
  | KPtr k' => match v with TSome x => embed k' t x | _ => None end
  | KVec k' =>
      match v, t with
      | TSeq l, TList e => option_map (fun xs => CVal (CList xs)) (all_some (map (fun x => match embed k' e x with Some c => cell_val c | None => None end) l))
      | TSeq l, TSet e => option_map (fun xs => CVal (CSet xs)) (all_some (map (fun x => match embed k' e x with Some c => cell_val c | None => None end) l))
      | TSeq l, TVector e _ => option_map (fun xs => CVal (CVector xs)) (all_some (map (fun x => match embed k' e x with Some c => cell_val c | None => None end) l))
      | _, _ => None
      end
  | KSetC k' =>
      match v, t with
      | TSeq l, TList e => option_map (fun xs => CVal (CList xs)) (all_some (map (fun x => match embed k' e x with Some c => cell_val c | None => None end) l))
      | TSeq l, TSet e => option_map (fun xs => CVal (CSet xs)) (all_some (map (fun x => match embed k' e x with Some c => cell_val c | None => None end) l))
      | _, _ => None
      end
  | KMapC ka kb =>
      match v, t with
      | TMapV l, TMap tk tv =>
          option_map (fun xs => CVal (CMap xs))
            (all_some (map (fun kv => match embed ka tk (fst kv), embed kb tv (snd kv) with
                                      | Some (CVal a), Some (CVal b) => Some (a, b)
                                      | _, _ => None
                                      end) l))
      | _, _ => None
      end
  | KTuple ks =>
      match v, t with
      | TTup vs, TTuple ts =>
          option_map (fun xs => CVal (CTuple xs))
            ((fix go (ks : list carrier) (ts : list ctype) (vs : list tval) {struct ks} : option (list (option cval)) :=
                match ks, ts, vs with
                | [], _, [] => Some []
                | k1 :: ks', t1 :: ts', v1 :: vs' =>
                    match embed k1 t1 v1, go ks' ts' vs' with
                    | Some CNull, Some r => Some (None :: r)
                    | Some (CVal x), Some r => Some (Some x :: r)
                    | _, _ => None
                    end
                | _, _, _ => None
                end) ks ts vs)
      | _, _ => None
      end
  end.

(* the carrier value a dynamic value corresponds to: what the typed decoder returns for bytes on
   which the dynamic decoder returns [x] (for Empty: whatever the typed decoder makes of a
   zero-length cell) *)
Definition leaf_unembed (l : leaf) (t : ctype) (x : cval) : dres tval :=
  match l, x with
  | _, CEmpty => leaf_read l t []
  | LI8, CTinyInt z | LI16, CSmallInt z | LI32, CInt z | LI64, CBigInt z | LCounter, CCounter z
  | LTime, CTime z | LTimestamp, CTimestamp z => Ok (TInt z)
  | LF32, CFloat n | LF64, CDouble n | LDate, CDate n => Ok (TNat n)
  | LBool, CBoolean b => Ok (TBool b)
  | LString, (CAscii b | CText b) | LBlob, CBlob b | LInet, CInet b | LUuid, CUuid b | LTimeuuid, CTimeuuid b
  | LVarint, CVarint b => Ok (TBytes b)
  | LDuration, CDuration m d n => Ok (TDur m d n)
  | LDecimal, CDecimal s r => Ok (TDec s r)
  | LBigInt, CVarint b => Ok (TBig (big_of_bytes b))
  | _, _ => Err DE_ExpectedNonNull             (* not reachable under typed_check *)
  end.

Fixpoint map_res {A B} (f : A -> dres B) (l : list A) : dres (list B) :=
  match l with
  | [] => Ok []
  | x :: r => rbind (f x) (fun y => rbind (map_res f r) (fun ys => Ok (y :: ys)))
  end.

Fixpoint unembed (k : carrier) (t : ctype) (x : cval) {struct k} : dres tval :=
  match k with
  | KLeaf l => leaf_unembed l t x
  | KDyn => Ok (TDynV x)
  | KOption k' => rbind (unembed k' t x) (fun v => Ok (TSome v))
  | KMaybeUnset _ => Err DE_ExpectedNonNull
  | KMaybeEmpty k' => match x with CEmpty => Ok TEmptyV | _ => rbind (unembed k' t x) (fun v => Ok (TSome v)) end
  | KPtr k' => rbind (unembed k' t x) (fun v => Ok (TSome v))
  | KVec k' =>
      match t, x with
      | TList e, CList l | TSet e, CSet l | TVector e _, CVector l =>
          rbind (map_res (unembed k' e) l) (fun vs => Ok (TSeq vs))
      | (TList _ | TSet _), CEmpty => Err DE_LengthDeser
      | TVector e dim, CEmpty =>
          typed_read (KVec k') t (Some [])
      | _, _ => Err DE_ExpectedNonNull
      end
  | KSetC k' =>
      match t, x with
      | TList e, CList l | TSet e, CSet l => rbind (map_res (unembed k' e) l) (fun vs => Ok (TSeq vs))
      | (TList _ | TSet _), CEmpty => Err DE_LengthDeser
      | _, _ => Err DE_ExpectedNonNull
      end
  | KMapC ka kb =>
      match t, x with
      | TMap tk tv, CMap l =>
          rbind (map_res (fun kv => rbind (unembed ka tk (fst kv)) (fun a =>
                                    rbind (unembed kb tv (snd kv)) (fun b => Ok (a, b)))) l)
                (fun vs => Ok (TMapV vs))
      | TMap _ _, CEmpty => Err DE_LengthDeser
      | _, _ => Err DE_ExpectedNonNull
      end
  | KTuple ks =>
      match t, x with
      | TTuple ts, CTuple l =>
          rbind ((fix go (ks : list carrier) (ts : list ctype) (l : list (option cval)) {struct ks} : dres (list tval) :=
                    match ks, ts, l with
                    | k1 :: ks', t1 :: ts', o1 :: l' =>
                        rbind (match o1 with None => typed_read k1 t1 None | Some y => unembed k1 t1 y end)
                              (fun v => rbind (go ks' ts' l') (fun vs => Ok (v :: vs)))
                    | _, _, _ => Ok []
                    end) ks ts l) (fun vs => Ok (TTup vs))
      | TTuple ts, CEmpty => typed_read (KTuple ks) t (Some [])
      | _, _ => Err DE_ExpectedNonNull
      end
  end.

(* the carrier value for a cell of the case file (inverse of [embed] where one exists) *)
Fixpoint of_cell (k : carrier) (t : ctype) (c : cell) {struct k} : option tval :=
  match k, c with
  | KOption _, CNull => Some TNone
  | KOption k', _ => option_map TSome (of_cell k' t c)
  | KMaybeUnset _, CUnset => Some TUnsetV
  | KMaybeUnset k', _ => option_map TSome (of_cell k' t c)
  | KMaybeEmpty _, CVal CEmpty => Some TEmptyV
  | KMaybeEmpty k', _ => option_map TSome (of_cell k' t c)
  | KPtr k', _ => option_map TSome (of_cell k' t c)
  | _, CVal x => match unembed k t x with Ok v => Some v | Err _ => None end
  | _, _ => None
  end.

(* the typed decoder applied to one [bytes] item, printed through the embedding *)
Definition typed_read_cell (k : carrier) (t : ctype) (b : bytes) : dres (option cell) :=
  match read_cql_bytes b with
  | None => Err DE_RawCqlBytesRead
  | Some (ob, _) => rbind (typed_read k t ob) (fun v => Ok (embed k t v))
  end.

(* ====================================================================================== *)
(* 5. Carriers that read back exactly what was written                                      *)
(* ====================================================================================== *)
(* Two kinds of carrier do NOT return the original value, by their nature and not by a defect:
   CqlValue (a short tuple comes back padded: [pad]) and an Option around something that can
   itself be null (Option<Option<T>>: Some(None) is written as null and reads back as None).
   [plain] excludes exactly those (and MaybeUnset, which has no decoder). *)
Fixpoint nullable (k : carrier) : bool :=
  match k with
  | KOption _ => true
  | KPtr k' | KMaybeEmpty k' | KMaybeUnset k' => nullable k'
  | _ => false
  end.

Fixpoint plain (k : carrier) : bool :=
  match k with
  | KLeaf _ => true
  | KDyn | KMaybeUnset _ => false
  | KOption k' => negb (nullable k') && plain k'
  | KMaybeEmpty k' => emptiable k' && plain k'
  | KPtr k' | KVec k' | KSetC k' => plain k'
  | KMapC a b => plain a && plain b
  | KTuple ks => forallb plain ks
  end.

(* ====================================================================================== *)
(* 6. Carrier values of the type (statement vocabulary of C01_typed_roundtrip_cells)         *)
(* ====================================================================================== *)
(* "v is a value of carrier k for column type t": leaves embed into a value of the type ([wf]);
   Option / MaybeEmpty may be None / Empty ANYWHERE, also as elements of a Vec / set / map (which
   the dynamic value type cannot express); a value bound to a VECTOR type must embed into a
   dynamic value of the type outside the known classes (F2: a vector cannot hold nulls). *)
Fixpoint tgood (k : carrier) (t : ctype) (v : tval) {struct k} : bool :=
  match k with
  | KLeaf l => match leaf_embed l t v with Some x => wf t x | None => false end
  | KDyn | KMaybeUnset _ => false
  | KOption k' => match v with TNone => true | TSome x => tgood k' t x | _ => false end
  | KMaybeEmpty k' => match v with TEmptyV => true | TSome x => tgood k' t x | _ => false end
  | KPtr k' => match v with TSome x => tgood k' t x | _ => false end
  | KVec k' =>
      match v, t with
      | TSeq l, (TList e | TSet e) => forallb (tgood k' e) l
      | TSeq _, TVector _ _ =>
          match embed (KVec k') t v with Some (CVal x) => wf t x && negb (known_class t x) | _ => false end
      | _, _ => false
      end
  | KSetC k' => match v, t with TSeq l, TSet e => forallb (tgood k' e) l | _, _ => false end
  | KMapC ka kb =>
      match v, t with
      | TMapV l, TMap tk tv => forallb (fun kv => tgood ka tk (fst kv) && tgood kb tv (snd kv)) l
      | _, _ => false
      end
  | KTuple ks =>
      match v, t with
      | TTup vs, TTuple ts =>
          (fix go (ks : list carrier) (ts : list ctype) (vs : list tval) {struct ks} : bool :=
             match ks, ts, vs with
             | [], [], [] => true
             | k1 :: ks', t1 :: ts', v1 :: vs' => tgood k1 t1 v1 && go ks' ts' vs'
             | _, _, _ => false
             end) ks ts vs
      | _, _ => false
      end
  end.
