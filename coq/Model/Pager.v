(* Model of scylla/src/client/pager.rs (property C07): the paged-iteration machinery.

     producer  = PagingExecutor::{query_first_page, query_remaining_pages, fetch_one_page,
                 process_first_page, process_next_page}                     (pager.rs 199-496)
                 and SingleConnectionPagingExecutor::{fetch_one_page, page_from_outcome,
                 fetch_remaining_pages} + QueryPager::new_for_connection_execute_iter
                                                                  (pager.rs 536-685, 1089-1163)
     one page  = one run of RequestExecutionParams::run_request_speculative_fiber
                 (execution.rs 519-644) below the client-side timeout of
                 run_request_no_side_effects (execution.rs 486-501)
     channel   = tokio mpsc::channel(1) between the worker task and the QueryPager
     consumer  = QueryPager::{next, poll_fill_page, poll_next_page}          (pager.rs 718-791)

   Executable definitions only; proofs are in Proofs/Pager_proofs.v.

   The environment is a *script*: for every page request the server will see, the base
   load-balancing plan of that request, the list of faults that hit its attempts (each with the
   decision the retry session takes -- the retry policy itself is the subject of C06, here it is
   an oracle), and the response the first unfaulted attempt receives.  The interleaving of the
   worker task and the consumer is a schedule (list of labels); theorems quantify over every
   script and every schedule.

   Not modelled: speculative execution (C13: several fibers of one page run concurrently; only
   one result is taken), metrics/history/tracing calls, the typed row layer (type check and row
   deserialization of TypedRowStream: rows are opaque here), SetKeyspace / SchemaChange first
   pages (they need the Session), shard-unaware coordinators in the plan filter. *)
From SV Require Import Base.Prelude.
Open Scope N_scope.

(* rows are opaque values (the tie uses the value of a single int column); paging states are
   byte strings; targets are (node, shard) pairs encoded as numbers; errors are classes. *)
Notation row := N (only parsing).
Notation pstate := (list N) (only parsing).
Notation target := N (only parsing).
Notation err := N (only parsing).

(* error classes that do not come from the server's ERROR frame (DbError codes are < 2^16) *)
Definition e_timeout : err := 65536.      (* RequestError::RequestTimeout *)
Definition e_unexpected : err := 65537.   (* RequestAttemptError::UnexpectedResponse *)
Definition e_empty_plan : err := 65538.   (* RequestError::EmptyPlan *)
Definition e_pool : err := 65539.         (* RequestError::ConnectionPoolError *)
Definition e_broken : err := 65540.       (* RequestAttemptError::BrokenConnectionError (tie only) *)

(* RetryDecision, without the consistency payload (it does not influence paging) *)
Inductive decision := DSame | DNext | DDont | DIgnore.

(* what happens in one iteration of 'same_target_retries *)
Inductive fault :=
| FConnFail                       (* target.get_connection() failed: nothing is sent *)
| FErr (e : err) (d : decision)   (* the attempt is sent, fails with e, the session decides d *)
| FTimeout                        (* the attempt is sent; the client-side timeout fires first *)
| FUnprep.                        (* EXECUTE answered UNPREPARED: Connection::execute_raw_with_consistency
                                     re-prepares and re-sends the SAME frame parameters (paging state
                                     included) on the same connection, inside the same attempt; what
                                     follows in the list happens to the re-sent frame.  Two adjacent
                                     FUnprep are not meaningful (the second UNPREPARED would surface as
                                     an error) and are never generated. *)

(* what a successful attempt receives *)
Inductive response :=
| RRows (rows : list row) (next : option pstate)  (* RESULT/Rows; has_more_pages + state, or not *)
| RVoid                           (* another RESULT kind without session side effects *)
| RNonResult.                     (* a non-RESULT, non-ERROR response *)

Record pscript := mk_ps {
  ps_plan : list target;          (* load_balancing::Plan::new(..) for this page request *)
  ps_faults : list fault;
  ps_resp : response
}.

(* Session::{query_iter, execute_iter} vs Connection::execute_iter *)
Inductive mode := MSession | MConn.

Inductive fetch_result :=
| FCompleted (coord : target) (r : response)   (* RunRequestResult::Completed *)
| FIgnored (coord : target)                    (* RunRequestResult::IgnoredWriteError *)
| FFailed (e : err).                           (* Err(RequestError) *)

(* ---- one page: run_request_speculative_fiber -------------------------------------------- *)

(* [t] is the current target, [rest] what the plan iterator still holds.  Returns the targets
   of the attempts that were SENT, in order, and the outcome.  `last_error` is always set
   immediately before `continue 'targets_in_plan`, so it is passed to [next_target]. *)
Fixpoint attempts (fs : list fault) (resp : response) (t : target) (rest : list target)
  {struct fs} : list target * fetch_result :=
  match fs with
  | [] => ([t], FCompleted t resp)
  | f :: fs' =>
      let next_target (last : err) :=
        match rest with
        | [] => ([], FFailed last)                       (* last_error.map(Result::Err) *)
        | t' :: rest' => attempts fs' resp t' rest'
        end in
      match f with
      | FConnFail => next_target e_pool
      | FTimeout => ([t], FFailed e_timeout)
      | FUnprep => let (l, r) := attempts fs' resp t rest in (t :: l, r)
      | FErr e d =>
          match d with
          | DSame => let (l, r) := attempts fs' resp t rest in (t :: l, r)
          | DNext => let (l, r) := next_target e in (t :: l, r)
          | DDont => ([t], FFailed e)                     (* break 'targets_in_plan *)
          | DIgnore => ([t], FIgnored t)
          end
      end
  end.

(* PagingExecutor::fetch_one_page: stable coordinator first, then the fresh plan without it *)
Definition eff_plan (stable : option target) (base : list target) : list target :=
  match stable with
  | None => base
  | Some c => c :: filter (fun t => negb (t =? c)) base
  end.

(* SingleConnectionPagingExecutor::fetch_one_page: FallthroughRetryPolicy makes every decision
   DontRetry; SingleConnectionTarget::get_connection never fails *)
Definition conn_fault (f : fault) : list fault :=
  match f with
  | FConnFail => []
  | FErr e _ => [FErr e DDont]
  | FTimeout => [FTimeout]
  | FUnprep => [FUnprep]            (* the re-prepare lives in Connection, below both pagers *)
  end.

Definition fetch_one (m : mode) (stable : option target) (ps : pscript)
  : list target * fetch_result :=
  match m with
  | MSession =>
      match eff_plan stable (ps_plan ps) with
      | [] => ([], FFailed e_empty_plan)                 (* unwrap_or(Err(EmptyPlan)) *)
      | t :: rest => attempts (ps_faults ps) (ps_resp ps) t rest
      end
  | MConn => attempts (flat_map conn_fault (ps_faults ps)) (ps_resp ps) 0 []
  end.

(* ---- requests seen by the server --------------------------------------------------------- *)

Record req := mk_req {
  rq_page : nat;                  (* which page of the query this request asks for *)
  rq_state : option pstate;       (* paging_state of the QUERY/EXECUTE frame *)
  rq_target : target
}.

(* ---- producer ---------------------------------------------------------------------------- *)

Inductive msg :=
| MPage (rows : list row)         (* Ok(NextReceivedPage) *)
| MErr (e : err).                 (* Err(NextPageError::RequestFailure) *)

(* program counter of the worker task *)
Inductive prod :=
| PFetch (i : nat) (st : pstate) (stable : option target) (rest : list pscript)
                                  (* top of the page loop: about to fetch page i *)
| PSend (m : msg) (k : prod)      (* at `sender.send(m).await`; k = what follows a successful send *)
| PDone.                          (* returned (or never spawned): the sender is dropped *)

(* query_remaining_pages / fetch_remaining_pages after fetch_one_page returned *)
Definition after_fetch (i : nat) (rest : list pscript) (r : fetch_result) : prod :=
  match r with
  | FIgnored _ => PDone                                       (* warn!; return *)
  | FFailed e => PSend (MErr e) PDone
  | FCompleted c (RRows rows (Some st')) => PSend (MPage rows) (PFetch (S i) st' (Some c) rest)
  | FCompleted c (RRows rows None) => PSend (MPage rows) PDone
  | FCompleted c _ => PSend (MErr e_unexpected) PDone
  end.

(* construction of the pager on the caller's task: first page, then spawn *)
Inductive start_result :=
| SStuck                          (* the server never answers the first request *)
| SFail (e : err)                 (* query_iter / execute_iter returned Err: no pager *)
| SPager (rows : list row) (p : prod).

Definition start (m : mode) (script : list pscript) : list req * start_result :=
  match script with
  | [] => ([], SStuck)
  | ps :: rest =>
      let (ts, r) := fetch_one m None ps in
      (map (mk_req 0 None) ts,
       match r with
       | FFailed e => SFail e
       | FIgnored _ =>
           match m with
           | MSession => SPager [] PDone                   (* mock_empty(), NoMorePages *)
           | MConn => SFail e_unexpected                   (* unreachable!(): DIgnore never arises *)
           end
       | FCompleted c (RRows rows (Some st)) => SPager rows (PFetch 1 st (Some c) rest)
       | FCompleted c (RRows rows None) => SPager rows PDone
       | FCompleted c RVoid =>
           match m with
           | MSession => SPager [] PDone                   (* "empty stream as suggested in #631" *)
           | MConn => SFail e_unexpected
           end
       | FCompleted c RNonResult => SFail e_unexpected
       end)
  end.

(* ---- the system: worker task || channel(1) || consumer ----------------------------------- *)

Inductive item := IRow (r : row) | IErr (e : err) | IEnd.

Inductive cstat := CActive | CEnded | CDropped.

Record sys := mk_sys {
  s_mode : mode;
  s_prod : prod;
  s_chan : list msg;              (* buffered messages; capacity 1 *)
  s_cons : cstat;
  s_cur : list row;               (* current_page: rows remaining *)
  s_out : list item;              (* what the caller has been given so far *)
  s_reqs : list req;              (* every request sent so far *)
  s_fetched : nat;                (* ghost: pages fetched by the worker *)
  s_recv : nat                    (* ghost: messages taken out of the channel *)
}.

Inductive label :=
| LProd                           (* the worker task runs to its next await *)
| LCons                           (* the caller polls next() once *)
| LDrop.                          (* the caller drops the pager / stream *)

Definition prod_step (s : sys) : option sys :=
  match s_prod s with
  | PFetch i st stable [] => None                          (* the server stays silent *)
  | PFetch i st stable (ps :: rest) =>
      let (ts, r) := fetch_one (s_mode s) stable ps in
      Some (mk_sys (s_mode s) (after_fetch i rest r) (s_chan s) (s_cons s) (s_cur s) (s_out s)
                   (s_reqs s ++ map (mk_req i (Some st)) ts) (S (s_fetched s)) (s_recv s))
  | PSend m k =>
      match s_cons s with
      | CDropped =>                                        (* send() fails: return *)
          Some (mk_sys (s_mode s) PDone (s_chan s) (s_cons s) (s_cur s) (s_out s) (s_reqs s)
                       (s_fetched s) (s_recv s))
      | _ =>
          match s_chan s with
          | [] => Some (mk_sys (s_mode s) k [m] (s_cons s) (s_cur s) (s_out s) (s_reqs s)
                               (s_fetched s) (s_recv s))
          | _ :: _ => None                                 (* no permit: the send is pending *)
          end
      end
  | PDone => None
  end.

Definition cons_step (s : sys) : option sys :=
  match s_cons s with
  | CActive =>
      match s_cur s with
      | r :: cur' =>                                       (* page not exhausted: next row *)
          Some (mk_sys (s_mode s) (s_prod s) (s_chan s) CActive cur' (s_out s ++ [IRow r])
                       (s_reqs s) (s_fetched s) (s_recv s))
      | [] =>
          match s_chan s with
          | MPage rows :: ch' =>                           (* poll_next_page: Ready(Some(Ok)) *)
              match rows with
              | [] =>                                      (* zero-sized page: wake, Pending *)
                  Some (mk_sys (s_mode s) (s_prod s) ch' CActive [] (s_out s) (s_reqs s)
                               (s_fetched s) (S (s_recv s)))
              | r :: rows' =>                              (* fresh page, its first row *)
                  Some (mk_sys (s_mode s) (s_prod s) ch' CActive rows' (s_out s ++ [IRow r])
                               (s_reqs s) (s_fetched s) (S (s_recv s)))
              end
          | MErr e :: ch' =>
              Some (mk_sys (s_mode s) (s_prod s) ch' CActive [] (s_out s ++ [IErr e]) (s_reqs s)
                           (s_fetched s) (S (s_recv s)))
          | [] =>
              match s_prod s with
              | PDone =>                                   (* closed and empty: Ready(None) *)
                  Some (mk_sys (s_mode s) PDone [] CEnded [] (s_out s ++ [IEnd]) (s_reqs s)
                               (s_fetched s) (s_recv s))
              | _ => None                                  (* Pending *)
              end
          end
      end
  | _ => None
  end.

Definition drop_step (s : sys) : option sys :=
  match s_cons s with
  | CDropped => None
  | _ => Some (mk_sys (s_mode s) (s_prod s) [] CDropped [] (s_out s) (s_reqs s)
                      (s_fetched s) (s_recv s))
  end.

Definition step (s : sys) (l : label) : option sys :=
  match l with
  | LProd => prod_step s
  | LCons => cons_step s
  | LDrop => drop_step s
  end.

Fixpoint run (s : sys) (ls : list label) : option sys :=
  match ls with
  | [] => Some s
  | l :: r => match step s l with Some s' => run s' r | None => None end
  end.

(* the pager right after construction *)
Definition init_sys (m : mode) (rq : list req) (rows : list row) (p : prod) : sys :=
  mk_sys m p [] CActive rows [] rq 1 0.

Definition pager_init (m : mode) (script : list pscript) : option sys :=
  match start m script with
  | (rq0, SPager rows p) => Some (init_sys m rq0 rows p)
  | _ => None
  end.

(* ---- sequential reference: what the worker does when it is never blocked nor dropped ----- *)

Definition tail_msgs (r : fetch_result) : list msg :=
  match r with
  | FIgnored _ => []
  | FFailed e => [MErr e]
  | FCompleted c (RRows rows _) => [MPage rows]
  | FCompleted c _ => [MErr e_unexpected]
  end.

Fixpoint worker (m : mode) (i : nat) (st : pstate) (stable : option target)
         (rest : list pscript) {struct rest} : list req * list msg :=
  match rest with
  | [] => ([], [])
  | ps :: rest' =>
      let (ts, r) := fetch_one m stable ps in
      let rq := map (mk_req i (Some st)) ts in
      match r with
      | FCompleted c (RRows rows (Some st')) =>
          let (rq', ms) := worker m (S i) st' (Some c) rest' in (rq ++ rq', MPage rows :: ms)
      | _ => (rq, tail_msgs r)
      end
  end.

(* does the worker reach its `return` (true) or wait for a silent server (false)? *)
Fixpoint worker_done (m : mode) (stable : option target) (rest : list pscript) : bool :=
  match rest with
  | [] => false
  | ps :: rest' =>
      match snd (fetch_one m stable ps) with
      | FCompleted c (RRows _ (Some _)) => worker_done m (Some c) rest'
      | _ => true
      end
  end.

Fixpoint pfuture (m : mode) (p : prod) : list req * list msg :=
  match p with
  | PFetch i st stable rest => worker m i st stable rest
  | PSend x k => let (rq, ms) := pfuture m k in (rq, x :: ms)
  | PDone => ([], [])
  end.

Fixpoint pdone (m : mode) (p : prod) : bool :=
  match p with
  | PFetch i st stable rest => worker_done m stable rest
  | PSend x k => pdone m k
  | PDone => true
  end.

Definition msg_items (x : msg) : list item :=
  match x with
  | MPage rows => map IRow rows
  | MErr e => [IErr e]
  end.

(* what the caller observes of a whole query: the constructor's error, or the item stream *)
Inductive observed :=
| OStuck
| OFail (e : err)
| OStream (items : list item).

(* the model's prediction for a caller that consumes the stream to its end *)
Definition seq_run (m : mode) (script : list pscript) : list req * observed :=
  let (rq0, sr) := start m script in
  match sr with
  | SStuck => (rq0, OStuck)
  | SFail e => (rq0, OFail e)
  | SPager rows p =>
      let (rq, ms) := pfuture m p in
      (rq0 ++ rq,
       if pdone m p then OStream (map IRow rows ++ flat_map msg_items ms ++ [IEnd]) else OStuck)
  end.

(* the flattened view used by the statements: a constructor error is "error, then end" *)
Definition obs_items (o : observed) : list item :=
  match o with
  | OStuck => []
  | OFail e => [IErr e; IEnd]
  | OStream items => items
  end.

(* ---- specification, written from the property text ------------------------------------- *)

(* the server's split of a result set: pages with the paging state returned with each *)
Definition page := (list row * option pstate)%type.

(* pages the client must read: up to and including the first one without a next state *)
Fixpoint served_pages (pages : list page) : list (list row) :=
  match pages with
  | [] => []
  | (rows, None) :: _ => [rows]
  | (rows, Some _) :: r => rows :: served_pages r
  end.

Fixpoint has_last (pages : list page) : bool :=
  match pages with
  | [] => false
  | (_, None) :: _ => true
  | (_, Some _) :: r => has_last r
  end.

(* "delivers exactly the rows of the pages in server order, each once, then terminates" *)
Definition spec_stream (pages : list page) : list item :=
  map IRow (concat (served_pages pages)) ++ [IEnd].

(* "a non-retried failure [on page k] surfaces as an error after all rows of earlier pages" *)
Definition spec_error_stream (pages : list page) (k : nat) (e : err) : list item :=
  map IRow (concat (map fst (firstn k pages))) ++ [IErr e; IEnd].

(* "each page request carries the paging state returned with the previous page and the first
   carries none" *)
Definition spec_state (pages : list page) (i : nat) : option pstate :=
  match i with
  | O => None
  | S j => match nth_error pages j with Some (_, st) => st | None => None end
  end.

(* the (rows, next) content of a script, page by page *)
Definition resp_page (r : response) : page :=
  match r with
  | RRows rows next => (rows, next)
  | _ => ([], None)
  end.
Definition script_pages (script : list pscript) : list page :=
  map (fun ps => resp_page (ps_resp ps)) script.

Definition is_rows (r : response) : bool :=
  match r with RRows _ _ => true | _ => false end.

(* faults the retry policy retries, and those among them that move to the next target *)
Definition fault_retried (f : fault) : bool :=
  match f with
  | FConnFail => true
  | FErr _ DSame => true
  | FErr _ DNext => true
  | FUnprep => true
  | _ => false
  end.
Definition fault_advances (f : fault) : bool :=
  match f with
  | FConnFail => true
  | FErr _ DNext => true
  | _ => false
  end.
Definition fault_sent (f : fault) : bool :=
  match f with FConnFail => false | _ => true end.

Fixpoint nodupb (l : list N) : bool :=
  match l with
  | [] => true
  | x :: r => negb (existsb (N.eqb x) r) && nodupb r
  end.

(* "every fault is retried successfully": all faults of the page are retried and the plan
   does not run out of targets (Session mode).  Connection::execute_iter never retries. *)
Definition page_retried (m : mode) (ps : pscript) : bool :=
  match m with
  | MSession =>
      forallb fault_retried (ps_faults ps) && nodupb (ps_plan ps) &&
      (List.length (filter fault_advances (ps_faults ps)) <? List.length (ps_plan ps))%nat
  | MConn => forallb fault_retried (flat_map conn_fault (ps_faults ps))
  end.

(* number of requests the server sees for a page whose faults are all retried *)
Definition page_requests (m : mode) (ps : pscript) : nat :=
  match m with
  | MSession => S (List.length (filter fault_sent (ps_faults ps)))
  | MConn => S (List.length (filter fault_sent (flat_map conn_fault (ps_faults ps))))
  end.

Fixpoint enumerate_from {A} (i : nat) (l : list A) : list (nat * A) :=
  match l with
  | [] => []
  | x :: r => (i, x) :: enumerate_from (S i) r
  end.

(* the (page number, paging state) of every request the specification expects, in order *)
Definition spec_requests (m : mode) (script : list pscript) : list (nat * option pstate) :=
  flat_map (fun ip => repeat (fst ip, spec_state (script_pages script) (fst ip))
                             (page_requests m (snd ip)))
           (enumerate_from 0 script).

(* the same, following the chain: [st] = state for the first page of [rest] *)
Fixpoint chain_keys (m : mode) (i : nat) (st : option pstate) (rest : list pscript)
  : list (nat * option pstate) :=
  match rest with
  | [] => []
  | ps :: r =>
      repeat (i, st) (page_requests m ps) ++ chain_keys m (S i) (snd (resp_page (ps_resp ps))) r
  end.
Fixpoint chain_state (st : option pstate) (rest : list pscript) (j : nat) {struct j}
  : option pstate :=
  match j with
  | O => st
  | S j' =>
      match rest with
      | [] => None
      | ps :: r => chain_state (snd (resp_page (ps_resp ps))) r j'
      end
  end.

Definition req_key (r : req) : nat * option pstate := (rq_page r, rq_state r).

(* scripts to which the statements about complete reads apply: every page is a Rows response
   whose faults are all retried, and exactly the last page says "no more pages" *)
Fixpoint closed_chain (pages : list page) : bool :=
  match pages with
  | [] => false
  | [(_, None)] => true
  | (_, Some _) :: r => closed_chain r
  | _ => false
  end.
Definition good_script (m : mode) (script : list pscript) : bool :=
  forallb (fun ps => is_rows (ps_resp ps) && page_retried m ps) script &&
  closed_chain (script_pages script).

Definition has_next (r : response) : bool :=
  match r with RRows _ (Some _) => true | _ => false end.

(* ---- how one page request ends, from the meaning of the four decisions ------------------
   Written without targets: only HOW MANY targets the plan still holds matters for the outcome.
   [left] = targets not tried yet.  A connection that cannot be acquired and a RetryNextTarget
   both move to the next target (the request fails with the last error when there is none);
   RetrySameTarget and a transparent re-prepare stay; DontRetry and the client timeout fail the
   request; IgnoreWriteError ends it without a response. *)
Inductive pout :=
| PoResp (r : response)
| PoErr (e : err)
| PoIgnored (e : err).

Fixpoint spec_attempts (fs : list fault) (left : nat) (resp : response) : pout :=
  match fs with
  | [] => PoResp resp
  | FConnFail :: fs' => match left with O => PoErr e_pool | S l => spec_attempts fs' l resp end
  | FTimeout :: _ => PoErr e_timeout
  | FUnprep :: fs' => spec_attempts fs' left resp
  | FErr e DSame :: fs' => spec_attempts fs' left resp
  | FErr e DNext :: fs' => match left with O => PoErr e | S l => spec_attempts fs' l resp end
  | FErr e DDont :: _ => PoErr e
  | FErr e DIgnore :: _ => PoIgnored e
  end.

(* [n] = number of nodes of the cluster (every plan is a permutation of them, see plans_ok) *)
Definition spec_page (m : mode) (n : nat) (ps : pscript) : pout :=
  match m with
  | MSession =>
      match n with
      | O => PoErr e_empty_plan
      | S l => spec_attempts (ps_faults ps) l (ps_resp ps)
      end
  | MConn => spec_attempts (flat_map conn_fault (ps_faults ps)) 0 (ps_resp ps)
  end.

(* the scripts the count-based specification speaks about: every plan is a duplicate-free
   enumeration of the same node set *)
Definition plans_ok (nodes : list target) (script : list pscript) : bool :=
  nodupb nodes &&
  forallb (fun ps => nodupb (ps_plan ps) &&
                     Nat.eqb (List.length (ps_plan ps)) (List.length nodes) &&
                     forallb (fun t => existsb (N.eqb t) nodes) (ps_plan ps)) script.

(* THE PROPERTY, as the item stream a full read must deliver ([None]: the script lets the
   server go silent, no claim).  Pages are read up to the first one without a next state.
   [strict = true] is the property text: EVERY way a page request ends without rows -- DontRetry,
   client timeout, plan exhausted, empty plan, no connection, a response that is not Rows,
   IgnoreWriteError -- surfaces as an error after the rows of the earlier pages, then the end.
   [strict = false] differs in one place and describes what the code does: an IgnoreWriteError
   decision ends the stream silently (observation O1, known-finding class below). *)
Fixpoint expected (strict : bool) (m : mode) (n : nat) (first : bool) (script : list pscript)
  : option (list item) :=
  match script with
  | [] => None
  | ps :: rest =>
      match spec_page m n ps with
      | PoErr e => Some [IErr e; IEnd]
      | PoIgnored e => if strict then Some [IErr e; IEnd] else Some [IEnd]
      | PoResp (RRows rows (Some _)) =>
          match expected strict m n false rest with
          | Some l => Some (map IRow rows ++ l)
          | None => None
          end
      | PoResp (RRows rows None) => Some (map IRow rows ++ [IEnd])
      | PoResp RVoid =>
          (* a Session pager treats a non-Rows RESULT as the FIRST page as an empty result *)
          match m, first with
          | MSession, true => Some [IEnd]
          | _, _ => Some [IErr e_unexpected; IEnd]
          end
      | PoResp RNonResult => Some [IErr e_unexpected; IEnd]
      end
  end.

(* known-finding class "ignore-write-error-silent-end": the first page request that does not
   return "rows, more pages" ends in IgnoreWriteError *)
Fixpoint known_ignored (m : mode) (n : nat) (script : list pscript) : bool :=
  match script with
  | [] => false
  | ps :: rest =>
      match spec_page m n ps with
      | PoIgnored _ => true
      | PoResp (RRows _ (Some _)) => known_ignored m n rest
      | _ => false
      end
  end.

(* [Some (k, e)]: pages 0..k-1 are read and announce more pages, the request of page k ends
   without rows, with error e -- every kind of failure listed above *)
Fixpoint fail_point (m : mode) (n : nat) (first : bool) (script : list pscript)
  : option (nat * err) :=
  match script with
  | [] => None
  | ps :: rest =>
      match spec_page m n ps with
      | PoErr e => Some (O, e)
      | PoIgnored e => Some (O, e)
      | PoResp (RRows _ (Some _)) =>
          match fail_point m n false rest with Some (k, e) => Some (S k, e) | None => None end
      | PoResp (RRows _ None) => None
      | PoResp RVoid =>
          match m, first with
          | MSession, true => None
          | _, _ => Some (O, e_unexpected)
          end
      | PoResp RNonResult => Some (O, e_unexpected)
      end
  end.

(* ---- comparison helpers for the correspondence driver (decidable equalities) ------------ *)

Fixpoint list_eqb {A} (eqb : A -> A -> bool) (a b : list A) : bool :=
  match a, b with
  | [], [] => true
  | x :: a', y :: b' => eqb x y && list_eqb eqb a' b'
  | _, _ => false
  end.
Definition opt_eqb {A} (eqb : A -> A -> bool) (a b : option A) : bool :=
  match a, b with
  | None, None => true
  | Some x, Some y => eqb x y
  | _, _ => false
  end.
Definition item_eqb (a b : item) : bool :=
  match a, b with
  | IRow x, IRow y => x =? y
  | IErr x, IErr y => x =? y
  | IEnd, IEnd => true
  | _, _ => false
  end.
Definition key_eqb (a b : nat * option pstate) : bool :=
  Nat.eqb (fst a) (fst b) && opt_eqb (list_eqb N.eqb) (snd a) (snd b).

Fixpoint is_prefix {A} (eqb : A -> A -> bool) (a b : list A) : bool :=
  match a, b with
  | [], _ => true
  | x :: a', y :: b' => eqb x y && is_prefix eqb a' b'
  | _ :: _, [] => false
  end.

(* full read: the caller consumed the stream to its end.  Exact comparison with the model. *)
Definition accept_full (m : mode) (script : list pscript)
           (obs_items_ : list item) (obs_keys : list (nat * option pstate)) : bool :=
  let (rq, o) := seq_run m script in
  list_eqb item_eqb obs_items_ (obs_items o) && list_eqb key_eqb obs_keys (map req_key rq).

(* early drop: the caller took [n] items and dropped the stream.  [msgs_needed] = how many
   channel messages the consumer must have received to deliver n items; the worker can be at
   most two pages ahead (one buffered, one fetched and waiting for a permit). *)
Definition msg_size (x : msg) : nat :=
  match x with MPage rows => List.length rows | MErr _ => 1%nat end.
(* least k such that the first page and the first k messages hold at least n items *)
Fixpoint msgs_needed (n : nat) (have : nat) (ms : list msg) : nat :=
  match ms with
  | [] => O
  | x :: ms' => if Nat.leb n have then O else S (msgs_needed n (have + msg_size x) ms')
  end.

(* requests issued while fetching worker pages 1 .. k (page 0 is fetched by the constructor) *)
Definition reqs_upto (rq : list req) (k : nat) : nat :=
  List.length (filter (fun r => Nat.leb (rq_page r) k) rq).

Definition accept_drop (m : mode) (script : list pscript) (n : nat)
           (obs_items_ : list item) (obs_keys : list (nat * option pstate)) : bool :=
  let (rq0, sr) := start m script in
  match sr with
  | SPager rows p =>
      let (rq, ms) := pfuture m p in
      let all := map IRow rows ++ flat_map msg_items ms ++ [IEnd] in
      let k := msgs_needed n (List.length rows) ms in
      let allrq := rq0 ++ rq in
      list_eqb item_eqb obs_items_ (firstn n all) &&
      is_prefix key_eqb obs_keys (map req_key allrq) &&
      Nat.leb (reqs_upto allrq k) (List.length obs_keys) &&
      Nat.leb (List.length obs_keys) (reqs_upto allrq (k + 2))
  | SFail e =>                      (* the constructor failed: there is nothing to drop *)
      list_eqb item_eqb obs_items_ [IErr e; IEnd] && list_eqb key_eqb obs_keys (map req_key rq0)
  | SStuck => false
  end.

(* THE PROPERTY as a predicate on what was observed.  Every request must carry the state
   returned with the page before it (for EVERY script); the items must be the expected stream
   (full read) resp. its first n items (the caller took n items and dropped the stream).
   How many requests a page needed is not part of the property (the acceptors compare it). *)
Definition states_ok (script : list pscript) (obs_keys : list (nat * option pstate)) : bool :=
  forallb (fun k => opt_eqb (list_eqb N.eqb) (snd k) (spec_state (script_pages script) (fst k)))
          obs_keys.

Definition prop_full_ok (m : mode) (n : nat) (script : list pscript)
           (obs_items_ : list item) (obs_keys : list (nat * option pstate)) : bool :=
  states_ok script obs_keys &&
  match expected true m n true script with
  | Some its => list_eqb item_eqb obs_items_ its
  | None => true
  end.

Definition prop_drop_ok (m : mode) (n : nat) (script : list pscript) (cnt : nat)
           (obs_items_ : list item) (obs_keys : list (nat * option pstate)) : bool :=
  states_ok script obs_keys &&
  match expected true m n true script with
  | Some its => list_eqb item_eqb obs_items_ (firstn cnt its)
  | None => true
  end.

(* ---- client-side timeout racing the fetch (tie: cases with a scripted T) -------------------
   The request timeout of a page is a wall-clock bound: when the machine stalls it can strike
   an attempt EARLIER than the scripted one -- any attempt of the page that holds the T, or of a
   page before it.  [early_timeouts script] enumerates those environments: the same script with
   the page's fault list cut after i faults and a timeout there.  The driver accepts a T case
   if one of them explains the observation exactly. *)
Definition with_timeout (i : nat) (ps : pscript) : pscript :=
  mk_ps (ps_plan ps) (firstn i (ps_faults ps) ++ [FTimeout]) (ps_resp ps).
Definition is_timeout (f : fault) : bool :=
  match f with FTimeout => true | _ => false end.
Fixpoint early_timeouts (script : list pscript) : list (list pscript) :=
  match script with
  | [] => []
  | ps :: rest =>
      map (fun i => with_timeout i ps :: rest) (seq 0 (S (List.length (ps_faults ps)))) ++
      (if existsb is_timeout (ps_faults ps) then [] else map (cons ps) (early_timeouts rest))
  end.
Definition ctor_fails (m : mode) (script : list pscript) : bool :=
  match snd (seq_run m script) with OFail _ => true | _ => false end.
Definition accept_full_timeout (m : mode) (script : list pscript) (ctor : bool)
           (obs_items_ : list item) (obs_keys : list (nat * option pstate)) : bool :=
  existsb (fun sc => accept_full m sc obs_items_ obs_keys && Bool.eqb ctor (ctor_fails m sc))
          (early_timeouts script).

(* ---- target identities: coordinator stability -------------------------------------------------
   Which node receives each request of a page, as a relation an observer at the server can
   check WITHOUT knowing the load balancer's plan: [cur] = the target the next attempt goes to
   when the observer knows it (the coordinator that served the previous page; the target of the
   previous attempt after RetrySameTarget / a re-prepare), [None] when it only knows that it is a
   target not used before in this page (page 0; after RetryNextTarget; after a target whose
   connection could not be acquired).  The plan running out ends the page's requests early. *)
Definition fits (cur : option target) (used : list target) (x : target) : bool :=
  match cur with
  | Some t => x =? t
  | None => negb (existsb (N.eqb x) used)
  end.
Definition add_used (cur : option target) (used : list target) : list target :=
  match cur with Some t => t :: used | None => used end.

Fixpoint follows (fs : list fault) (cur : option target) (used : list target)
         (obs : list target) : bool :=
  match fs with
  | [] => match obs with [x] => fits cur used x | _ => false end
  | FConnFail :: fs' =>
      match obs with [] => true | _ => follows fs' None (add_used cur used) obs end
  | FTimeout :: _ => match obs with [x] => fits cur used x | _ => false end
  | FErr _ DDont :: _ => match obs with [x] => fits cur used x | _ => false end
  | FErr _ DIgnore :: _ => match obs with [x] => fits cur used x | _ => false end
  | FUnprep :: fs' =>
      match obs with x :: obs' => fits cur used x && follows fs' (Some x) used obs' | [] => false end
  | FErr _ DSame :: fs' =>
      match obs with x :: obs' => fits cur used x && follows fs' (Some x) used obs' | [] => false end
  | FErr _ DNext :: fs' =>
      match obs with
      | x :: obs' =>
          fits cur used x && match obs' with [] => true | _ => follows fs' None (x :: used) obs' end
      | [] => false
      end
  end.

Fixpoint last_opt {A} (l : list A) : option A :=
  match l with [] => None | [x] => Some x | _ :: r => last_opt r end.

(* page after page: the first request of page i+1 goes to the node that answered page i *)
Fixpoint coord_ok (stable : option target) (script : list pscript) (obs : list (list target))
  {struct obs} : bool :=
  match obs with
  | [] => true
  | o :: obs' =>
      match script with
      | [] => false
      | ps :: rest => follows (ps_faults ps) stable [] o && coord_ok (last_opt o) rest obs'
      end
  end.

(* the targets of the model's requests, page by page (Session pagers) *)
Fixpoint worker_targets (stable : option target) (rest : list pscript) : list (list target) :=
  match rest with
  | [] => []
  | ps :: rest' =>
      let (ts, r) := fetch_one MSession stable ps in
      match r with
      | FCompleted c (RRows _ (Some _)) => ts :: worker_targets (Some c) rest'
      | _ => [ts]
      end
  end.
Definition seq_targets (script : list pscript) : list (list target) := worker_targets None script.

(* ---- one page with the caller's paging state: Session::{query,execute}_single_page --------
   The caller resumes a query with a PagingState it kept; the request goes through the same
   fiber loop (fresh plan, no stable coordinator); every attempt must carry exactly the state
   the caller gave. *)
Definition single_run (st : option pstate) (ps : pscript)
  : list (nat * option pstate) * fetch_result :=
  let (ts, r) := fetch_one MSession None ps in (map (fun _ => (O, st)) ts, r).

(* what the caller must get, from the meaning of the decisions (n nodes) *)
Definition single_expected (n : nat) (ps : pscript) : pout := spec_page MSession n ps.

(* ---- acceptor and property predicate of the single-page cases (kind P of the tie) -------- *)
Inductive sres :=
| SRows (rows : list row) (next : option pstate)   (* Ok((rows result, paging state response)) *)
| SVoid                                            (* Ok with a non-rows result *)
| SErr (e : err).
Definition single_result (r : fetch_result) : sres :=
  match r with
  | FCompleted _ (RRows rows next) => SRows rows next
  | FCompleted _ RVoid => SVoid
  | FCompleted _ RNonResult => SErr e_unexpected
  | FIgnored _ => SVoid                            (* not generated by the tie *)
  | FFailed e => SErr e
  end.
Definition sres_eqb (a b : sres) : bool :=
  match a, b with
  | SRows r1 n1, SRows r2 n2 => list_eqb N.eqb r1 r2 && opt_eqb (list_eqb N.eqb) n1 n2
  | SVoid, SVoid => true
  | SErr e1, SErr e2 => e1 =? e2
  | _, _ => false
  end.
(* the sentence of the property for a resumed page: every request carries the caller's state *)
Definition prop_single_ok (st : option pstate) (obs_keys : list (nat * option pstate)) : bool :=
  forallb (fun k => opt_eqb (list_eqb N.eqb) (snd k) st) obs_keys.
Definition accept_single (st : option pstate) (ps : pscript) (obs : sres)
           (obs_keys : list (nat * option pstate)) (obs_nodes : list target) : bool :=
  let (keys, r) := single_run st ps in
  sres_eqb obs (single_result r) && list_eqb key_eqb obs_keys keys &&
  follows (ps_faults ps) None [] obs_nodes.

(* ---- early drop of a read whose script holds a client timeout: same tolerance as for full
   reads (the timeout may strike an earlier attempt) *)
Definition accept_drop_timeout (m : mode) (script : list pscript) (cnt : nat)
           (obs_items_ : list item) (obs_keys : list (nat * option pstate)) : bool :=
  existsb (fun sc => accept_drop m sc cnt obs_items_ obs_keys && negb (ctor_fails m sc))
          (early_timeouts script).

(* ---- how a page request ends, stated WITHOUT a loop: positions and counts ------------------
   The request ends at the first fault that (a) is terminal by itself -- client timeout,
   DontRetry, IgnoreWriteError -- or (b) asks for another target (a connection that cannot be
   acquired, RetryNextTarget) when the faults before it have already used up the [left] spare
   targets; if no fault ends it, the response arrives.  [used] = spare targets consumed before
   the list starts (0 at top level). *)
Definition terminal (f : fault) : option pout :=
  match f with
  | FTimeout => Some (PoErr e_timeout)
  | FErr e DDont => Some (PoErr e)
  | FErr e DIgnore => Some (PoIgnored e)
  | _ => None
  end.
Definition adv_err (f : fault) : err :=
  match f with FConnFail => e_pool | FErr e _ => e | _ => 0 end.
Definition ends_at (fs : list fault) (spare used : nat) (i : nat) : option pout :=
  match nth_error fs i with
  | None => None
  | Some f =>
      match terminal f with
      | Some o => Some o
      | None =>
          if fault_advances f &&
             Nat.leb spare (used + List.length (filter fault_advances (firstn i fs)))
          then Some (PoErr (adv_err f)) else None
      end
  end.
Fixpoint first_some {A} (l : list (option A)) : option A :=
  match l with
  | [] => None
  | Some x :: _ => Some x
  | None :: r => first_some r
  end.
Definition attempts_closed (fs : list fault) (spare used : nat) (resp : response) : pout :=
  match first_some (map (ends_at fs spare used) (seq 0 (List.length fs))) with
  | Some o => o
  | None => PoResp resp
  end.
Definition spec_page_closed (m : mode) (n : nat) (ps : pscript) : pout :=
  match m with
  | MSession =>
      match n with
      | O => PoErr e_empty_plan
      | S l => attempts_closed (ps_faults ps) l 0 (ps_resp ps)
      end
  | MConn => attempts_closed (flat_map conn_fault (ps_faults ps)) 0 0 (ps_resp ps)
  end.

(* ---- how many requests a page needs, in closed form (not extracted; used by theorems only) ----
   [ends_here]: the request ends at fault i; the server sees one request per sent fault before
   the ending fault, plus the ending attempt itself unless the request ended because no
   connection could be acquired on the last target; one more (the successful attempt) when no
   fault ends it.  [sres_of]: what the caller of a single-page call gets for each outcome. *)
Definition ends_here (fs : list fault) (spare used i : nat) : bool :=
  match ends_at fs spare used i with Some _ => true | None => false end.
Definition requests_closed (fs : list fault) (spare used : nat) : nat :=
  match find (ends_here fs spare used) (seq 0 (List.length fs)) with
  | None => S (List.length (filter fault_sent fs))
  | Some j =>
      (List.length (filter fault_sent (firstn j fs)) +
       match nth_error fs j with Some FConnFail => 0 | _ => 1 end)%nat
  end.
Definition sres_of (o : pout) : sres :=
  match o with
  | PoResp (RRows rows next) => SRows rows next
  | PoResp RVoid => SVoid
  | PoResp RNonResult => SErr e_unexpected
  | PoErr e => SErr e
  | PoIgnored _ => SVoid
  end.
