(* Model of scylla/src/policies/timestamp_generator.rs (MonotonicTimestampGenerator) and of the
   three `statement.get_timestamp().or_else(generator)` sites of network/connection.rs
   (property C18).  Executable definitions only; proofs are in Proofs/Timestamp_proofs.v.

   Rust types: last : AtomicI64 (here Z, with the i64 wrap-around of `last + 1` and of
   `as_micros() as i64` written explicitly), SeqCst atomics = one atomic step each. *)
From SV Require Import Base.Prelude Model.Sched.
Open Scope Z_scope.

Definition i64_max : Z := 2 ^ 63 - 1.
Definition i64_min : Z := - 2 ^ 63.
(* two's complement wrap to i64: `as i64` on a wider integer, and release-mode `+` *)
Definition wrap64 (z : Z) : Z := (z + 2 ^ 63) mod 2 ^ 64 - 2 ^ 63.

(* One reading of the system clock: `SystemTime::now().duration_since(UNIX_EPOCH)`.
   [None] = Err (the clock is before the epoch), [Some m] = Ok(d) with d.as_micros() = m (u128).
   Nothing at all is assumed about successive readings. *)
Definition clock := option Z.

(* MonotonicTimestampGenerator::compute_next(last) given the clock reading.  The warning branch
   (threshold test, `last_warning` mutex, tracing::warn!) does not influence the returned value
   as long as its own i64 subtraction `last - u_cur` does not overflow, i.e. for
   u_cur >= last - i64::MAX (a reading that wraps to a very negative i64 - beyond the year
   294 000 - makes it overflow: panic with overflow checks); it is not modelled.  `last + 1` is i64 arithmetic: it overflows for last = i64::MAX (panic
   with overflow checks, wrap to i64::MIN without) - written here as the wrap. *)
Definition compute_next (last : Z) (c : clock) : Z :=
  match c with
  | Some m => let u_cur := wrap64 m in
              if u_cur >? last then u_cur else wrap64 (last + 1)
  | None => wrap64 (last + 1)
  end.

(* The clock-skew warning branch of compute_next (taken when a generator is configured with warnings,
   the reading is not before the epoch and u_cur <= last):
     if last - u_cur > cfg.warning_threshold.as_micros() as i64 { ... warn!(...) }
   `last - u_cur` is i64 arithmetic.  It overflows iff last - u_cur > i64::MAX, which needs a reading
   that wraps to a negative i64 (>= 2^63 microseconds, beyond the year 294 000).  With overflow checks
   (debug/test profiles, and the verification harness) that is a panic inside next_timestamp; without
   them the difference wraps to a negative number, the warning is skipped and the result is unaffected. *)
Definition warn_sub_overflows (last : Z) (c : clock) : bool :=
  match c with
  | Some m => let u_cur := wrap64 m in (u_cur <=? last) && (i64_max <? last - u_cur)
  | None => false
  end.
(* compute_next of a generator WITH a warning configuration, compiled with overflow checks:
   [None] = arithmetic-overflow panic *)
Definition compute_next_checked (warnings : bool) (last : Z) (c : clock) : option Z :=
  if warnings && warn_sub_overflows last c then None else Some (compute_next last c).

(* ---- next_timestamp as a per-thread program ----------------------------------------------
     loop { let last = self.last.load(SeqCst);                  -- Load
            let cur = self.compute_next(last);                  -- Clock c  (one clock reading)
            if self.last.compare_exchange(last, cur).is_ok()    -- Cas
            { return cur; } }                                                              *)
Inductive pc :=
| Idle                       (* between calls / at the top of the loop *)
| Loaded (l : Z)             (* `last` has been loaded *)
| Computed (l cur : Z).      (* compute_next returned [cur] *)

Record thread := mkThread {
  t_pc : pc;
  t_todo : nat;              (* calls of next_timestamp still to be completed by this thread *)
  t_out : list Z             (* values returned to this thread so far, NEWEST FIRST *)
}.

Record state := mkState {
  last : Z;                  (* the AtomicI64 *)
  threads : list thread;
  chain : list Z             (* ghost: targets of the successful compare_exchanges, newest first *)
}.

Inductive label :=
| Load (t : nat)
| Clock (t : nat) (c : clock)
| Cas (t : nat).

Fixpoint upd_nth {A} (n : nat) (x : A) (l : list A) : list A :=
  match l, n with
  | [], _ => []
  | _ :: r, O => x :: r
  | y :: r, S k => y :: upd_nth k x r
  end.

Definition set_thread (s : state) (t : nat) (th : thread) : state :=
  mkState (last s) (upd_nth t th (threads s)) (chain s).

Definition step (s : state) (lb : label) : option state :=
  match lb with
  | Load t =>
      match nth_error (threads s) t with
      | Some th =>
          match t_pc th, t_todo th with
          | Idle, S _ => Some (set_thread s t (mkThread (Loaded (last s)) (t_todo th) (t_out th)))
          | _, _ => None
          end
      | None => None
      end
  | Clock t c =>
      match nth_error (threads s) t with
      | Some th =>
          match t_pc th with
          | Loaded l => Some (set_thread s t (mkThread (Computed l (compute_next l c)) (t_todo th) (t_out th)))
          | _ => None
          end
      | None => None
      end
  | Cas t =>
      match nth_error (threads s) t with
      | Some th =>
          match t_pc th with
          | Computed l cur =>
              if last s =? l
              then (* success: store cur, return it *)
                   Some (mkState cur
                           (upd_nth t (mkThread Idle (pred (t_todo th)) (cur :: t_out th)) (threads s))
                           (cur :: chain s))
              else (* failure: back to the top of the loop, nothing returned *)
                   Some (set_thread s t (mkThread Idle (t_todo th) (t_out th)))
          | _ => None
          end
      | None => None
      end
  end.

(* N threads, each with M calls to make, on a fresh generator (AtomicI64::new(0)) *)
Definition init (N M : nat) : state := mkState 0 (repeat (mkThread Idle M []) N) [].

(* every value handed out so far, over all threads *)
Definition handed_out (s : state) : list Z := concat (map t_out (threads s)).

(* ---- the overflow guard ------------------------------------------------------------------
   The only assumption on the clock: every reading that is not before the epoch is, as an i64,
   at most B, and B + (total number of calls) stays below i64::MAX.  Stalls, repeats and steps
   backwards are all allowed. *)
Definition label_ok (B : Z) (lb : label) : bool :=
  match lb with
  | Clock _ (Some m) => wrap64 m <=? B
  | _ => true
  end.
Definition sched_ok (B : Z) (ls : list label) : bool := forallb (label_ok B) ls.

(* the guarded system: the same steps, restricted to admissible clock readings *)
Definition gstep (B : Z) (s : state) (lb : label) : option state :=
  if label_ok B lb then step s lb else None.

(* ---- which timestamp goes into the frame -------------------------------------------------
   connection.rs (query_raw_with_consistency, execute_raw_with_consistency, batch_with_consistency):
     let timestamp = statement.get_timestamp().or_else(get_timestamp_from_gen);
   [gen] = the value `generator.next_timestamp()` would return, [None] when no generator is
   configured.  The second component says whether the generator is consulted at all (or_else is
   lazy: an explicit timestamp does not advance the generator). *)
Definition choose_ts (stmt_ts gen : option Z) : option Z :=
  match stmt_ts with Some t => Some t | None => gen end.
Definition gen_consulted (stmt_ts : option Z) : bool :=
  match stmt_ts with Some _ => false | None => true end.

(* the timestamps of all frames of one request: execute_raw_with_consistency / batch_with_consistency
   compute `timestamp` once; the frame re-sent after an UNPREPARED answer is built from
   `..execute_frame.parameters`, i.e. carries the same value; the generator is consulted once *)
Definition frames_ts (stmt_ts gen : option Z) (resends : nat) : list (option Z) :=
  repeat (choose_ts stmt_ts gen) (S resends).

(* ---- acceptors used by the correspondence check --------------------------------------------
   Observed: per OS thread, the sequence of values returned by next_timestamp, OLDEST FIRST. *)

(* strictly increasing, tail recursive *)
Fixpoint incr_from (prev : Z) (l : list Z) : bool :=
  match l with
  | [] => true
  | x :: r => if prev <? x then incr_from x r else false
  end.
Definition strictly_incr (l : list Z) : bool :=
  match l with [] => true | x :: r => incr_from x r end.

(* distinctness through a binary trie over the bits of the value, most significant bit first
   (values handed out in one run share their high bits, so the trie stays small; depth <= 65,
   so the extracted code needs no deep recursion).  Injective code Z -> list bool. *)
Fixpoint bits_acc (p : positive) (acc : list bool) : list bool :=
  match p with
  | xH => acc
  | xO q => bits_acc q (false :: acc)
  | xI q => bits_acc q (true :: acc)
  end.
Definition zcode (z : Z) : list bool :=
  match z with Z0 => [] | Zpos p => true :: bits_acc p [] | Zneg p => false :: bits_acc p [] end.

Inductive ptrie := PLeaf | PNode (l : ptrie) (here : bool) (r : ptrie).

Fixpoint pmem (k : list bool) (t : ptrie) : bool :=
  match t with
  | PLeaf => false
  | PNode l h r =>
      match k with
      | [] => h
      | false :: q => pmem q l
      | true :: q => pmem q r
      end
  end.

Fixpoint padd (k : list bool) (t : ptrie) : ptrie :=
  match k with
  | [] => match t with PLeaf => PNode PLeaf true PLeaf | PNode l _ r => PNode l true r end
  | false :: q => match t with PLeaf => PNode (padd q PLeaf) false PLeaf | PNode l h r => PNode (padd q l) h r end
  | true :: q => match t with PLeaf => PNode PLeaf false (padd q PLeaf) | PNode l h r => PNode l h (padd q r) end
  end.

(* insert all values; [None] as soon as one is already present *)
Fixpoint add_all (l : list Z) (t : ptrie) : option ptrie :=
  match l with
  | [] => Some t
  | x :: r => if pmem (zcode x) t then None else add_all r (padd (zcode x) t)
  end.
Fixpoint add_all_lists (ls : list (list Z)) (t : ptrie) : option ptrie :=
  match ls with
  | [] => Some t
  | l :: r => match add_all l t with Some t' => add_all_lists r t' | None => None end
  end.
Definition all_distinct (ls : list (list Z)) : bool :=
  match add_all_lists ls PLeaf with Some _ => true | None => false end.

(* THE PROPERTY PREDICATE on observed per-thread sequences: pairwise distinct over all threads
   and strictly increasing along each thread *)
Definition prop_ok (seqs : list (list Z)) : bool :=
  forallb strictly_incr seqs && all_distinct seqs.

(* one more call made after all threads were joined must exceed everything handed out
   (the atomic holds the maximum handed out) *)
Fixpoint all_below (f : Z) (l : list Z) : bool :=
  match l with
  | [] => true
  | v :: r => if v <? f then all_below f r else false
  end.
Definition final_ok (seqs : list (list Z)) (final : Z) : bool := forallb (all_below final) seqs.

(* two-phase runs: all threads make calls, meet at a barrier, make calls again.  Every value of
   the second phase must exceed every value of the first phase (C18_call_order) *)
Fixpoint max_from (m : Z) (l : list Z) : Z :=
  match l with [] => m | x :: r => max_from (Z.max m x) r end.
Fixpoint all_above (m : Z) (l : list Z) : bool :=
  match l with
  | [] => true
  | v :: r => if m <? v then all_above m r else false
  end.
Definition phase_ok (firsts seconds : list (list Z)) : bool :=
  forallb (all_above (fold_left max_from firsts 0)) seconds.

(* Single-thread sequence with the harness' own clock readings around every call:
   sample = (t0, v, t1), t0/t1 = microseconds since the epoch read just before/after the call
   that returned v.  Accepted iff SOME clock reading now in [t0, t1] makes the model return
   exactly v:   v = compute_next last (Some now).  When the harness saw its own clock step
   backwards around the call (t1 < t0) nothing is known about the reading inside; then only
   "some reading" is required. *)
Definition accept_sample (lastv t0 v t1 : Z) : bool :=
  if t1 <? t0 then (lastv <? v)
  else ((v =? lastv + 1) && (t0 <=? lastv))            (* reading <= last: last + 1 *)
       || ((lastv <? v) && (t0 <=? v) && (v <=? t1)).  (* reading  > last: the reading *)
Fixpoint accept_samples (lastv : Z) (l : list (Z * Z * Z)) : bool :=
  match l with
  | [] => true
  | (t0, v, t1) :: r => accept_sample lastv t0 v t1 && accept_samples v r
  end.
