(* Model of the metadata worker's fetch scheduling (scylla/src/cluster/metadata/worker.rs):
   FetchPlan (l. 118-175), PendingFetches with its starter step start_due_fetches (l. 245-322) and
   its resolution as a Future (l. 349-385), and the part of work_on_cc / work_without_cc
   (l. 537-758, 852-871) that moves refresh requests: received only while no full fetch is in
   flight, stored as `pending_request`, attached to the next metadata published.
   (property C19, user-visible half: "a requested refresh is eventually answered and the published
   state reflects the latest fetched topology").  Executable definitions only; proofs are in
   Proofs/FetchPlan_proofs.v.
   A fetch is identified by a number (the order in which fetches were started); a client-routes
   request is the list of the event numbers whose pairs it accumulates (the code: a set union). *)
From SV Require Import Base.Prelude Model.Sched.
Open Scope N_scope.

(* ---- FetchPlan ---------------------------------------------------------------------------- *)
Inductive plan := PFull | PPartial (routes : list N) (topology : bool).   (* routes [] = None *)
Definition plan_empty : plan := PPartial [] false.
Definition note_full (p : plan) : plan := PFull.
Definition note_routes (r : N) (p : plan) : plan :=
  match p with PPartial rs t => PPartial (rs ++ [r]) t | PFull => PFull end.
Definition note_topology (p : plan) : plan :=
  match p with PPartial rs _ => PPartial rs true | PFull => PFull end.

(* ---- PendingFetches ----------------------------------------------------------------------- *)
Inductive inflight := IFull (f : N) | IPartial (routes : option N) (topology : option N).
Definition inflight_empty : inflight := IPartial None None.
Definition is_full (i : inflight) : bool := match i with IFull _ => true | _ => false end.

(* start_due_fetches; [deadline] = Instant::now() >= next_refresh_deadline; [next] = id of the next
   fetch started.  Returns (in flight, plan, next id). *)
Definition start_due (deadline : bool) (next : N) (fl : inflight) (p : plan) : inflight * plan * N :=
  if negb (is_full fl) && (match p with PFull => true | _ => false end || deadline)
  then (IFull next, plan_empty, next + 1)       (* drops the plan's partial work and running partial fetches *)
  else
    match fl, p with
    | IPartial rf tf, PPartial rs t =>
        let '(rf', rs', n1) :=
          match rf, rs with
          | None, _ :: _ => (Some next, [], next + 1)
          | _, _ => (rf, rs, next)
          end in
        let '(tf', t', n2) :=
          match tf, t with
          | None, true => (Some n1, false, n1 + 1)
          | _, _ => (tf, t, n1)
          end in
        (IPartial rf' tf', PPartial rs' t', n2)
    | _, _ => (fl, p, next)
    end.

(* what a poll of PendingFetches resolves to, given which in-flight fetches have completed *)
Inductive outcome := OFull (f : N) | ORoutes (f : N) | OTopology (f : N).
Definition resolve (ready : N -> bool) (fl : inflight) : option (outcome * inflight) :=
  match fl with
  | IFull f => if ready f then Some (OFull f, inflight_empty) else None
  | IPartial rf tf =>
      match rf with
      | Some f => if ready f then Some (ORoutes f, IPartial None tf) else
                    match tf with
                    | Some g => if ready g then Some (OTopology g, IPartial rf None) else None
                    | None => None
                    end
      | None => match tf with
                | Some g => if ready g then Some (OTopology g, IPartial None None) else None
                | None => None
                end
      end
  end.

(* ---- the worker, as far as refresh requests are concerned --------------------------------- *)
Inductive cc_state := OnCC | NoCC.    (* work_on_cc / work_without_cc *)
Inductive answer := AAttached (f : N) | AErr.   (* response attached to the metadata of fetch f / answered Err *)

Record fstate := mkF {
  f_cc : cc_state;
  f_plan : plan; f_fl : inflight; f_next : N;
  f_queue : list N;                 (* refresh_channel: requests sent and not yet received *)
  f_pending : option N;             (* self.pending_request *)
  (* ghost *)
  f_received : list N;              (* requests received so far, in order *)
  f_started : list (N * list N);    (* full fetches / establishment fetches: (fetch id, requests received before it started) *)
  f_answers : list (N * answer);    (* (request, how it was answered) *)
  f_arrived : list N                (* all requests ever sent *)
}.
Definition f_init : fstate := mkF OnCC plan_empty inflight_empty 0 [] None [] [] [] [].

Inductive event := EvTopology | EvRoutes (r : N) | EvStatus | EvSchema.

Inductive flabel :=
| FSend (r : N)                       (* Cluster::refresh_metadata sends a request *)
| FStarter (deadline : bool)          (* top of the loop: start_due_fetches *)
| FRecv                               (* select!: refresh_channel.recv(), if !full_fetch_in_flight *)
| FEvent (e : event)                  (* select!: a server event *)
| FDone (ready : N -> bool) (ok : bool)   (* select!: pending_fetches resolved; ok = the fetch succeeded *)
| FBroken                             (* the control connection broke *)
| FEstablish (ok : bool).             (* work_without_cc: one attempt (it fetches metadata too) *)

Definition set_core (s : fstate) cc p fl nx : fstate :=
  mkF cc p fl nx (f_queue s) (f_pending s) (f_received s) (f_started s) (f_answers s) (f_arrived s).

(* publish_metadata: the pending request, if any, is attached to this metadata *)
Definition publish (s : fstate) (f : N) : fstate :=
  match f_pending s with
  | Some r => mkF (f_cc s) (f_plan s) (f_fl s) (f_next s) (f_queue s) None (f_received s) (f_started s)
                  (f_answers s ++ [(r, AAttached f)]) (f_arrived s)
  | None => s
  end.

Definition fstep (s : fstate) (lb : flabel) : option fstate :=
  match lb with
  | FSend r =>
      Some (mkF (f_cc s) (f_plan s) (f_fl s) (f_next s) (f_queue s ++ [r]) (f_pending s) (f_received s)
                (f_started s) (f_answers s) (f_arrived s ++ [r]))
  | FStarter deadline =>
      match f_cc s with
      | OnCC =>
          let '(fl, p, nx) := start_due deadline (f_next s) (f_fl s) (f_plan s) in
          let started := match fl, f_fl s with
                         | IFull f, IPartial _ _ => f_started s ++ [(f, f_received s)]
                         | _, _ => f_started s
                         end in
          Some (mkF OnCC p fl nx (f_queue s) (f_pending s) (f_received s) started (f_answers s) (f_arrived s))
      | NoCC => None
      end
  | FRecv =>
      (* on a control connection: only while no full fetch is in flight; both loops take the pending
         request before awaiting the next one *)
      match f_queue s, f_pending s with
      | r :: q, None =>
          match f_cc s with
          | OnCC => if is_full (f_fl s) then None
                    else Some (mkF OnCC (note_full (f_plan s)) (f_fl s) (f_next s) q (Some r) (f_received s ++ [r])
                                   (f_started s) (f_answers s) (f_arrived s))
          | NoCC => Some (mkF NoCC (f_plan s) (f_fl s) (f_next s) q (Some r) (f_received s ++ [r])
                              (f_started s) (f_answers s) (f_arrived s))
          end
      | _, _ => None
      end
  | FEvent e =>
      match f_cc s with
      | OnCC => Some (set_core s OnCC (match e with
                                       | EvTopology | EvStatus => note_topology (f_plan s)
                                       | EvRoutes r => note_routes r (f_plan s)
                                       | EvSchema => f_plan s
                                       end) (f_fl s) (f_next s))
      | NoCC => None
      end
  | FDone ready ok =>
      match f_cc s with
      | OnCC =>
          match resolve ready (f_fl s) with
          | Some (OFull f, fl) =>
              if ok then Some (publish (set_core s OnCC (f_plan s) fl (f_next s)) f)
              else (* the connection is defunct; the pending request is retried while establishing *)
                   Some (set_core s NoCC plan_empty inflight_empty (f_next s))
          | Some (ORoutes _, fl) | Some (OTopology _, fl) =>
              Some (set_core s OnCC (if ok then f_plan s else note_full (f_plan s)) fl (f_next s))
          | None => None
          end
      | NoCC => None
      end
  | FBroken =>
      match f_cc s with
      | OnCC => Some (set_core s NoCC plan_empty inflight_empty (f_next s))
      | NoCC => None
      end
  | FEstablish ok =>
      match f_cc s with
      | NoCC =>
          let f := f_next s in
          let s1 := mkF NoCC (f_plan s) (f_fl s) (f + 1) (f_queue s) (f_pending s) (f_received s)
                        (f_started s ++ [(f, f_received s)]) (f_answers s) (f_arrived s) in
          if ok then Some (set_core (publish s1 f) OnCC plan_empty inflight_empty (f + 1))
          else Some (match f_pending s1 with
                     | Some r => mkF NoCC (f_plan s1) (f_fl s1) (f_next s1) (f_queue s1) None (f_received s1)
                                     (f_started s1) (f_answers s1 ++ [(r, AErr)]) (f_arrived s1)
                     | None => s1
                     end)
      | OnCC => None
      end
  end.

Definition pending_list (s : fstate) : list N := match f_pending s with Some r => [r] | None => [] end.
