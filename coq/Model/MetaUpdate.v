(* Model of scylla/src/cluster/metadata/update.rs (property C19, user-visible half): the value
   that travels through the merge channel - MetadataUpdate - and the merge functions the metadata
   worker passes to Sender::modify (worker.rs: send_update(|slot| MetadataUpdate::merge_*(slot, ..)),
   together with what the cluster worker does with the refresh responses of a received update
   (cluster/worker.rs apply_metadata_update, l. 419-480).  Executable definitions only; proofs are
   in Proofs/MetaUpdate_proofs.v.

   Abstraction: a fetch result is identified by its version (the index of the operation that
   produced it); the keyspaces and the contents of the client-routes snapshot are not modelled. *)
From SV Require Import Base.Prelude.
Open Scope N_scope.

Inductive hint := HUp | HDown.

(* Metadata of a full fetch: which fetch wrote the schema part, which fetch wrote the peer list
   (a later partial topology fetch overwrites it), whether a client-routes snapshot is present *)
Record metadata := mkMd { md_version : N; md_peers : N; md_routes : bool }.

Inductive changes :=
| Full (md : metadata) (responses : list N)      (* refresh_responses: ids of the requests to answer *)
| Partial (routes : list N) (peers : option N).  (* client_routes_updates ([] = None), peers *)

Record mupdate := mkMu { mu_changes : option changes; mu_hints : list (N * hint) }.
Definition mu_default : mupdate := mkMu None [].

(* MetadataUpdate::slot_mut = slot.get_or_insert_with(Self::default) *)
Definition slot_mut (slot : option mupdate) : mupdate :=
  match slot with Some u => u | None => mu_default end.

(* merge_metadata: newest metadata wins, pending partial work is dropped, the response channels
   of an older pending full fetch are KEPT and the new one is pushed after them *)
Definition merge_metadata (slot : option mupdate) (md : metadata) (resp : list N) : option mupdate :=
  let u := slot_mut slot in
  Some (mkMu (Some (match mu_changes u with
                    | None | Some (Partial _ _) => Full md resp
                    | Some (Full _ rs) => Full md (rs ++ resp)
                    end)) (mu_hints u)).

(* merge_client_routes_update *)
Definition merge_routes (slot : option mupdate) (r : N) : option mupdate :=
  let u := slot_mut slot in
  Some (mkMu (Some (match mu_changes u with
                    | None => Partial [r] None
                    | Some (Partial rs p) => Partial (rs ++ [r]) p
                    | Some (Full md rs) => Full md rs   (* merged into (or ignored by) the snapshot *)
                    end)) (mu_hints u)).

(* merge_topology_update *)
Definition merge_topology (slot : option mupdate) (p : N) : option mupdate :=
  let u := slot_mut slot in
  Some (mkMu (Some (match mu_changes u with
                    | None => Partial [] (Some p)
                    | Some (Partial rs _) => Partial rs (Some p)
                    | Some (Full md rs) => Full (mkMd (md_version md) p (md_routes md)) rs
                    end)) (mu_hints u)).

(* status_hints.insert(addr, hint): latest wins; kept sorted by address *)
Fixpoint set_hint (a : N) (h : hint) (l : list (N * hint)) : list (N * hint) :=
  match l with
  | [] => [(a, h)]
  | (b, g) :: r => if a =? b then (a, h) :: r else if a <? b then (a, h) :: (b, g) :: r else (b, g) :: set_hint a h r
  end.
Definition merge_hint (slot : option mupdate) (a : N) (h : hint) : option mupdate :=
  let u := slot_mut slot in Some (mkMu (mu_changes u) (set_hint a h (mu_hints u))).

(* the operations of the hand-off; the version of an operation = its 1-based position *)
Inductive mop :=
| MFull (with_response with_routes : bool)
| MRoutes | MTopology
| MUp (a : N) | MDown (a : N)
| MTake.                         (* the cluster worker receives the slot's value *)

Definition responses_of (u : mupdate) : list N :=
  match mu_changes u with Some (Full _ rs) => rs | _ => [] end.
Definition responses_slot (slot : option mupdate) : list N :=
  match slot with Some u => responses_of u | None => [] end.

Record hstate := mkH { h_slot : option mupdate; h_answered : list N }.
Definition h_init : hstate := mkH None [].

Definition apply_mop (v : N) (o : mop) (s : hstate) : hstate :=
  match o with
  | MFull r routes => mkH (merge_metadata (h_slot s) (mkMd v v routes) (if r then [v] else [])) (h_answered s)
  | MRoutes => mkH (merge_routes (h_slot s) v) (h_answered s)
  | MTopology => mkH (merge_topology (h_slot s) v) (h_answered s)
  | MUp a => mkH (merge_hint (h_slot s) a HUp) (h_answered s)
  | MDown a => mkH (merge_hint (h_slot s) a HDown) (h_answered s)
  | MTake =>
      (* apply_metadata_update: `for response_chan in refresh_responses { send(Ok(())) }` *)
      mkH None (h_answered s ++ responses_slot (h_slot s))
  end.

Fixpoint run_mops (v : N) (os : list mop) (s : hstate) : hstate :=
  match os with [] => s | o :: r => run_mops (v + 1) r (apply_mop v o s) end.

(* the states after every operation (what the harness observes) *)
Fixpoint trace_mops (v : N) (os : list mop) (s : hstate) : list hstate :=
  match os with [] => [] | o :: r => let s' := apply_mop v o s in s' :: trace_mops (v + 1) r s' end.

(* ---- specification, from the property text ---------------------------------------------- *)
(* the refresh requests handed to the metadata worker, in order *)
Fixpoint requested (v : N) (os : list mop) : list N :=
  match os with
  | [] => []
  | MFull true _ :: r => v :: requested (v + 1) r
  | _ :: r => requested (v + 1) r
  end.

(* the newest peer list fetched (by a full or a partial topology fetch) since the consumer last
   took a value *)
Fixpoint latest_peers (v : N) (os : list mop) (acc : option N) : option N :=
  match os with
  | [] => acc
  | (MFull _ _ | MTopology) :: r => latest_peers (v + 1) r (Some v)
  | MTake :: r => latest_peers (v + 1) r None
  | _ :: r => latest_peers (v + 1) r acc
  end.
Definition peers_slot (slot : option mupdate) : option N :=
  match slot with
  | Some u => match mu_changes u with
              | Some (Full md _) => Some (md_peers md)
              | Some (Partial _ p) => p
              | None => None
              end
  | None => None
  end.

(* PROPERTY PREDICATE on what the implementation reports at the end of a script: the status of
   every response channel in creation order (0 still pending, 1 answered Ok, 2 sender dropped
   without an answer, 3 answered with an error) and the number of responses still attached to the
   slot.  Demanded ("a requested refresh is eventually answered"): no channel was dropped or
   failed, and every channel that is not answered yet is still attached to the slot (so the
   consumer will answer it when it takes the value). *)
Definition status_ok (st : list N) (pending_in_slot : N) : bool :=
  forallb (fun x => (x =? 0) || (x =? 1)) st &&
  (N.of_nat (List.length (filter (N.eqb 0) st)) =? pending_in_slot).

(* the statuses the model predicts: the answered requests are a prefix of the requested ones *)
Definition model_status (s : hstate) : list N :=
  repeat 1 (List.length (h_answered s)) ++ repeat 0 (List.length (responses_slot (h_slot s))).

(* what the hook reports of the slot: (kind, metadata version, peers version, routes configured,
   partial routes, number of responses, hints as (address, is_up)) *)
Definition view (slot : option mupdate) : N * N * N * bool * list N * N * list (N * bool) :=
  match slot with
  | None => (0, 0, 0, false, [], 0, [])
  | Some u =>
      let hs := map (fun ah => (fst ah, match snd ah with HUp => true | HDown => false end)) (mu_hints u) in
      match mu_changes u with
      | None => (1, 0, 0, false, [], 0, hs)
      | Some (Partial rs p) => (2, 0, match p with Some x => x | None => 0 end, false, rs, 0, hs)
      | Some (Full md rs) => (3, md_version md, md_peers md, md_routes md, [], N.of_nat (List.length rs), hs)
      end
  end.
