(* Property C08 — model, part 4: the parser of custom-type strings
   (scylla-cql/src/frame/response/custom_type_parser.rs + utils/parse.rs ParserState), with the
   nesting limit MAX_CUSTOM_TYPE_NESTING_DEPTH of commit 6cd239c and the fused parameter iterator
   of commit 63ff0f6.  ASCII type strings only: a string with a byte >= 128 makes the model
   decline (EUnmodelled) because `char::is_alphanumeric` / `is_whitespace` on non-ASCII characters
   need the Unicode tables.  Executable definitions only.

   The parser is a state machine over the remaining string; unlike the byte readers, an error
   does NOT discard the state: the parameter iterators go on after an erroneous element. *)
From SV Require Import Base.Prelude Base.Bytes Model.FrameBase Model.FrameTypes Model.FrameResp.
From Coq Require Import Ascii String.
Open Scope N_scope.

Record cst : Type := mkCst { cs_s : bytes; cs_frozen : bool; cs_depth : N; cs_maxd : N }.
Definition cp (A : Type) : Type := cst -> (result ferr A * cst).

Definition set_s (st : cst) (s : bytes) : cst := mkCst s (cs_frozen st) (cs_depth st) (cs_maxd st).
Definition set_frozen (st : cst) (f : bool) : cst := mkCst (cs_s st) f (cs_depth st) (cs_maxd st).

Definition MAX_CUSTOM_TYPE_NESTING_DEPTH : N := 128.

(* ---- ParserState ------------------------------------------------------------------------ *)
Definition is_white (c : N) : bool := in_rng 9 13 c || (c =? 32).
Definition is_alnum (c : N) : bool := in_rng 48 57 c || in_rng 65 90 c || in_rng 97 122 c.
(* is_identifier_char: alphanumeric or one of + - _ . & *)
Definition is_ident (c : N) : bool :=
  is_alnum c || (c =? 43) || (c =? 45) || (c =? 95) || (c =? 46) || (c =? 38).
Definition is_digit (c : N) : bool := in_rng 48 57 c.
Definition is_hexdigit (c : N) : bool := in_rng 48 57 c || in_rng 65 70 c || in_rng 97 102 c.

Fixpoint take_while (p : N -> bool) (s : bytes) : bytes * bytes :=
  match s with
  | [] => ([], [])
  | c :: r => if p c then let '(a, b) := take_while p r in (c :: a, b) else ([], s)
  end.
Fixpoint strip_prefix (pre s : bytes) : option bytes :=
  match pre, s with
  | [], _ => Some s
  | p :: pr, c :: r => if p =? c then strip_prefix pr r else None
  | _ :: _, [] => None
  end.

Definition skip_blank (st : cst) : cst := set_s st (snd (take_while is_white (cs_s st))).
Definition accept (c : N) (st : cst) : option cst :=
  match cs_s st with
  | x :: r => if x =? c then Some (set_s st r) else None
  | [] => None
  end.
(* skip_blank_and_comma: blanks, optionally one comma, blanks *)
Definition skip_blank_and_comma (st : cst) : cst :=
  let st1 := skip_blank st in
  match accept 44 st1 with Some st2 => skip_blank st2 | None => st1 end.
Definition at_eof (st : cst) : bool := match cs_s st with [] => true | _ => false end.
Definition read_ident (st : cst) : bytes * cst :=
  let '(a, b) := take_while is_ident (cs_s st) in (a, set_s st b).

Definition LPAR : N := 40.  Definition RPAR : N := 41.  Definition COLON : N := 58.

(* usize::from_str_radix(name, 16).is_ok(): optional '+', at least one hex digit, value < 2^64 *)
Definition hex_value (s : bytes) : option N :=
  fold_left (fun acc c => match acc, hexval c with Some a, Some v => Some (a * 16 + v) | _, _ => None end)
            s (Some 0).
Definition usize_hex_ok (name : bytes) : bool :=
  let digits := match name with 43 :: r => r | _ => name end in
  match digits with
  | [] => false
  | _ => match hex_value digits with Some v => v <? 2 ^ 64 | None => false end
  end.

(* parse_u16: a maximal run of ASCII digits parsed as u16 *)
Definition dec_value (s : bytes) : N := fold_left (fun acc c => acc * 10 + (c - 48)) s 0.
Definition parse_u16 (st : cst) : option (N * cst) :=
  let '(d, rest) := take_while is_digit (cs_s st) in
  match d with
  | [] => None
  | _ => let v := dec_value d in if v <? 65536 then Some (v, set_s st rest) else None
  end.

(* from_hex: only hex digits, even length; the decoded bytes *)
Definition from_hex (s : bytes) : option bytes :=
  if forallb is_hexdigit s then hex_pairs s else None.

Definition marshal_prefix : bytes := astr "org.apache.cassandra.db.marshal."%string.
Definition strip_marshal (name : bytes) : bytes :=
  match strip_prefix marshal_prefix name with Some r => r | None => name end.

Definition simple_type (name : bytes) : option native :=
  let n := strip_marshal name in
  if is_str n "AsciiType" then Some FrameTypes.Ascii else if is_str n "BooleanType" then Some Boolean
  else if is_str n "BytesType" then Some Blob else if is_str n "CounterColumnType" then Some Counter
  else if is_str n "DateType" then Some Date else if is_str n "DecimalType" then Some Decimal
  else if is_str n "DoubleType" then Some Double else if is_str n "DurationType" then Some Duration
  else if is_str n "FloatType" then Some Float else if is_str n "InetAddressType" then Some Inet
  else if is_str n "Int32Type" then Some Int else if is_str n "IntegerType" then Some Varint
  else if is_str n "LongType" then Some BigInt else if is_str n "SimpleDateType" then Some Date
  else if is_str n "ShortType" then Some SmallInt else if is_str n "UTF8Type" then Some Text
  else if is_str n "ByteType" then Some TinyInt else if is_str n "UUIDType" then Some Uuid
  else if is_str n "TimeUUIDType" then Some Timeuuid else if is_str n "SmallIntType" then Some SmallInt
  else if is_str n "TinyIntType" then Some TinyInt else if is_str n "TimeType" then Some Time
  else if is_str n "TimestampType" then Some Timestamp else None.

(* ---- the type-parameter iterator (get_type_parameters, commit cd1a67a) ------------------- *)
Definition is_err {A} (r : result ferr A) : bool := match r with Err _ => true | Ok _ => false end.

(* one `next()` of the from_fn iterator; [fin] = the `finished` flag: set after the closing
   parenthesis and after the first erroneous item (end of input or a failing do_parse) *)
Definition next_item (elem : cp coltype) (fin : bool) (st : cst)
  : option (result ferr coltype) * bool * cst :=
  if fin then (None, true, st)
  else
    let st1 := skip_blank_and_comma st in
    if at_eof st1 then (Some (Err ECtEof), true, st1)
    else match accept RPAR st1 with
         | Some st2 => (None, true, st2)
         | None => let '(r, st2) := elem st1 in (Some r, is_err r, st2)
         end.

(* `parameters.by_ref().take(N).collect::<Vec<_>>()` *)
Fixpoint take_k (k : nat) (elem : cp coltype) (fin : bool) (st : cst)
  : list (result ferr coltype) * bool * cst :=
  match k with
  | O => ([], fin, st)
  | S k' =>
    match next_item elem fin st with
    | (None, fin1, st1) => ([], fin1, st1)
    | (Some x, fin1, st1) =>
      let '(l, fin2, st2) := take_k k' elem fin1 st1 in (x :: l, fin2, st2)
    end
  end.
(* `parameters.count()`: the rest of the SAME iterator, parsed once *)
Fixpoint count_rest (lf : nat) (elem : cp coltype) (fin : bool) (st : cst) : option N * cst :=
  match lf with
  | O => (None, st)
  | S f =>
    match next_item elem fin st with
    | (None, _, st1) => (Some 0, st1)
    | (Some _, fin1, st1) =>
      match count_rest f elem fin1 st1 with
      | (Some n, st2) => (Some (n + 1), st2)
      | (None, st2) => (None, st2)
      end
    end
  end.
Definition loop_fuel (st : cst) : nat := S (S (List.length (cs_s st))).

(* get_n_type_parameters::<N>, N = 1 or 2 *)
Definition get_n (n : nat) (elem : cp coltype) : cp (list (result ferr coltype)) := fun st =>
  if at_eof st then (Err ECtParamCount, st)      (* empty iterator, n > 0 *)
  else match accept LPAR st with
       | None => (Err ECtUnexpectedChar, st)
       | Some st1 =>
         let '(items, fin, st2) := take_k n elem false st1 in
         match count_rest (loop_fuel st2) elem fin st2 with
         | (None, st3) => (Err EOutOfFuel, st3)
         | (Some extra, st3) =>
           if (lenN items + extra =? N.of_nat n) then (Ok items, st3) else (Err ECtParamCount, st3)
         end
       end.

(* TupleType: get_type_parameters()?.collect::<Result<Vec<_>, _>>()? then the emptiness check *)
Fixpoint collect_all (lf : nat) (elem : cp coltype) (reported : bool) (st : cst)
  : result ferr (list coltype) * cst :=
  match lf with
  | O => (Err EOutOfFuel, st)
  | S f =>
    match next_item elem reported st with
    | (None, _, st1) => (Ok [], st1)
    | (Some (Err e), _, st1) => (Err e, st1)
    | (Some (Ok t), rep, st1) =>
      match collect_all f elem rep st1 with
      | (Ok l, st2) => (Ok (t :: l), st2)
      | (Err e, st2) => (Err e, st2)
      end
    end
  end.
Definition tuple_params (elem : cp coltype) : cp (list coltype) := fun st =>
  if at_eof st then (Err ECtParamCount, st)
  else match accept LPAR st with
       | None => (Err ECtUnexpectedChar, st)
       | Some st1 =>
         match collect_all (loop_fuel st1) elem false st1 with
         | (Ok [], st2) => (Err ECtParamCount, st2)
         | (Ok l, st2) => (Ok l, st2)
         | (Err e, st2) => (Err e, st2)
         end
       end.

(* get_vector_parameters *)
Definition vector_params (elem : cp coltype) : cp (coltype * N) := fun st =>
  match accept LPAR st with
  | None => (Err ECtUnexpectedChar, st)
  | Some st1 =>
    let st2 := skip_blank_and_comma st1 in
    match accept RPAR st2 with
    | Some _ => (Err ECtParamCount, st2)
    | None =>
      match elem st2 with
      | (Err e, st3) => (Err e, st3)
      | (Ok t, st3) =>
        let st4 := skip_blank_and_comma st3 in
        match parse_u16 st4 with
        | None => (Err ECtInteger, st4)
        | Some (n, st5) =>
          match accept RPAR st5 with
          | Some st6 => (Ok (t, n), st6)
          | None => (Err ECtUnexpectedChar, st5)
          end
        end
      end
    end
  end.

(* get_udt_parameters: keyspace identifier, hex type name, then `hexname:type` fields *)
Fixpoint udt_fields (lf : nat) (elem : cp coltype) (st : cst)
  : result ferr (list (bytes * coltype)) * cst :=
  match lf with
  | O => (Err EOutOfFuel, st)
  | S f =>
    let st1 := skip_blank_and_comma st in
    if at_eof st1 then (Err ECtEof, st1)
    else match accept RPAR st1 with
         | Some st2 => (Ok [], st2)
         | None =>
           let '(id, st2) := read_ident st1 in
           match from_hex id with
           | None => (Err ECtBadHex, st2)
           | Some nm =>
             if negb (utf8_valid nm) then (Err ECtInvalidUtf8, st2)
             else match accept COLON st2 with
                  | None => (Err ECtUnexpectedChar, st2)
                  | Some st3 =>
                    match elem st3 with
                    | (Err e, st4) => (Err e, st4)
                    | (Ok t, st4) =>
                      match udt_fields f elem st4 with
                      | (Ok l, st5) => (Ok ((nm, t) :: l), st5)
                      | (Err e, st5) => (Err e, st5)
                      end
                    end
                  end
           end
         end
  end.

Definition udt_params (elem : cp coltype) : cp (bytes * bytes * list (bytes * coltype)) := fun st =>
  match accept LPAR st with
  | None => (Err ECtUnexpectedChar, st)
  | Some st1 =>
    let st2 := skip_blank_and_comma st1 in
    let '(ks, st3) := read_ident st2 in
    let st4 := skip_blank_and_comma st3 in
    let '(hx, st5) := read_ident st4 in
    match from_hex hx with
    | None => (Err ECtBadHex, st5)
    | Some nm =>
      if negb (utf8_valid nm) then (Err ECtInvalidUtf8, st5)
      else match udt_fields (loop_fuel st5) elem st5 with
           | (Ok fs, st6) => (Ok (ks, nm, fs), st6)
           | (Err e, st6) => (Err e, st6)
           end
    end
  end.

(* ---- get_complex_abstract_type / do_parse ---------------------------------------------- *)
Definition complex_type (elem : cp coltype) (name : bytes) : cp coltype := fun st =>
  let n := strip_marshal name in
  if is_str n "ListType" || is_str n "SetType" then
    match get_n 1 elem st with
    | (Err e, st1) => (Err e, st1)
    | (Ok [Ok t], st1) =>
      (Ok (if is_str n "ListType" then TList (cs_frozen st1) t else TSet (cs_frozen st1) t), st1)
    | (Ok (Err e :: _), st1) => (Err e, st1)
    | (Ok _, st1) => (Err EOutOfFuel, st1)
    end
  else if is_str n "MapType" then
    match get_n 2 elem st with
    | (Err e, st1) => (Err e, st1)
    | (Ok (Err e :: _), st1) => (Err e, st1)
    | (Ok [Ok _; Err e], st1) => (Err e, st1)
    | (Ok [Ok k; Ok v], st1) => (Ok (TMap (cs_frozen st1) k v), st1)
    | (Ok _, st1) => (Err EOutOfFuel, st1)
    end
  else if is_str n "TupleType" then
    match tuple_params elem st with
    | (Ok l, st1) => (Ok (TTuple l), st1)
    | (Err e, st1) => (Err e, st1)
    end
  else if is_str n "VectorType" then
    match vector_params elem st with
    | (Ok (t, d), st1) => (Ok (TVector t d), st1)
    | (Err e, st1) => (Err e, st1)
    end
  else if is_str n "UserType" then
    match udt_params elem st with
    | (Ok (ks, nm, fs), st1) => (Ok (TUdt (cs_frozen st1) ks nm fs), st1)
    | (Err e, st1) => (Err e, st1)
    end
  else if is_str n "FrozenType" then
    let prev := cs_frozen st in
    match get_n 1 elem (set_frozen st true) with
    | (Err e, st1) => (Err e, st1)                      (* early return: context stays frozen *)
    | (Ok [r], st1) => (r, set_frozen st1 prev)
    | (Ok _, st1) => (Err EOutOfFuel, st1)
    end
  else (Err ECtUnknownComplex, st).

Definition do_parse_nested (elem : cp coltype) : cp coltype := fun st =>
  let st1 := skip_blank st in
  let '(name, st2) := read_ident st1 in
  match name with
  | [] => if at_eof st2 then (Ok (TNative Blob), st2) else (Err ECtUnknownComplex, st2)
  | _ =>
    let go (name : bytes) (st3 : cst) :=
      let st4 := skip_blank st3 in
      match accept LPAR st4 with
      | Some _ => complex_type elem name st4
      | None => match simple_type name with
                | Some nt => (Ok (TNative nt), st4)
                | None => (Err ECtUnknownSimple, st4)
                end
      end in
    match accept COLON st2 with
    | Some st3 =>
      if usize_hex_ok name then let '(name2, st4) := read_ident st3 in go name2 st4
      else (Err ECtBadHex, st3)
    | None => go name st2
    end
  end.

Fixpoint do_parse (fuel : nat) : cp coltype := fun st =>
  match fuel with
  | O => (Err EOutOfFuel, st)
  | S f =>
    if MAX_CUSTOM_TYPE_NESTING_DEPTH <=? cs_depth st then (Err ECtTooDeep, st)
    else
      let d := cs_depth st + 1 in
      let st1 := mkCst (cs_s st) (cs_frozen st) d (N.max (cs_maxd st) d) in
      let '(r, st2) := do_parse_nested (do_parse f) st1 in
      (r, mkCst (cs_s st2) (cs_frozen st2) (cs_depth st2 - 1) (cs_maxd st2))
  end.

Definition CUSTOM_FUEL : nat := 130.

(* CustomTypeParser::parse *)
Definition parse_custom : custom_parser := fun s =>
  if forallb (fun c => c <? 128) s then
    let '(r, st) := do_parse CUSTOM_FUEL (mkCst s false 0 0) in (r, cs_maxd st)
  else (Err EUnmodelled, 0).

(* the complete decoder of C08 *)
Definition decode (decompress : bytes -> option bytes) (ft : features) (v2 compression : bool)
  (stream : bytes) : outcome * cost :=
  decode_frame parse_custom decompress ft v2 compression stream.

(* ---- the bounds of C08_alloc / C08_depth (used by the driver as property predicates) ----- *)
(* 2288 bytes of preallocation per input byte: every reservation is `count.min(buf.len() / per)`
   entries (commits 3ad5892, dba8b0a): 104 bytes per byte for what the elements pay on success, and
   on a failing path at most 16 bytes per remaining byte at each of the 130 possible nesting levels
   of the type grammar plus 104 for the column-spec vector; the only constant is the 1 MiB body
   buffer of read_response_frame (af4e619).  See docs/C08.md. *)
Definition ALLOC_K : N := 2288.
Definition ALLOC_C : N := 2 ^ 20.
Definition alloc_bound (len : N) : N := ALLOC_K * len + ALLOC_C.
(* 129 levels of the binary grammar + 128 of a custom-type string *)
Definition DEPTH_LIMIT : N := 257.
Definition depth_bound : N := DEPTH_LIMIT.

(* Stack use predicted from the recursion depth: a base for the non-recursive pipeline and a constant per
   level of type nesting (the type parsers and, over the parsed type, the typed values recurse once per
   level).  The two constants are MEASURED on the debug-profile harness (stack high-water mark by fill
   pattern: base <= 10.6 KB, <= 1.05 KB per level), with margin; they are an assumption of the tie, not
   derived from the code.  At the depth limit the prediction stays below the 512 KiB of the small stack. *)
Definition STACK_BASE : N := 16384.
Definition STACK_PER_LEVEL : N := 1536.
Definition stack_bound (c : cost) : N := STACK_BASE + STACK_PER_LEVEL * c_depth c.
Definition STACK_LIMIT : N := STACK_BASE + STACK_PER_LEVEL * DEPTH_LIMIT.
Definition stack_in_bound (c : cost) (measured : N) : bool := measured <=? stack_bound c.

(* the implementation-side predicates, on measurements: the largest single request is a reservation
   (within the proved bound) or a copy of part of the input; the total of ALL requests - reservations,
   copies, boxes, error values - is allowed the same amount again.  [len] is already multiplied by the
   codec's expansion factor (1 / 255 LZ4 / 32 Snappy: both enforced by frame::decompress) *)
Definition largest_in_proportion (len measured : N) : bool := measured <=? alloc_bound len.
Definition total_in_proportion (len measured : N) : bool := measured <=? 2 * alloc_bound len.
