(* Model of the prepared-statement eviction / result-metadata machinery  (property C14).

   Code modelled (scylla-rust-driver, /repo):
     scylla/src/network/connection.rs
       calculate_cached_metadata_params   (982-1052)   -> [cached_params]
       handle_result_metadata_new_id      (938-980)    -> [handle_new_id]
       reprepare                          (695-743)    -> [reprepare_update] + id check in [recv_prep]
       execute_raw_with_consistency       (1054-1156)  -> [start_exec], [call_recv], [call_tick]
       batch_with_consistency loop        (1220-1254)  -> [start_batch], [call_recv]
     scylla/src/statement/prepared.rs  current_result_metadata : ArcSwap  -> the per-statement cell
     scylla-cql/src/frame/response/result.rs
       RawMetadataAndRawRows::deserialize_metadata (902-959) -> [used_meta]
     scylla/src/response/request_response.rs  into_non_error / into_query_result -> [outcome_of]

   Messages are modelled after frame parsing (the wire codecs are C08/C09's subject): a response
   is a [resp], a request a [request].  Executable definitions only; proofs are in
   Proofs/Reprepare_proofs.v.  Three layers:
     1. the per-call state machine of the client (the code model proper);
     2. the generic interleaving system: any number of concurrent calls sharing the
        per-statement cells, the server answering ARBITRARILY (label [GL_resp c r]);
     3. the specification server (written from the CQL v4 protocol document and ScyllaDB's
        metadata-id extension document: per node {prepared, evicted, schema-changed,
        id-changing} events, answers to EXECUTE / BATCH / PREPARE) and the system in which
        the responses are those of the specification nodes.
   Layers 2 and 3 are executable: the correspondence driver runs them on the traces recorded
   by the mock cluster, so an accepted trace IS a run of the system the theorems quantify over. *)
From SV Require Import Base.Prelude Base.Bytes.
Open Scope N_scope.

(* ------------------------------------------------------------------------------------ *)
(* data                                                                                   *)
(* ------------------------------------------------------------------------------------ *)

Definition bytes_eqb (a b : bytes) : bool := if list_eq_dec N.eq_dec a b then true else false.
Definition obytes_eqb (a b : option bytes) : bool :=
  match a, b with
  | Some x, Some y => bytes_eqb x y
  | None, None => true
  | _, _ => false
  end.

(* a column specification: name (as a token) and type *)
Inductive ctype := TInt | TBigInt | TText | TBlob.
Record col := mkCol { c_name : N; c_type : ctype }.

(* ResultMetadata { id, col_count, col_specs } *)
Record meta := mkMeta { m_id : option bytes; m_count : N; m_cols : list col }.
Definition mock_empty : meta := mkMeta None 0 [].
Definition meta_of_cols (id : option bytes) (cols : list col) : meta :=
  mkMeta id (N.of_nat (List.length cols)) cols.

Definition cellv := option bytes.      (* a serialized cell; None = null *)

(* what a statement handle shares between its clones: id, text; the cell is kept separately *)
Record stmt := mkStmt { s_id : bytes; s_text : N }.

(* ---- requests ---- *)
Record exec_frame := mkExec {
  f_id : bytes; f_rmid : option bytes; f_values : bytes; f_cons : N; f_serial : option N;
  f_page_size : option N; f_paging : option bytes; f_ts : option Z; f_skip : bool }.

Inductive bfitem := BF_id (id : bytes) (values : bytes) | BF_text (text : N).
Record batch_frame := mkBatchF {
  bf_items : list bfitem; bf_type : N; bf_cons : N; bf_serial : option N; bf_ts : option Z }.

Inductive request :=
| Q_execute (f : exec_frame)
| Q_prepare (text : N)
| Q_batch (f : batch_frame).

(* ---- responses ---- *)
(* the result-metadata part of a RESULT/Rows body as sent *)
Inductive rmeta :=
| RM_none (count : N)                                (* flag NO_METADATA: only the column count *)
| RM_full (newid : option bytes) (cols : list col).  (* column specs; METADATA_CHANGED + id iff newid *)

Record rows_body := mkRows {
  rb_meta : rmeta; rb_paging : option bytes; rb_nrows : N; rb_cells : list cellv }.

Inductive resp :=
| RRows (b : rows_body)
| RVoid
| RUnprepared (id : bytes)
| RDbError (code : N)
| RPrepared (id : bytes) (m : meta)   (* m = result metadata; m_id = the result metadata id of the
                                         PREPARED header, present iff the connection negotiated the extension *)
| ROtherResult                        (* RESULT of another kind: SetKeyspace, SchemaChange *)
| ROther.                             (* any non-RESULT, non-ERROR response *)

(* ---- what the caller gets ---- *)
Inductive err :=
| E_IdChanged | E_IdMissingInBatch | E_Db (code : N) | E_Unprepared | E_Unexpected | E_Parse.
Inductive outcome :=
| O_rows (used : meta) (paging : option bytes) (nrows : N) (cells : list cellv)
| O_norows
| O_err (e : err).

(* ---- call arguments ---- *)
Record xargs := mkX {
  xa_stmt : nat; xa_use_cached : bool; xa_values : bytes; xa_cons : N; xa_serial : option N;
  xa_page_size : option N; xa_paging : option bytes; xa_ts : option Z }.
(* xa_ts is [prepared.get_timestamp().or_else(generator)] evaluated ONCE at the start of the call *)

Inductive bitem := BI_prep (s : nat) (values : bytes) | BI_query (text : N).
Record bargs := mkB {
  ba_items : list bitem; ba_type : N; ba_cons : N; ba_serial : option N; ba_ts : option Z }.

(* ------------------------------------------------------------------------------------ *)
(* 1. the client code                                                                     *)
(* ------------------------------------------------------------------------------------ *)

(* calculate_cached_metadata_params: (skip_metadata, cached_metadata, result_metadata_id) *)
Definition cp_skip (ext use_cached : bool) (m : meta) : bool :=
  if m_count m =? 0 then false else use_cached || ext.
Definition cp_cached (ext use_cached : bool) (m : meta) : option meta :=
  if cp_skip ext use_cached m then Some m else None.
Definition cp_rmid (ext use_cached : bool) (m : meta) : option bytes :=
  match cp_cached ext use_cached m, ext with
  | Some c, true => Some (match m_id c with Some i => i | None => [] end)
  | _, false => None
  | None, true => Some []
  end.

Definition mk_exec_frame (st : stmt) (ext : bool) (a : xargs) (snap : meta) : exec_frame :=
  mkExec (s_id st) (cp_rmid ext (xa_use_cached a) snap) (xa_values a) (xa_cons a) (xa_serial a)
         (xa_page_size a) (xa_paging a) (xa_ts a) (cp_skip ext (xa_use_cached a) snap).

Definition mk_batch_frame (ST : nat -> stmt) (b : bargs) : batch_frame :=
  mkBatchF (map (fun it => match it with
                           | BI_prep s v => BF_id (s_id (ST s)) v
                           | BI_query t => BF_text t end) (ba_items b))
           (ba_type b) (ba_cons b) (ba_serial b) (ba_ts b).

(* RawMetadataAndRawRows::deserialize + deserialize_metadata: which metadata the rows carry.
   The METADATA_CHANGED flag is honoured only on a connection with the extension; a server that
   sets it without the extension makes the real parser read the id bytes as a table spec — that
   is outside the property (never generated) and classed as a parse error here. *)
Definition used_meta (ext : bool) (cached : option meta) (b : rows_body) : result err meta :=
  match rb_meta b with
  | RM_none _ => match cached with Some c => Ok c | None => Ok mock_empty end
  | RM_full nid cols =>
      match nid, ext with
      | Some _, false => Err E_Parse
      | _, _ => Ok (meta_of_cols nid cols)
      end
  end.

(* handle_result_metadata_new_id: the store it performs, if any *)
Definition handle_new_id (cur used : meta) : option meta :=
  match m_id used with
  | None => None
  | Some _ =>
      let updated := negb (obytes_eqb (m_id used) (m_id cur)) in
      let same_id_but_non_empty := negb updated && (m_count cur =? 0) && negb (m_count used =? 0) in
      if updated || same_id_but_non_empty then Some used else None
  end.

(* reprepare after the id check: the store it performs, if any *)
Definition reprepare_update (cur m : meta) : option meta :=
  match m_id m with
  | None => None
  | Some _ =>
      let non_destructive := (m_count cur =? 0) || negb (m_count m =? 0) in
      if negb non_destructive then None
      else if negb (obytes_eqb (m_id cur) (m_id m)) then Some m else None
  end.

(* QueryResponse -> into_non_error_query_response -> into_query_result(_and_paging_state) *)
Definition outcome_of (ext : bool) (cached : option meta) (r : resp) : outcome :=
  match r with
  | RRows b => match used_meta ext cached b with
               | Ok u => O_rows u (rb_paging b) (rb_nrows b) (rb_cells b)
               | Err e => O_err e
               end
  | RVoid | ROtherResult | RPrepared _ _ => O_norows
  | RUnprepared _ => O_err E_Unprepared
  | RDbError c => O_err (E_Db c)
  | ROther => O_err E_Unexpected
  end.

(* the store performed on receiving the answer to an EXECUTE (parse error => none).
   [uses_cached_metadata()]: when the response carried no metadata, what the rows hold is the
   snapshot of the cached metadata the request was built with (or the empty mock) — the server
   announced nothing, nothing is stored (repo 75c6d7e; before it the snapshot could be written
   back over newer metadata, finding F20) *)
Definition exec_store (ext : bool) (cached : option meta) (cur : meta) (r : resp) : option meta :=
  match r with
  | RRows b =>
      match rb_meta b with
      | RM_none _ => None
      | RM_full _ _ =>
          match used_meta ext cached b with
          | Ok u => handle_new_id cur u
          | Err _ => None
          end
      end
  | _ => None
  end.

(* program counter of one call *)
Inductive cstate :=
| CS_idle
| CS_exec1 (a : xargs) (snap : meta)   (* first EXECUTE in flight; snap = the cell when it was built *)
| CS_prep (a : xargs)                  (* PREPARE in flight after UNPREPARED *)
| CS_resend (a : xargs)                (* reprepare returned Ok(()); next: reload the cell, resend *)
| CS_exec2 (a : xargs) (snap : meta)   (* second EXECUTE in flight *)
| CS_batch (b : bargs)                 (* BATCH in flight *)
| CS_bprep (b : bargs) (p : nat)       (* PREPARE of statement p in flight inside the batch loop *)
| CS_done (o : outcome).

Definition start_exec (ST : nat -> stmt) (ext : bool) (a : xargs) (cell : meta) : cstate * request :=
  (CS_exec1 a cell, Q_execute (mk_exec_frame (ST (xa_stmt a)) ext a cell)).

Definition start_batch (ST : nat -> stmt) (b : bargs) : cstate * request :=
  (CS_batch b, Q_batch (mk_batch_frame ST b)).

(* batch.statements.iter().find_map(prepared statement with this id) *)
Fixpoint find_prepared (ST : nat -> stmt) (items : list bitem) (id : bytes) : option nat :=
  match items with
  | [] => None
  | BI_prep s _ :: r => if bytes_eqb (s_id (ST s)) id then Some s else find_prepared ST r id
  | BI_query _ :: r => find_prepared ST r id
  end.

(* parse failure of the whole response (send_request(..)? returns early) *)
Definition resp_parse_fails (ext : bool) (cached : option meta) (r : resp) : bool :=
  match r with
  | RRows b => match used_meta ext cached b with Err _ => true | Ok _ => false end
  | _ => false
  end.

(* One response delivered to a call: (store into which cell, new pc, request sent).
   [None] = the call is not waiting for a response. *)
Definition call_recv (ST : nat -> stmt) (ext : bool) (cells : nat -> meta) (cs : cstate) (r : resp)
  : option (option (nat * meta) * cstate * option request) :=
  match cs with
  | CS_exec1 a snap =>
      let s := xa_stmt a in
      let cached := cp_cached ext (xa_use_cached a) snap in
      if resp_parse_fails ext cached r then Some (None, CS_done (O_err E_Parse), None) else
      let st := option_map (fun m => (s, m)) (exec_store ext cached (cells s) r) in
      match r with
      | RUnprepared _ => Some (st, CS_prep a, Some (Q_prepare (s_text (ST s))))
      | _ => Some (st, CS_done (outcome_of ext cached r), None)
      end
  | CS_prep a =>
      let s := xa_stmt a in
      match r with
      | RPrepared id m =>
          if negb (bytes_eqb id (s_id (ST s))) then Some (None, CS_done (O_err E_IdChanged), None)
          else Some (option_map (fun m' => (s, m')) (reprepare_update (cells s) m), CS_resend a, None)
      | RDbError c => Some (None, CS_done (O_err (E_Db c)), None)
      | RUnprepared _ => Some (None, CS_done (O_err E_Unprepared), None)
      | _ => Some (None, CS_done (O_err E_Unexpected), None)
      end
  | CS_exec2 a snap =>
      let s := xa_stmt a in
      let cached := cp_cached ext (xa_use_cached a) snap in
      if resp_parse_fails ext cached r then Some (None, CS_done (O_err E_Parse), None) else
      Some (option_map (fun m => (s, m)) (exec_store ext cached (cells s) r),
            CS_done (outcome_of ext cached r), None)
  | CS_batch b =>
      match r with
      | RUnprepared id =>
          match find_prepared ST (ba_items b) id with
          | Some p => Some (None, CS_bprep b p, Some (Q_prepare (s_text (ST p))))
          | None => Some (None, CS_done (O_err E_IdMissingInBatch), None)
          end
      | RDbError c => Some (None, CS_done (O_err (E_Db c)), None)
      | RRows bd =>
          (* no cached metadata is passed for a BATCH *)
          Some (None, CS_done (outcome_of ext None r), None)
      | RVoid | ROtherResult | RPrepared _ _ => Some (None, CS_done O_norows, None)
      | ROther => Some (None, CS_done (O_err E_Unexpected), None)
      end
  | CS_bprep b p =>
      match r with
      | RPrepared id m =>
          if negb (bytes_eqb id (s_id (ST p))) then Some (None, CS_done (O_err E_IdChanged), None)
          else Some (option_map (fun m' => (p, m')) (reprepare_update (cells p) m),
                     CS_batch b, Some (Q_batch (mk_batch_frame ST b)))
      | RDbError c => Some (None, CS_done (O_err (E_Db c)), None)
      | RUnprepared _ => Some (None, CS_done (O_err E_Unprepared), None)
      | _ => Some (None, CS_done (O_err E_Unexpected), None)
      end
  | CS_idle | CS_resend _ | CS_done _ => None
  end.

(* internal step: after reprepare, [get_current_result_metadata()] again and resend *)
Definition call_tick (ST : nat -> stmt) (ext : bool) (cells : nat -> meta) (cs : cstate)
  : option (cstate * request) :=
  match cs with
  | CS_resend a =>
      let snap := cells (xa_stmt a) in
      Some (CS_exec2 a snap, Q_execute (mk_exec_frame (ST (xa_stmt a)) ext a snap))
  | _ => None
  end.

(* ------------------------------------------------------------------------------------ *)
(* 2. the generic interleaving system (server = arbitrary responses)                      *)
(* ------------------------------------------------------------------------------------ *)

Definition upd {A} (f : nat -> A) (k : nat) (v : A) : nat -> A :=
  fun k' => if Nat.eqb k' k then v else f k'.

(* a call with its ghost log: requests sent (newest first, each EXECUTE with the snapshot it was
   built from) and responses received (newest first) *)
Record crec := mkC {
  k_ext : bool; k_x : option xargs; k_st : cstate;
  k_sent : list (request * option meta); k_rcvd : list resp }.
Definition idle_call : crec := mkC false None CS_idle [] [].

Record gstate := mkG {
  g_cells : nat -> meta;
  g_calls : nat -> crec;
  g_ann : nat -> list meta      (* ghost: every value stored into the cell of s, newest first *)
}.

Inductive glabel :=
| GL_exec (c : nat) (ext : bool) (a : xargs)
| GL_batch (c : nat) (ext : bool) (b : bargs)
| GL_resp (c : nat) (r : resp)
| GL_tick (c : nat).

Definition snap_of (cs : cstate) : option meta :=
  match cs with CS_exec1 _ m | CS_exec2 _ m => Some m | _ => None end.

Definition apply_store (st : gstate) (o : option (nat * meta)) : (nat -> meta) * (nat -> list meta) :=
  match o with
  | None => (g_cells st, g_ann st)
  | Some (s, m) => (upd (g_cells st) s m, upd (g_ann st) s (m :: g_ann st s))
  end.

Definition gstep (ST : nat -> stmt) (st : gstate) (l : glabel) : option gstate :=
  match l with
  | GL_exec c ext a =>
      match k_st (g_calls st c) with
      | CS_idle =>
          let '(cs, q) := start_exec ST ext a (g_cells st (xa_stmt a)) in
          Some (mkG (g_cells st)
                    (upd (g_calls st) c (mkC ext (Some a) cs [(q, snap_of cs)] []))
                    (g_ann st))
      | _ => None
      end
  | GL_batch c ext b =>
      match k_st (g_calls st c) with
      | CS_idle =>
          let '(cs, q) := start_batch ST b in
          Some (mkG (g_cells st) (upd (g_calls st) c (mkC ext None cs [(q, None)] [])) (g_ann st))
      | _ => None
      end
  | GL_resp c r =>
      let k := g_calls st c in
      match call_recv ST (k_ext k) (g_cells st) (k_st k) r with
      | None => None
      | Some (sto, cs, oq) =>
          let '(cells, ann) := apply_store st sto in
          let sent := match oq with Some q => (q, snap_of cs) :: k_sent k | None => k_sent k end in
          Some (mkG cells (upd (g_calls st) c (mkC (k_ext k) (k_x k) cs sent (r :: k_rcvd k))) ann)
      end
  | GL_tick c =>
      let k := g_calls st c in
      match call_tick ST (k_ext k) (g_cells st) (k_st k) with
      | None => None
      | Some (cs, q) =>
          Some (mkG (g_cells st)
                    (upd (g_calls st) c (mkC (k_ext k) (k_x k) cs ((q, snap_of cs) :: k_sent k) (k_rcvd k)))
                    (g_ann st))
      end
  end.

Fixpoint grun (ST : nat -> stmt) (st : gstate) (ls : list glabel) : option gstate :=
  match ls with
  | [] => Some st
  | l :: r => match gstep ST st l with Some st' => grun ST st' r | None => None end
  end.

Definition ginit (init : nat -> meta) : gstate := mkG init (fun _ => idle_call) (fun _ => []).

(* ------------------------------------------------------------------------------------ *)
(* 3. the specification server and the system built on it                                 *)
(* ------------------------------------------------------------------------------------ *)

(* What the database defines for a statement (index s) under schema version v: its result
   columns and the result metadata id (a digest of those columns).  [sid s k] is the statement
   id the server computes for the text of s; k = 0 is the id the client holds, another k models
   a server that (re)prepares the text under a different id ("id-changing"). *)
Record schema := mkSchema {
  cols_of : nat -> N -> list col;
  mid_of : nat -> N -> bytes;
  sid : nat -> N -> bytes;
  late : nat -> bool      (* PREPARED announces the id but no columns (e.g. LIST ROLES OF) *)
}.

Record node := mkNode {
  n_ext : bool;              (* the node offers SCYLLA_USE_METADATA_ID *)
  n_prep : nat -> bool;      (* statement s is in the prepared-statement cache *)
  n_ver : nat -> N;          (* schema version relevant to statement s *)
  n_salt : nat -> N          (* 0: the text of s hashes to the id the client holds *)
}.

Inductive nevent :=
| EV_prepared (s : nat)            (* another client prepared s here *)
| EV_evicted (s : nat)
| EV_schema (s : nat) (v : N)      (* the result columns / metadata id of s changed *)
| EV_idchange (s : nat) (k : N).   (* from now on the text of s is prepared under sid s k *)

Definition node_event (n : node) (e : nevent) : node :=
  match e with
  | EV_prepared s => mkNode (n_ext n) (upd (n_prep n) s (N.eqb (n_salt n s) 0)) (n_ver n) (n_salt n)
  | EV_evicted s => mkNode (n_ext n) (upd (n_prep n) s false) (n_ver n) (n_salt n)
  | EV_schema s v => mkNode (n_ext n) (n_prep n) (upd (n_ver n) s v) (n_salt n)
  | EV_idchange s k => mkNode (n_ext n) (upd (n_prep n) s false) (n_ver n) (upd (n_salt n) s k)
  end.

(* which statement a client-held id denotes, among the first [ns] statements *)
Fixpoint stmt_of_id (ST : nat -> stmt) (ns : nat) (id : bytes) : option nat :=
  match ns with
  | O => None
  | Datatypes.S k => if bytes_eqb (s_id (ST k)) id then Some k else stmt_of_id ST k id
  end.
Fixpoint stmt_of_text (ST : nat -> stmt) (ns : nat) (t : N) : option nat :=
  match ns with
  | O => None
  | Datatypes.S k => if N.eqb (s_text (ST k)) t then Some k else stmt_of_text ST k t
  end.

(* rows the node chooses to return: arbitrary (label argument) *)
Record payload := mkPayload { p_paging : option bytes; p_nrows : N; p_cells : list cellv }.

(* first prepared-statement id of a BATCH that the node does not have in its cache *)
Fixpoint batch_unprepared (ST : nat -> stmt) (ns : nat) (n : node) (items : list bfitem) : option bytes :=
  match items with
  | [] => None
  | BF_id id _ :: r =>
      match stmt_of_id ST ns id with
      | Some s => if n_prep n s then batch_unprepared ST ns n r else Some id
      | None => Some id
      end
  | BF_text _ :: r => batch_unprepared ST ns n r
  end.

(* The answer of a specification node; second component = the columns the rows were encoded
   with (ghost; [] when the answer has no rows). *)
Definition node_answer (D : schema) (ST : nat -> stmt) (ns : nat) (n : node) (q : request) (p : payload)
  : node * resp * list col :=
  match q with
  | Q_prepare t =>
      match stmt_of_text ST ns t with
      | None => (n, RDbError 8192, [])                              (* 0x2000 syntax error *)
      | Some s =>
          let v := n_ver n s in
          let cols := if late D s then [] else cols_of D s v in
          let m := meta_of_cols (if n_ext n then Some (mid_of D s v) else None) cols in
          (mkNode (n_ext n) (upd (n_prep n) s (N.eqb (n_salt n s) 0)) (n_ver n) (n_salt n),
           RPrepared (sid D s (n_salt n s)) m, [])
      end
  | Q_execute f =>
      match stmt_of_id ST ns (f_id f) with
      | None => (n, RUnprepared (f_id f), [])
      | Some s =>
          if negb (n_prep n s) then (n, RUnprepared (f_id f), []) else
          let v := n_ver n s in
          let cols := cols_of D s v in
          match cols with
          | [] => (n, RVoid, [])
          | _ =>
            let body rm := RRows (mkRows rm (p_paging p) (p_nrows p) (p_cells p)) in
            if n_ext n then
              match f_rmid f with
              | Some i =>
                  if bytes_eqb i (mid_of D s v)
                  then (n, body (if f_skip f then RM_none (N.of_nat (List.length cols)) else RM_full None cols), cols)
                  else (n, body (RM_full (Some (mid_of D s v)) cols), cols)
              | None => (n, RDbError 10, [])                         (* protocol error: id is mandatory *)
              end
            else
              (n, body (if f_skip f then RM_none (N.of_nat (List.length cols)) else RM_full None cols), cols)
          end
      end
  | Q_batch bf =>
      match batch_unprepared ST ns n (bf_items bf) with
      | Some id => (n, RUnprepared id, [])
      | None => (n, RVoid, [])
      end
  end.

(* the specification system: the generic system + nodes + messages in flight *)
Record sstate := mkS {
  s_g : gstate;
  s_nodes : nat -> node;
  s_route : nat -> nat;                               (* call -> node it talks to *)
  s_out : nat -> option request;                      (* request of call c not yet served *)
  s_inbox : nat -> option (resp * list col * payload);(* answer not yet received + ghost *)
  s_enc : nat -> option (list col * payload)          (* ghost of the last answer received by c *)
}.

Inductive slabel :=
| SL_exec (c : nat) (nd : nat) (a : xargs)
| SL_batch (c : nat) (nd : nat) (b : bargs)
| SL_serve (c : nat) (p : payload)
| SL_recv (c : nat)
| SL_tick (c : nat)
| SL_event (nd : nat) (e : nevent).

Definition last_sent (st : gstate) (c : nat) : option request :=
  match k_sent (g_calls st c) with (q, _) :: _ => Some q | [] => None end.

(* did the generic step make call c send a request?  (the log grew) *)
Definition new_request (before after : gstate) (c : nat) : option request :=
  if Nat.eqb (List.length (k_sent (g_calls after c))) (List.length (k_sent (g_calls before c)))
  then None else last_sent after c.

Definition sstep (D : schema) (ST : nat -> stmt) (ns : nat) (st : sstate) (l : slabel) : option sstate :=
  match l with
  | SL_exec c nd a =>
      match gstep ST (s_g st) (GL_exec c (n_ext (s_nodes st nd)) a) with
      | Some g' => Some (mkS g' (s_nodes st) (upd (s_route st) c nd)
                             (upd (s_out st) c (last_sent g' c)) (upd (s_inbox st) c None) (upd (s_enc st) c None))
      | None => None
      end
  | SL_batch c nd b =>
      match gstep ST (s_g st) (GL_batch c (n_ext (s_nodes st nd)) b) with
      | Some g' => Some (mkS g' (s_nodes st) (upd (s_route st) c nd)
                             (upd (s_out st) c (last_sent g' c)) (upd (s_inbox st) c None) (upd (s_enc st) c None))
      | None => None
      end
  | SL_serve c p =>
      match s_out st c with
      | None => None
      | Some q =>
          let nd := s_route st c in
          let '(n', r, enc) := node_answer D ST ns (s_nodes st nd) q p in
          Some (mkS (s_g st) (upd (s_nodes st) nd n') (s_route st)
                    (upd (s_out st) c None) (upd (s_inbox st) c (Some (r, enc, p))) (s_enc st))
      end
  | SL_recv c =>
      match s_inbox st c with
      | None => None
      | Some (r, enc, p) =>
          match gstep ST (s_g st) (GL_resp c r) with
          | Some g' => Some (mkS g' (s_nodes st) (s_route st)
                                 (upd (s_out st) c (new_request (s_g st) g' c))
                                 (upd (s_inbox st) c None) (upd (s_enc st) c (Some (enc, p))))
          | None => None
          end
      end
  | SL_tick c =>
      match gstep ST (s_g st) (GL_tick c) with
      | Some g' => Some (mkS g' (s_nodes st) (s_route st) (upd (s_out st) c (last_sent g' c))
                             (s_inbox st) (s_enc st))
      | None => None
      end
  | SL_event nd e =>
      Some (mkS (s_g st) (upd (s_nodes st) nd (node_event (s_nodes st nd) e)) (s_route st)
                (s_out st) (s_inbox st) (s_enc st))
  end.

Fixpoint srun (D : schema) (ST : nat -> stmt) (ns : nat) (st : sstate) (ls : list slabel) : option sstate :=
  match ls with
  | [] => Some st
  | l :: r => match sstep D ST ns st l with Some st' => srun D ST ns st' r | None => None end
  end.

Definition sinit (init : nat -> meta) (nodes : nat -> node) : sstate :=
  mkS (ginit init) nodes (fun _ => O) (fun _ => None) (fun _ => None) (fun _ => None).

(* ------------------------------------------------------------------------------------ *)
(* decoding rows with a metadata (what the caller's typed deserialisation does, reduced to *)
(* the four types the tie uses): rows_count chunks of |cols| cells, each cell checked      *)
(* against its column type                                                                *)
(* ------------------------------------------------------------------------------------ *)

Definition cell_fits (t : ctype) (c : cellv) : bool :=
  match c with
  | None => true
  | Some b =>
      match t with
      (* a zero-length value of a fixed-width type is CQL's "empty" value: CqlValue::Empty *)
      | TInt => Nat.eqb (List.length b) 4 || Nat.eqb (List.length b) 0
      | TBigInt => Nat.eqb (List.length b) 8 || Nat.eqb (List.length b) 0
      | TText => forallb (fun x => x <? 128) b      (* the tie only produces ASCII text *)
      | TBlob => true
      end
  end.

Fixpoint decode_row (cols : list col) (cells : list cellv) : option (list (col * cellv) * list cellv) :=
  match cols with
  | [] => Some ([], cells)
  | c :: cr =>
      match cells with
      | [] => None
      | x :: xr =>
          if cell_fits (c_type c) x then
            match decode_row cr xr with
            | Some (row, rest) => Some ((c, x) :: row, rest)
            | None => None
            end
          else None
      end
  end.

Fixpoint decode_rows (cols : list col) (nrows : nat) (cells : list cellv) : option (list (list (col * cellv))) :=
  match nrows with
  | O => Some []
  | Datatypes.S k =>
      match decode_row cols cells with
      | Some (row, rest) =>
          match decode_rows cols k rest with
          | Some rows => Some (row :: rows)
          | None => None
          end
      | None => None
      end
  end.

(* untyped view: rows_count chunks of |cols| raw cells (what ColumnIterator yields) *)
Fixpoint take_cells (n : nat) (cells : list cellv) : option (list cellv * list cellv) :=
  match n with
  | O => Some ([], cells)
  | Datatypes.S k =>
      match cells with
      | [] => None
      | x :: r => match take_cells k r with Some (a, b) => Some (x :: a, b) | None => None end
      end
  end.
Fixpoint chunk_rows (ncols nrows : nat) (cells : list cellv) : option (list (list cellv)) :=
  match nrows with
  | O => Some []
  | Datatypes.S k =>
      match take_cells ncols cells with
      | Some (row, rest) =>
          match chunk_rows ncols k rest with Some rows => Some (row :: rows) | None => None end
      | None => None
      end
  end.

(* what the caller of the public API can observe of an outcome: the column specifications of the
   result, the paging state, the rows as raw cells, whether typed decoding (Row) succeeds *)
Inductive obs_out :=
| OB_rows (cols : list col) (paging : option bytes) (rows : option (list (list cellv))) (typed_ok : bool)
| OB_norows
| OB_err (e : err).

Definition obs_of_outcome (o : outcome) : obs_out :=
  match o with
  | O_rows u pg nr cl =>
      OB_rows (m_cols u) pg (chunk_rows (List.length (m_cols u)) (N.to_nat nr) cl)
              (match decode_rows (m_cols u) (N.to_nat nr) cl with Some _ => true | None => false end)
  | O_norows => OB_norows
  | O_err e => OB_err e
  end.

(* ------------------------------------------------------------------------------------ *)
(* acceptors for recorded traces (sequential callers): they BUILD a run of the systems    *)
(* above, label by label, from what the mock cluster recorded, and compare every request  *)
(* the model sends and every outcome with the observed ones                               *)
(* ------------------------------------------------------------------------------------ *)

(* one observed exchange at the mock: request received, response sent, columns the rows of the
   response were encoded with (ghost), payload put into the response *)
Record xchg := mkXchg { x_req : request; x_resp : resp; x_enc : list col; x_pay : payload }.

Inductive top :=
| TO_exec (nd : nat) (ext : bool) (a : xargs) (xs : list xchg) (out : obs_out)
| TO_batch (nd : nat) (ext : bool) (b : bargs) (xs : list xchg) (out : obs_out)
| TO_event (nd : nat) (e : nevent).

Inductive verdict (A : Type) :=
| V_ok (st : A)
| V_req (pos : nat) (model : option request)   (* request #pos differs / missing / superfluous *)
| V_out (model : cstate)                       (* outcome differs *)
| V_srv (pos : nat) (spec : resp)              (* (spec system only) the mock's answer is not the specification node's *)
| V_stuck.                                     (* the label is not enabled: malformed trace *)
Arguments V_ok {A} _. Arguments V_req {A} _ _. Arguments V_out {A} _. Arguments V_srv {A} _ _.
Arguments V_stuck {A}.

Scheme Equality for ctype.
Definition col_eqb (a b : col) : bool := N.eqb (c_name a) (c_name b) && ctype_beq (c_type a) (c_type b).
Fixpoint list_eqb {A} (eqb : A -> A -> bool) (a b : list A) : bool :=
  match a, b with
  | [], [] => true
  | x :: ar, y :: br => eqb x y && list_eqb eqb ar br
  | _, _ => false
  end.
Definition opt_eqb {A} (eqb : A -> A -> bool) (a b : option A) : bool :=
  match a, b with Some x, Some y => eqb x y | None, None => true | _, _ => false end.
Definition meta_eqb (a b : meta) : bool :=
  obytes_eqb (m_id a) (m_id b) && N.eqb (m_count a) (m_count b) && list_eqb col_eqb (m_cols a) (m_cols b).
Definition cellv_eqb : cellv -> cellv -> bool := opt_eqb bytes_eqb.
Definition exec_frame_eqb (a b : exec_frame) : bool :=
  bytes_eqb (f_id a) (f_id b) && obytes_eqb (f_rmid a) (f_rmid b) && bytes_eqb (f_values a) (f_values b) &&
  N.eqb (f_cons a) (f_cons b) && opt_eqb N.eqb (f_serial a) (f_serial b) &&
  opt_eqb N.eqb (f_page_size a) (f_page_size b) && obytes_eqb (f_paging a) (f_paging b) &&
  opt_eqb Z.eqb (f_ts a) (f_ts b) && Bool.eqb (f_skip a) (f_skip b).
Definition bfitem_eqb (a b : bfitem) : bool :=
  match a, b with
  | BF_id i v, BF_id j w => bytes_eqb i j && bytes_eqb v w
  | BF_text t, BF_text u => N.eqb t u
  | _, _ => false
  end.
Definition batch_frame_eqb (a b : batch_frame) : bool :=
  list_eqb bfitem_eqb (bf_items a) (bf_items b) && N.eqb (bf_type a) (bf_type b) &&
  N.eqb (bf_cons a) (bf_cons b) && opt_eqb N.eqb (bf_serial a) (bf_serial b) && opt_eqb Z.eqb (bf_ts a) (bf_ts b).
Definition request_eqb (a b : request) : bool :=
  match a, b with
  | Q_execute f, Q_execute g => exec_frame_eqb f g
  | Q_prepare t, Q_prepare u => N.eqb t u
  | Q_batch f, Q_batch g => batch_frame_eqb f g
  | _, _ => false
  end.
Definition err_eqb (a b : err) : bool :=
  match a, b with
  | E_IdChanged, E_IdChanged | E_IdMissingInBatch, E_IdMissingInBatch | E_Unprepared, E_Unprepared
  | E_Unexpected, E_Unexpected | E_Parse, E_Parse => true
  | E_Db c, E_Db d => N.eqb c d
  | _, _ => false
  end.
Definition outcome_eqb (a b : outcome) : bool :=
  match a, b with
  | O_rows u p n c, O_rows u' p' n' c' =>
      meta_eqb u u' && obytes_eqb p p' && N.eqb n n' && list_eqb cellv_eqb c c'
  | O_norows, O_norows => true
  | O_err e, O_err e' => err_eqb e e'
  | _, _ => false
  end.
Definition obs_out_eqb (a b : obs_out) : bool :=
  match a, b with
  | OB_rows c p r t, OB_rows c' p' r' t' =>
      list_eqb col_eqb c c' && obytes_eqb p p' &&
      opt_eqb (list_eqb (list_eqb cellv_eqb)) r r' && Bool.eqb t t'
  | OB_norows, OB_norows => true
  | OB_err e, OB_err e' => err_eqb e e'
  | _, _ => false
  end.
Definition rmeta_eqb (a b : rmeta) : bool :=
  match a, b with
  | RM_none n, RM_none m => N.eqb n m
  | RM_full i c, RM_full j d => obytes_eqb i j && list_eqb col_eqb c d
  | _, _ => false
  end.
Definition resp_eqb (a b : resp) : bool :=
  match a, b with
  | RRows x, RRows y => rmeta_eqb (rb_meta x) (rb_meta y) && obytes_eqb (rb_paging x) (rb_paging y) &&
                        N.eqb (rb_nrows x) (rb_nrows y) && list_eqb cellv_eqb (rb_cells x) (rb_cells y)
  | RVoid, RVoid | ROtherResult, ROtherResult | ROther, ROther => true
  | RUnprepared i, RUnprepared j => bytes_eqb i j
  | RDbError c, RDbError d => N.eqb c d
  | RPrepared i m, RPrepared j n => bytes_eqb i j && meta_eqb m n
  | _, _ => false
  end.

(* -- generic system: feed the observed responses to call c -- *)
Definition g_tick_if_needed (ST : nat -> stmt) (st : gstate) (c : nat) : gstate :=
  match k_st (g_calls st c) with
  | CS_resend _ => match gstep ST st (GL_tick c) with Some st' => st' | None => st end
  | _ => st
  end.

Definition waiting (cs : cstate) : bool :=
  match cs with CS_exec1 _ _ | CS_prep _ | CS_exec2 _ _ | CS_batch _ | CS_bprep _ _ => true | _ => false end.

Fixpoint g_feed (ST : nat -> stmt) (st : gstate) (c : nat) (pos : nat) (xs : list xchg) (out : obs_out)
  : verdict gstate :=
  match xs with
  | [] =>
      match k_st (g_calls st c) with
      | CS_done o => if obs_out_eqb (obs_of_outcome o) out then V_ok st else V_out (CS_done o)
      | cs => if waiting cs then V_req pos (last_sent st c) else V_out cs
      end
  | x :: r =>
      if negb (waiting (k_st (g_calls st c))) then V_req pos None else
      match last_sent st c with
      | Some q =>
          if request_eqb q (x_req x) then
            match gstep ST st (GL_resp c (x_resp x)) with
            | Some st' => g_feed ST (g_tick_if_needed ST st' c) c (Datatypes.S pos) r out
            | None => V_stuck
            end
          else V_req pos (Some q)
      | None => V_req pos None
      end
  end.

Definition g_accept_op (ST : nat -> stmt) (st : gstate) (c : nat) (o : top) : verdict gstate :=
  match o with
  | TO_exec _ ext a xs out =>
      match gstep ST st (GL_exec c ext a) with
      | Some st' => g_feed ST st' c O xs out
      | None => V_stuck
      end
  | TO_batch _ ext b xs out =>
      match gstep ST st (GL_batch c ext b) with
      | Some st' => g_feed ST st' c O xs out
      | None => V_stuck
      end
  | TO_event _ _ => V_ok st
  end.

(* ops are numbered from c upwards; returns the index of the first rejected op *)
Fixpoint g_accept (ST : nat -> stmt) (st : gstate) (c : nat) (tr : list top) : nat * verdict gstate :=
  match tr with
  | [] => (c, V_ok st)
  | o :: r =>
      match g_accept_op ST st c o with
      | V_ok st' => g_accept ST st' (Datatypes.S c) r
      | v => (c, v)
      end
  end.

(* -- specification system: additionally replays the nodes and checks the mock against them -- *)
Definition s_tick_if_needed (D : schema) (ST : nat -> stmt) (ns : nat) (st : sstate) (c : nat) : sstate :=
  match k_st (g_calls (s_g st) c) with
  | CS_resend _ => match sstep D ST ns st (SL_tick c) with Some st' => st' | None => st end
  | _ => st
  end.

Fixpoint s_feed (D : schema) (ST : nat -> stmt) (ns : nat) (st : sstate) (c : nat) (pos : nat)
  (xs : list xchg) (out : obs_out) : verdict sstate :=
  match xs with
  | [] =>
      match k_st (g_calls (s_g st) c) with
      | CS_done o => if obs_out_eqb (obs_of_outcome o) out then V_ok st else V_out (CS_done o)
      | cs => if waiting cs then V_req pos (s_out st c) else V_out cs
      end
  | x :: r =>
      match s_out st c with
      | Some q =>
          if request_eqb q (x_req x) then
            match sstep D ST ns st (SL_serve c (x_pay x)) with
            | Some st1 =>
                match s_inbox st1 c with
                | Some (rs, enc, _) =>
                    if resp_eqb rs (x_resp x) && list_eqb col_eqb enc (x_enc x) then
                      match sstep D ST ns st1 (SL_recv c) with
                      | Some st2 => s_feed D ST ns (s_tick_if_needed D ST ns st2 c) c (Datatypes.S pos) r out
                      | None => V_stuck
                      end
                    else V_srv pos rs
                | None => V_stuck
                end
            | None => V_stuck
            end
          else V_req pos (Some q)
      | None => V_req pos None
      end
  end.

Definition s_accept_op (D : schema) (ST : nat -> stmt) (ns : nat) (st : sstate) (c : nat) (o : top)
  : verdict sstate :=
  match o with
  | TO_exec nd ext a xs out =>
      if negb (Bool.eqb ext (n_ext (s_nodes st nd))) then V_stuck else
      match sstep D ST ns st (SL_exec c nd a) with
      | Some st' => s_feed D ST ns st' c O xs out
      | None => V_stuck
      end
  | TO_batch nd ext b xs out =>
      if negb (Bool.eqb ext (n_ext (s_nodes st nd))) then V_stuck else
      match sstep D ST ns st (SL_batch c nd b) with
      | Some st' => s_feed D ST ns st' c O xs out
      | None => V_stuck
      end
  | TO_event nd e =>
      match sstep D ST ns st (SL_event nd e) with Some st' => V_ok st' | None => V_stuck end
  end.

Fixpoint s_accept (D : schema) (ST : nat -> stmt) (ns : nat) (st : sstate) (c : nat) (tr : list top)
  : nat * verdict sstate :=
  match tr with
  | [] => (c, V_ok st)
  | o :: r =>
      match s_accept_op D ST ns st c o with
      | V_ok st' => s_accept D ST ns st' (Datatypes.S c) r
      | v => (c, v)
      end
  end.

(* ------------------------------------------------------------------------------------ *)
(* The property as a predicate on ONE observed operation, written from the property text  *)
(* only (no cell, no cached-parameter logic): used by the driver when the acceptor rejects *)
(* ------------------------------------------------------------------------------------ *)

Definition same_core (f g : exec_frame) : bool :=
  bytes_eqb (f_id f) (f_id g) && bytes_eqb (f_values f) (f_values g) && N.eqb (f_cons f) (f_cons g) &&
  opt_eqb N.eqb (f_serial f) (f_serial g) && opt_eqb N.eqb (f_page_size f) (f_page_size g) &&
  obytes_eqb (f_paging f) (f_paging g) && opt_eqb Z.eqb (f_ts f) (f_ts g).

Definition is_err (o : obs_out) : bool := match o with OB_err _ => true | _ => false end.

(* the caller's view of a final answer, as far as the property speaks about it: rows / no rows /
   error, and for rows: decoded with the columns sent in that response if any, and (when
   [check_cols]: connection with the extension, or cached metadata not used) with the columns
   the node encoded the rows with; then the rows are the node's cells cut into rows of that width *)
Definition normal_result (check_cols : bool) (x : xchg) (out : obs_out) : bool :=
  match x_resp x, out with
  | RRows b, OB_rows cols pg rows _ =>
      obytes_eqb pg (rb_paging b) &&
      (negb check_cols ||
       (list_eqb col_eqb cols (x_enc x) &&
        opt_eqb (list_eqb (list_eqb cellv_eqb)) rows
                (chunk_rows (List.length (x_enc x)) (N.to_nat (rb_nrows b)) (rb_cells b)))) &&
      match rb_meta b with
      | RM_full _ sent => list_eqb col_eqb cols sent &&
                          opt_eqb (list_eqb (list_eqb cellv_eqb)) rows
                                  (chunk_rows (List.length sent) (N.to_nat (rb_nrows b)) (rb_cells b))
      | RM_none _ => true
      end
  | RRows _, _ => false
  | (RVoid | ROtherResult | RPrepared _ _), OB_norows => true
  | (RUnprepared _ | RDbError _ | ROther), OB_err _ => true
  | _, _ => false
  end.

Definition prop_exec_ok (ST : nat -> stmt) (faithful_expected : bool) (a : xargs) (xs : list xchg)
  (out : obs_out) : bool :=
  let st := ST (xa_stmt a) in
  match xs with
  | [x1] =>
      match x_req x1, x_resp x1 with
      | Q_execute f1, RUnprepared _ => false                   (* must re-prepare *)
      | Q_execute f1, _ => bytes_eqb (f_id f1) (s_id st) && normal_result faithful_expected x1 out
      | _, _ => false
      end
  | [x1; x2] =>
      match x_req x1, x_resp x1, x_req x2, x_resp x2 with
      | Q_execute f1, RUnprepared _, Q_prepare t, RPrepared id _ =>
          (* only acceptable when the id changed: "the caller gets an error rather than a mis-bound
             execution" — any error (WHICH error is the acceptor's business), and nothing was resent *)
          N.eqb t (s_text st) && negb (bytes_eqb id (s_id st)) && is_err out
      | Q_execute f1, RUnprepared _, Q_prepare t, _ => N.eqb t (s_text st) && is_err out
      | _, _, _, _ => false
      end
  | [x1; x2; x3] =>
      match x_req x1, x_resp x1, x_req x2, x_resp x2, x_req x3 with
      | Q_execute f1, RUnprepared _, Q_prepare t, RPrepared id _, Q_execute f2 =>
          N.eqb t (s_text st) && bytes_eqb id (s_id st) && bytes_eqb (f_id f1) (s_id st) &&
          same_core f1 f2 && normal_result faithful_expected x3 out
      | _, _, _, _, _ => false
      end
  | _ => false
  end.

(* batch: every BATCH frame identical; after UNPREPARED(id) a PREPARE of a statement of the batch
   with that id; a PREPARED with another id ends the call with the error and nothing is resent *)
Fixpoint prop_batch_tail (ST : nat -> stmt) (b : bargs) (F : batch_frame) (xs : list xchg) (out : obs_out) : bool :=
  match xs with
  | [] => false
  | x :: r =>
      match x_req x, x_resp x with
      | Q_batch G, RUnprepared id =>
          batch_frame_eqb F G &&
          match find_prepared ST (ba_items b) id, r with
          | None, [] => match out with OB_err E_IdMissingInBatch => true | _ => false end
          | Some p, y :: r' =>
              match x_req y, x_resp y with
              | Q_prepare t, RPrepared id' _ =>
                  N.eqb t (s_text (ST p)) &&
                  if bytes_eqb id' (s_id (ST p)) then prop_batch_tail ST b F r' out
                  else match r' with [] => is_err out | _ => false end
              | Q_prepare t, _ => N.eqb t (s_text (ST p)) && match r' with [] => is_err out | _ => false end
              | _, _ => false
              end
          | _, _ => false
          end
      | Q_batch G, _ =>
          batch_frame_eqb F G && match r with [] => normal_result false x out | _ => false end
      | _, _ => false
      end
  end.

(* ------------------------------------------------------------------------------------ *)
(* Known finding F17, class stale-cached-metadata-without-ext                              *)
(* ------------------------------------------------------------------------------------ *)

(* the quadrant in which C14_faithful ("decoded with the node's columns") cannot hold in general:
   without the extension the server has no way to tell the client that its cached metadata is old *)
Definition quadrantb (ext uc : bool) : bool := negb ext && uc.
Definition Quadrant (ext uc : bool) : Prop := ext = false /\ uc = true.

(* The class of the finding, on a state of the system and a call c that decoded rows with [cols]:
   c is in the quadrant and some call received a PREPARED for c's statement (same id: a
   re-preparation) that announced columns, and other ones than those c decoded with. *)
Definition KnownClass (ST : nat -> stmt) (st : gstate) (c : nat) (cols : list col) : Prop :=
  exists a, k_x (g_calls st c) = Some a /\ k_ext (g_calls st c) = false /\ xa_use_cached a = true /\
    exists c' id pm, In (RPrepared id pm) (k_rcvd (g_calls st c')) /\ id = s_id (ST (xa_stmt a)) /\
                     m_cols pm <> [] /\ m_cols pm <> cols.

Definition is_nil {A} (l : list A) : bool := match l with [] => true | _ => false end.

(* the same, computed over the calls 0 .. n-1 *)
Definition reprep_differs (sid : bytes) (cols : list col) (r : resp) : bool :=
  match r with
  | RPrepared id pm => bytes_eqb id sid && negb (is_nil (m_cols pm)) && negb (list_eqb col_eqb (m_cols pm) cols)
  | _ => false
  end.
Fixpoint any_call (n : nat) (f : nat -> bool) : bool :=
  match n with O => false | Datatypes.S k => f k || any_call k f end.
Definition known_classb (ST : nat -> stmt) (st : gstate) (n : nat) (c : nat) (cols : list col) : bool :=
  match k_x (g_calls st c) with
  | Some a =>
      quadrantb (k_ext (g_calls st c)) (xa_use_cached a) &&
      any_call n (fun c' => existsb (reprep_differs (s_id (ST (xa_stmt a))) cols) (k_rcvd (g_calls st c')))
  | None => false
  end.

(* The property's own bookkeeping along a recorded (sequential) history: per statement the metadata
   the server most recently ANNOUNCED with columns — at (re-)preparation (a PREPARED for the
   statement's text with the statement's id) or together with a new metadata id (Rows with
   METADATA_CHANGED) —, and whether that announcement was a re-preparation. *)
Record ann_state := mkAnn {
  an_latest : nat -> list col; an_id : nat -> option bytes; an_reprep : nat -> bool }.

Definition ann_xchg (ST : nat -> stmt) (ns : nat) (an : ann_state) (x : xchg) : ann_state :=
  match x_req x, x_resp x with
  | Q_prepare t, RPrepared id m =>
      match stmt_of_text ST ns t with
      | Some s =>
          if bytes_eqb id (s_id (ST s)) && negb (is_nil (m_cols m))
          then mkAnn (upd (an_latest an) s (m_cols m)) (upd (an_id an) s (m_id m)) (upd (an_reprep an) s true)
          else an
      | None => an
      end
  | Q_execute f, RRows b =>
      match rb_meta b, stmt_of_id ST ns (f_id f) with
      | RM_full (Some i) cols, Some s =>
          mkAnn (upd (an_latest an) s cols) (upd (an_id an) s (Some i)) (upd (an_reprep an) s false)
      | _, _ => an
      end
  | _, _ => an
  end.

(* One executed statement of the history: did the caller decode rows that came WITHOUT metadata
   (as requested) with other columns than the most recently announced ones?  [Some in_class]:
   yes; in_class = the call is in the quadrant and the latest announcement was a re-preparation. *)
Definition stale_op (ST : nat -> stmt) (ns : nat) (an : ann_state) (ext : bool) (a : xargs)
  (xs : list xchg) (out : obs_out) : option bool :=
  match last (map Some xs) None, out with
  | Some x, OB_rows cols _ _ _ =>
      match x_req x, x_resp x with
      | Q_execute f, RRows b =>
          match rb_meta b with
          | RM_none _ =>
              if f_skip f && negb (list_eqb col_eqb cols (an_latest an (xa_stmt a)))
              then Some (quadrantb ext (xa_use_cached a) && an_reprep an (xa_stmt a))
              else None
          | RM_full _ _ => None
          end
      | _, _ => None
      end
  | _, _ => None
  end.

(* "… which is also what the next execution presents": what an EXECUTE has to present given the
   bookkeeping — with the extension the id of the most recently announced metadata (the empty id
   while nothing with columns was announced) and skip_metadata iff there are columns to decode
   with; without it no id, and skip_metadata iff cached metadata is asked for and there are columns *)
Definition present_ok (an : ann_state) (ext : bool) (a : xargs) (f : exec_frame) : bool :=
  let s := xa_stmt a in
  let has := negb (is_nil (an_latest an s)) in
  if ext then
    obytes_eqb (f_rmid f) (Some (if has then match an_id an s with Some i => i | None => [] end else [])) &&
    Bool.eqb (f_skip f) has
  else
    obytes_eqb (f_rmid f) None && Bool.eqb (f_skip f) (xa_use_cached a && has).

(* every EXECUTE of one op, checked against the bookkeeping as it is when the frame is sent *)
Fixpoint present_op (ST : nat -> stmt) (ns : nat) (an : ann_state) (ext : bool) (a : xargs) (xs : list xchg) : bool :=
  match xs with
  | [] => true
  | x :: r =>
      match x_req x with
      | Q_execute f => present_ok an ext a f
      | _ => true
      end && present_op ST ns (ann_xchg ST ns an x) ext a r
  end.

(* all offending operations of a history: (index, Some in_class) = decoded with other columns than
   announced; (index, None) = an EXECUTE presented another metadata id / skip flag than announced.
   The second check only makes sense against well-behaved single-version announcements, i.e. it is
   run when [check_present] (no extension: the cell never changes; extension: sequential history
   whose nodes answer as specified). *)
Fixpoint stale_check (ST : nat -> stmt) (ns : nat) (check_present : bool) (an : ann_state) (i : nat) (tr : list top)
  : list (nat * option bool) :=
  match tr with
  | [] => []
  | TO_exec _ ext a xs out :: r =>
      let an' := fold_left (ann_xchg ST ns) xs an in
      let rest := stale_check ST ns check_present an' (Datatypes.S i) r in
      let rest := match stale_op ST ns an' ext a xs out with
                  | Some cl => (i, Some cl) :: rest
                  | None => rest
                  end in
      if check_present && negb (present_op ST ns an ext a xs) then (i, None) :: rest else rest
  | TO_batch _ _ _ xs _ :: r =>
      stale_check ST ns check_present (fold_left (ann_xchg ST ns) xs an) (Datatypes.S i) r
  | TO_event _ _ :: r => stale_check ST ns check_present an (Datatypes.S i) r
  end.

(* ------------------------------------------------------------------------------------ *)
(* concurrent callers in the tie: search for an interleaving of the client-side steps of   *)
(* several calls (each with its recorded exchanges) that the generic system can perform    *)
(* ------------------------------------------------------------------------------------ *)
Record pcall := mkP {
  pc_id : nat; pc_ext : bool; pc_args : xargs; pc_started : bool; pc_xs : list xchg; pc_out : obs_out }.

(* one client-side step of a pending call: [Some (st', None)] = it is finished and matches *)
Definition pstep (ST : nat -> stmt) (st : gstate) (p : pcall) : option (gstate * option pcall) :=
  if negb (pc_started p) then
    match gstep ST st (GL_exec (pc_id p) (pc_ext p) (pc_args p)) with
    | Some st' => Some (st', Some (mkP (pc_id p) (pc_ext p) (pc_args p) true (pc_xs p) (pc_out p)))
    | None => None
    end
  else
    match pc_xs p with
    | [] =>
        match k_st (g_calls st (pc_id p)) with
        | CS_done o => if obs_out_eqb (obs_of_outcome o) (pc_out p) then Some (st, None) else None
        | _ => None
        end
    | x :: r =>
        if negb (waiting (k_st (g_calls st (pc_id p)))) then None else
        match last_sent st (pc_id p) with
        | Some q =>
            if request_eqb q (x_req x) then
              match gstep ST st (GL_resp (pc_id p) (x_resp x)) with
              | Some st' => Some (g_tick_if_needed ST st' (pc_id p),
                                  Some (mkP (pc_id p) (pc_ext p) (pc_args p) true r (pc_out p)))
              | None => None
              end
            else None
        | None => None
        end
    end.

(* depth-first search; [pre] = pending calls already tried (in vain) in this state; [ok] = what the
   rest of the history requires of the state the concurrent calls leave behind *)
Fixpoint g_par (fuel : nat) (ST : nat -> stmt) (ok : gstate -> bool) (st : gstate) (pre post : list pcall)
  : option gstate :=
  match fuel with
  | O => None
  | Datatypes.S k =>
      match post with
      | [] => match pre with [] => if ok st then Some st else None | _ => None end
      | p :: rest =>
          match pstep ST st p with
          | Some (st', op') =>
              match g_par k ST ok st' [] (pre ++ (match op' with Some p' => [p'] | None => [] end) ++ rest) with
              | Some r => Some r
              | None => g_par k ST ok st (pre ++ [p]) rest
              end
          | None => g_par k ST ok st (pre ++ [p]) rest
          end
      end
  end.

(* ------------------------------------------------------------------------------------ *)
(* Session::prepare (session.rs prepare_nongeneric / prepare_on_all 1623-1715): PREPARE is  *)
(* sent on one connection to every node concurrently (join_all); [rs] = the answers in the  *)
(* iteration order of the connections.  The first successful answer becomes the statement   *)
(* (id, initial result metadata = the shared cell); every other successful answer must       *)
(* carry the same id; no successful answer => the first error.                              *)
(* ------------------------------------------------------------------------------------ *)
Inductive prep_err := PE_AllFailed | PE_IdsMismatch.

Fixpoint first_prepared (rs : list resp) : option (bytes * meta) :=
  match rs with
  | [] => None
  | RPrepared id m :: _ => Some (id, m)
  | _ :: r => first_prepared r
  end.

Definition same_prepared_id (id : bytes) (r : resp) : bool :=
  match r with RPrepared id' _ => bytes_eqb id' id | _ => true end.

Definition prepare_on_all (rs : list resp) : result prep_err (bytes * meta) :=
  match first_prepared rs with
  | None => Err PE_AllFailed
  | Some (id, m) => if forallb (same_prepared_id id) rs then Ok (id, m) else Err PE_IdsMismatch
  end.

(* what the caller can observe of the result: the id and the column specs of the new statement *)
Inductive prep_obs := PO_ok (id : bytes) (cols : list col) | PO_err (e : prep_err).

(* the iteration order of the connections is not observable: is the observation the result of
   [prepare_on_all] for SOME order of the recorded answers? *)
Definition prep_accept (rs : list resp) (o : prep_obs) : bool :=
  match o with
  | PO_ok id cols =>
      existsb (fun r => match r with
                        | RPrepared id' m => bytes_eqb id' id && list_eqb col_eqb (m_cols m) cols
                        | _ => false end) rs &&
      forallb (same_prepared_id id) rs
  | PO_err PE_AllFailed => match first_prepared rs with None => true | Some _ => false end
  | PO_err PE_IdsMismatch =>
      match first_prepared rs with
      | Some (id, _) => negb (forallb (same_prepared_id id) rs)
      | None => false
      end
  end.

(* prepare_nongeneric: one connection per node first; only if that round fails (no node prepared
   the statement, or ids differ) a second round over one connection per shard, whose result is final *)
Definition session_prepare (rs1 rs2 : list resp) : result prep_err (bytes * meta) :=
  match prepare_on_all rs1 with
  | Ok x => Ok x
  | Err _ => prepare_on_all rs2
  end.

Definition session_prep_accept (rs1 : list resp) (rs2 : option (list resp)) (o : prep_obs) : bool :=
  match rs2 with
  | None => match o with PO_ok _ _ => prep_accept rs1 o | PO_err _ => false end
  | Some r2 => (prep_accept rs1 (PO_err PE_AllFailed) || prep_accept rs1 (PO_err PE_IdsMismatch)) && prep_accept r2 o
  end.

(* ------------------------------------------------------------------------------------ *)
(* Known finding F25, class foreign-cached-metadata-without-ext (clusters whose nodes       *)
(* announce DIFFERENT columns for a statement):                                            *)
(* Session::prepare keeps the result metadata of ONE successful PREPARED and discards the   *)
(* others; a node without the extension whose own answer at preparation announced other     *)
(* columns gets its NO_METADATA rows decoded with the kept ones when cached metadata is on. *)
(* [pa] = the columns the nodes announced for the statement at preparation.                *)
(* ------------------------------------------------------------------------------------ *)
Definition KnownClassPrep (pa : list (list col)) (ext uc : bool) (cols : list col) : Prop :=
  Quadrant ext uc /\ exists c', In c' pa /\ c' <> [] /\ c' <> cols.
Definition known_class_prepb (pa : list (list col)) (ext uc : bool) (cols : list col) : bool :=
  quadrantb ext uc && existsb (fun c' => negb (is_nil c') && negb (list_eqb col_eqb c' cols)) pa.

(* Bookkeeping PER NODE for the nodes without the extension (used on mixed clusters, where the nodes
   announce different things): [an nd s] = the columns node nd most recently announced for statement
   s — its answer at preparation, then its re-preparations.  An operation on such a node that decoded
   rows that came without metadata (as requested) with other columns is reported:
   (index, true) = the node's latest announcement was a re-preparation (first shape),
   (index, false) = it was its answer at preparation (second shape). *)
Definition pn_xchg (ST : nat -> stmt) (ns : nat) (nd : nat) (an : nat -> nat -> list col * bool) (x : xchg)
  : nat -> nat -> list col * bool :=
  match x_req x, x_resp x with
  | Q_prepare t, RPrepared id m =>
      match stmt_of_text ST ns t with
      | Some s =>
          if bytes_eqb id (s_id (ST s)) && negb (is_nil (m_cols m))
          then upd an nd (upd (an nd) s (m_cols m, true))
          else an
      | None => an
      end
  | _, _ => an
  end.

Fixpoint plain_node_check (ST : nat -> stmt) (ns : nat) (an : nat -> nat -> list col * bool) (i : nat) (tr : list top)
  : list (nat * bool) :=
  match tr with
  | [] => []
  | TO_exec nd false a xs out :: r =>
      let an' := fold_left (pn_xchg ST ns nd) xs an in
      let rest := plain_node_check ST ns an' (Datatypes.S i) r in
      match last (map Some xs) None, out with
      | Some x, OB_rows cols _ _ _ =>
          match x_req x, x_resp x with
          | Q_execute f, RRows b =>
              match rb_meta b with
              | RM_none _ =>
                  (* a node that never announced columns (late statement) has nothing to compare with *)
                  if f_skip f && negb (is_nil (fst (an' nd (xa_stmt a)))) &&
                     negb (list_eqb col_eqb cols (fst (an' nd (xa_stmt a))))
                  then (i, snd (an' nd (xa_stmt a))) :: rest else rest
              | RM_full _ _ => rest
              end
          | _, _ => rest
          end
      | _, _ => rest
      end
  | TO_batch nd false _ xs _ :: r =>
      plain_node_check ST ns (fold_left (pn_xchg ST ns nd) xs an) (Datatypes.S i) r
  | _ :: r => plain_node_check ST ns an (Datatypes.S i) r
  end.
