(* Model of scylla/src/routing/sharding.rs  (property C11).
   Executable definitions only; proofs are in Proofs/Shard_proofs.v.

   Rust types: Token.value : i64 (here Z), nr_shards : NonZeroU16, msb_ignore : u8,
   ports : u16, Shard = u32.  All of them are N here, with the wrap-arounds of the
   Rust code written explicitly. *)
From SV Require Import Base.Prelude.
From Coq Require Import Ascii String.
Open Scope N_scope.

Definition two64 : N := 2 ^ 64.
Definition u16_max : N := 65535.

(* ---- Sharder::shard_of ------------------------------------------------- *)

(* `token.value as u64` *)
Definition i64_as_u64 (t : Z) : N := Z.to_N (t mod 2 ^ 64)%Z.

(* `(x).wrapping_add(1u64 << 63)` *)
Definition wrapping_add_bias (x : N) : N := (x + 2 ^ 63) mod two64.

(* `x <<= k` on u64 for k <= 63 (k >= 64 overflows the shift in Rust: debug panic /
   release wrap; outside the property's quantifier, the harness never generates it). *)
Definition shl64 (x k : N) : N := (x * 2 ^ k) mod two64.

(* `(((biased as u128) * (nr_shards as u128)) >> 64) as u32` ; the product is < 2^80 so the
   u128 multiplication cannot wrap, and the result is < 2^16 so `as u32` is lossless. *)
Definition shard_of (n msb : N) (t : Z) : N :=
  (shl64 (wrapping_add_bias (i64_as_u64 t)) msb * n) / two64.

(* `source_port % nr_shards` *)
Definition shard_of_source_port (n port : N) : N := port mod n.

(* ---- specification: ScyllaDB's dht::shard_of --------------------------- *)
(* bias the token by 2^63, shift left by the ignored bits (dropping what leaves the 64-bit
   word), multiply by the shard count and take the high 64 bits of the 128-bit product. *)
Definition spec_shard_of (n msb : N) (t : Z) : N :=
  Z.to_N ((((t + 2 ^ 63) * 2 ^ (Z.of_N msb)) mod 2 ^ 64 * Z.of_N n) / 2 ^ 64)%Z.

(* ---- source ports ------------------------------------------------------ *)

(* calculate_lowest_port_for_shard_in_range *)
Definition lowest_port (n s lo hi : N) : option N :=
  let shard_for_first_port := lo mod n in
  let offset := (n - shard_for_first_port + s) mod n in
  let first := lo + offset in
  if u16_max <? first then None                 (* u16::checked_add *)
  else if first <=? hi then Some first else None.

(* (first..=hi).step_by(n) : first, first+n, ... while <= hi.  count = (hi-first)/n + 1 *)
Definition step_ports (first hi n : N) : list N :=
  map (fun i => first + i * n) (nrange 0 (N.to_nat ((hi - first) / n + 1))).

Definition ports_for_shard (n s lo hi : N) : list N :=
  match lowest_port n s lo hi with
  | None => []
  | Some first => step_ports first hi n
  end.

(* iter_source_ports_for_shard_from_range with the random pivot as an oracle argument:
   valid.skip(pivot).chain(valid.take(pivot)) *)
Definition iter_ports (n s lo hi : N) (pivot : nat) : list N :=
  let l := ports_for_shard n s lo hi in skipn pivot l ++ firstn pivot l.

(* draw_source_port_for_shard_from_range with the random index as an oracle argument *)
Definition draw_port (n s lo hi : N) (idx : nat) : option N :=
  nth_error (ports_for_shard n s lo hi) idx.

(* specification of the port set: every p in [lo,hi] with p mod n = s, ascending *)
Definition spec_ports (n s lo hi : N) : list N :=
  filter (fun p => p mod n =? s) (nrange lo (N.to_nat (hi + 1 - lo))).

(* [l] is a rotation of [m] *)
Fixpoint rotations_aux {A} (fuel : nat) (m : list A) : list (list A) :=
  match fuel with
  | O => []
  | S k => m :: match m with [] => [] | x :: xs => rotations_aux k (xs ++ [x]) end
  end.
Definition is_rotation (l m : list N) : bool :=
  existsb (fun r => if list_eq_dec N.eq_dec l r then true else false)
          (rotations_aux (S (List.length m)) m).

(* Acceptors used by the correspondence check: does an observed implementation output agree
   with the model for SOME value of the random oracle? *)
Fixpoint index_of (x : N) (l : list N) : option nat :=
  match l with
  | [] => None
  | y :: r => if x =? y then Some O else option_map S (index_of x r)
  end.
Definition accept_iter (n s lo hi : N) (observed : list N) : bool :=
  let l := ports_for_shard n s lo hi in
  match observed with
  | [] => match l with [] => true | _ => false end
  | x :: _ =>
      match index_of x l with
      | None => false
      | Some k => if list_eq_dec N.eq_dec observed (skipn k l ++ firstn k l) then true else false
      end
  end.
Definition accept_draw (n s lo hi : N) (observed : option N) : bool :=
  match observed, ports_for_shard n s lo hi with
  | None, [] => true
  | Some p, (_ :: _) as l => existsb (N.eqb p) l
  | _, _ => false
  end.

(* The property itself as a predicate on an observed iterator output / drawn port,
   phrased with the specification only (used by the search stage). *)
Definition prop_iter_ok (n s lo hi : N) (observed : list N) : bool :=
  let sp := spec_ports n s lo hi in
  (List.length observed =? List.length sp)%nat &&
  forallb (fun p => existsb (N.eqb p) observed) sp &&
  forallb (fun p => existsb (N.eqb p) sp) observed.
Definition prop_draw_ok (n s lo hi : N) (observed : option N) : bool :=
  match observed with
  | None => match spec_ports n s lo hi with [] => true | _ => false end
  | Some p => (lo <=? p) && (p <=? hi) && (p mod n =? s)
  end.

(* ---- ShardInfo parsing -------------------------------------------------- *)

Inductive shard_err :=
| NoShardInfo | MissingSomeShardInfoParameters | MissingShardInfoParameterValues
| ZeroShards | ShardIdOutOfRange | ParseIntError.

Definition digit_of (c : ascii) : option N :=
  let k := N_of_ascii c in
  if (48 <=? k) && (k <=? 57) then Some (k - 48) else None.

(* <uN as FromStr>::from_str : optional '+', at least one digit, no overflow above [max]. *)
Fixpoint parse_digits (max acc : N) (s : string) : option N :=
  match s with
  | EmptyString => Some acc
  | String c r =>
      match digit_of c with
      | None => None
      | Some d => let acc' := acc * 10 + d in
                  if max <? acc' then None else parse_digits max acc' r
      end
  end.
Definition parse_unsigned (max : N) (s : string) : option N :=
  match s with
  | EmptyString => None
  | String c r =>
      if Ascii.eqb c "+"%char
      then match r with EmptyString => None | _ => parse_digits max 0 r end
      else parse_digits max 0 s
  end.

(* TryFrom<&HashMap<String, Vec<String>>> for ShardInfo; the three looked-up entries are
   passed as options of string lists. *)
Definition parse_shard_info (shard_e nr_e msb_e : option (list string))
  : result shard_err (N * N * N) :=
  match shard_e, nr_e, msb_e with
  | Some se, Some ne, Some me =>
      match se, ne, me with
      | s :: _, n :: _, m :: _ =>
          match parse_unsigned 65535 s with
          | None => Err ParseIntError
          | Some shard =>
              match parse_unsigned 65535 n with
              | None => Err ParseIntError
              | Some nr =>
                  if nr =? 0 then Err ZeroShards else
                  match parse_unsigned 255 m with
                  | None => Err ParseIntError
                  | Some msb =>
                      if nr <=? shard then Err ShardIdOutOfRange
                      else Ok (shard, nr, msb)
                  end
              end
          end
      | _, _, _ => Err MissingShardInfoParameterValues
      end
  | None, None, None => Err NoShardInfo
  | _, _, _ => Err MissingSomeShardInfoParameters
  end.
