(* Model of the CQL request serialisation of scylla-cql (property C09).
   Executable definitions only; proofs are in Proofs/Request_proofs.v.

   PART 1 follows the CODE:
     scylla-cql/src/frame/types.rs            write_*  (checked length writers)
     scylla-cql-core/src/serialize/writers.rs CellWriter::{set_null,set_unset,set_value}, RowWriter
     scylla-cql-core/src/serialize/row.rs     SerializedValues::{from_closure,write_to_request}
     scylla-cql/src/frame/request/query.rs    Query::serialize, QueryParameters::serialize
     scylla-cql/src/frame/request/execute.rs  Execute / ExecuteV2::serialize
     scylla-cql/src/frame/request/batch.rs    Batch::do_serialize, serialize_batch_statement
     scylla-cql/src/frame/request/{prepare,startup,register,options,auth_response}.rs
     scylla-cql/src/frame/mod.rs              SerializedRequest::{make,set_stream}, compress_append,
                                              decompress
   PART 2 is the SPECIFICATION: an independent frame / request parser written from the CQL binary
   protocol v4 document (sections 2 "Frame header", 3 "Notations", 4.1.x "Requests", 5
   "Compression"), plus ScyllaDB's result-metadata-id extension of EXECUTE.

   Conventions: a byte string is a [list N] (Base/Bytes.v); Rust [&str]/[String] are their UTF-8
   bytes (well-formedness is a Rust type invariant: [text_ok] in [req_wf]; the specification parser
   checks it on [string] / [long string]); [usize] lengths are N;
   i32/i64 fields are Z with their ranges stated in [req_wf]. *)
From SV Require Import Base.Prelude Base.Bytes.
From SV Require Model.Cql.     (* C01's model: used for utf8_valid (the specification of "UTF-8") and in PART 3 *)
From Coq Require Import Ascii String.
Open Scope N_scope.

(* ------------------------------------------------------------------------------------------ *)
(* Abstract requests: what the caller asks for                                                 *)
(* ------------------------------------------------------------------------------------------ *)

Inductive consistency :=
| Any | One | Two | Three | Quorum | All | LocalQuorum | EachQuorum | Serial | LocalSerial | LocalOne.
Inductive serial_consistency := SSerial | SLocalSerial.

(* one bound value, already serialised by the value codec (C01's subject) *)
Inductive cell := CNull | CUnset | CVal (b : bytes).

Record qparams := mkQP {
  qp_consistency : consistency;
  qp_serial : option serial_consistency;
  qp_timestamp : option Z;          (* i64 *)
  qp_page_size : option Z;          (* i32 *)
  qp_paging : option bytes;         (* PagingState(Option<Arc<[u8]>>) *)
  qp_skip_metadata : bool;
  qp_values : list cell
}.

Inductive batch_type := Logged | Unlogged | Counter.
Inductive stmt := SQuery (text : bytes) | SPrepared (id : bytes).
Inductive event := EvTopology | EvStatus | EvSchema | EvClientRoutes.

Inductive request :=
| Query (text : bytes) (p : qparams)
| Prepare (text : bytes)
| Execute (id : bytes) (result_metadata_id : option bytes) (p : qparams)
| Batch (bt : batch_type) (stmts : list stmt) (vals : list (list cell))
        (c : consistency) (sc : option serial_consistency) (ts : option Z)
| Startup (opts : list (bytes * bytes))   (* HashMap entries in the order the map iterates *)
| Register (evs : list event)
| Options
| AuthResponse (tok : option bytes).

(* `c as u16` *)
Definition cons_code (c : consistency) : N :=
  match c with
  | Any => 0 | One => 1 | Two => 2 | Three => 3 | Quorum => 4 | All => 5 | LocalQuorum => 6
  | EachQuorum => 7 | Serial => 8 | LocalSerial => 9 | LocalOne => 10
  end.
Definition serial_code (c : serial_consistency) : N :=
  match c with SSerial => 8 | SLocalSerial => 9 end.
Definition batch_type_code (b : batch_type) : N :=
  match b with Logged => 0 | Unlogged => 1 | Counter => 2 end.

(* RequestOpcode *)
Definition opcode (r : request) : N :=
  match r with
  | Startup _ => 1 | Options => 5 | Query _ _ => 7 | Prepare _ => 9 | Execute _ _ _ => 10
  | Register _ => 11 | Batch _ _ _ _ _ _ => 13 | AuthResponse _ => 15
  end.

Fixpoint bytes_of_string (s : string) : bytes :=
  match s with
  | EmptyString => []
  | String c r => N_of_ascii c :: bytes_of_string r
  end.

(* impl fmt::Display for EventType / EventTypeV2 *)
Definition event_name (e : event) : bytes :=
  bytes_of_string match e with
                  | EvTopology => "TOPOLOGY_CHANGE"
                  | EvStatus => "STATUS_CHANGE"
                  | EvSchema => "SCHEMA_CHANGE"
                  | EvClientRoutes => "CLIENT_ROUTES_CHANGE"
                  end%string.

(* Rust type invariants of the numeric fields (i64 timestamp, i32 page size) *)
Definition i32_ok (z : Z) : Prop := (- 2 ^ 31 <= z < 2 ^ 31)%Z.
Definition i64_ok (z : Z) : Prop := (- 2 ^ 63 <= z < 2 ^ 63)%Z.
Definition opt_ok (P : Z -> Prop) (o : option Z) : Prop :=
  match o with Some z => P z | None => True end.
Definition qparams_wf (p : qparams) : Prop :=
  opt_ok i64_ok (qp_timestamp p) /\ opt_ok i32_ok (qp_page_size p).
(* a Rust &str / String is well-formed UTF-8 (std::str::from_utf8 accepts it: Cql.utf8_valid) *)
Definition text_ok (b : bytes) : Prop := Cql.utf8_valid b = true.
Definition stmt_wf (s : stmt) : Prop := match s with SQuery t => text_ok t | SPrepared _ => True end.
Definition req_wf (r : request) : Prop :=
  match r with
  | Query t p => text_ok t /\ qparams_wf p
  | Prepare t => text_ok t
  | Execute _ _ p => qparams_wf p
  | Batch _ stmts _ _ _ ts => Forall stmt_wf stmts /\ opt_ok i64_ok ts
  | Startup opts => Forall (fun kv => text_ok (fst kv) /\ text_ok (snd kv)) opts
  | _ => True
  end.

(* ========================================================================================== *)
(* PART 1 — the code                                                                          *)
(* ========================================================================================== *)

Definition blen (b : bytes) : N := N.of_nat (List.length b).

(* Big-endian encoders with shifts and masks instead of division (same function as
   Bytes.be_enc / Bytes.enc_signed -- Request_proofs.be_eq / sbe_eq -- but cheap on the extracted
   binary numbers; the driver runs them hundreds of millions of times). *)
Fixpoint be (k : nat) (v : N) : bytes :=
  match k with
  | O => []
  | S k' => be k' (N.shiftr v 8) ++ [N.land v 255]
  end.
Definition sbe (k : nat) (z : Z) : bytes := be k (wrap_bits (8 * N.of_nat k) z).

(* ---- frame/types.rs ---------------------------------------------------------------------- *)

(* write_short_length: `let v: u16 = v.try_into()?; write_short(v, buf)` *)
Definition write_short_length (v : N) : option bytes :=
  if v <? 65536 then Some (be 2 v) else None.
(* write_int_length: `let v: i32 = v.try_into()?; write_int(v, buf)` *)
Definition write_int_length (v : N) : option bytes :=
  if v <? 2147483648 then Some (be 4 v) else None.
Definition write_short (v : N) : bytes := be 2 v.
Definition write_int (z : Z) : bytes := sbe 4 z.
Definition write_long (z : Z) : bytes := sbe 8 z.

Definition write_bytes (v : bytes) : option bytes :=
  match write_int_length (blen v) with Some l => Some (l ++ v) | None => None end.
Definition write_bytes_opt (v : option bytes) : option bytes :=
  match v with
  | Some b => match write_int_length (blen b) with Some l => Some (l ++ b) | None => None end
  | None => Some (write_int (-1))
  end.
Definition write_short_bytes (v : bytes) : option bytes :=
  match write_short_length (blen v) with Some l => Some (l ++ v) | None => None end.
Definition write_string (v : bytes) : option bytes :=
  match write_short_length (blen v) with Some l => Some (l ++ v) | None => None end.
Definition write_long_string (v : bytes) : option bytes :=
  match write_int_length (blen v) with Some l => Some (l ++ v) | None => None end.

(* the `for v in v.iter() { write_string(v, buf)?; }` loop *)
Fixpoint write_strings (l : list bytes) : option bytes :=
  match l with
  | [] => Some []
  | s :: r =>
      match write_string s with
      | None => None
      | Some a => match write_strings r with Some b => Some (a ++ b) | None => None end
      end
  end.
Definition write_string_list (l : list bytes) : option bytes :=
  match write_short_length (N.of_nat (List.length l)) with
  | None => None
  | Some h => match write_strings l with Some b => Some (h ++ b) | None => None end
  end.
Fixpoint write_pairs (l : list (bytes * bytes)) : option bytes :=
  match l with
  | [] => Some []
  | (k, v) :: r =>
      match write_string k with
      | None => None
      | Some a =>
          match write_string v with
          | None => None
          | Some b => match write_pairs r with Some c => Some (a ++ b ++ c) | None => None end
          end
      end
  end.
Definition write_string_map (l : list (bytes * bytes)) : option bytes :=
  match write_short_length (N.of_nat (List.length l)) with
  | None => None
  | Some h => match write_pairs l with Some b => Some (h ++ b) | None => None end
  end.

(* ---- serialize/writers.rs, serialize/row.rs ---------------------------------------------- *)

(* CellWriter::set_null / set_unset / set_value (CellOverflowError = None) *)
Definition ser_cell (c : cell) : option bytes :=
  match c with
  | CNull => Some [255; 255; 255; 255]          (* (-1i32).to_be_bytes() *)
  | CUnset => Some [255; 255; 255; 254]         (* (-2i32).to_be_bytes() *)
  | CVal b => if blen b <? 2147483648 then Some (be 4 (blen b) ++ b) else None
  end.
Fixpoint ser_cells (l : list cell) : option bytes :=
  match l with
  | [] => Some []
  | c :: r =>
      match ser_cell c with
      | None => None
      | Some a => match ser_cells r with Some b => Some (a ++ b) | None => None end
      end
  end.

Inductive stmt_err := StmtString | StmtId | StmtValues | StmtTooManyValues (n : N).
Inductive ser_err :=
| ErrCellOverflow                       (* a value of >= 2^31 bytes: CellOverflowError *)
| ErrValuesTooMany                      (* SerializedValues: TooManyValues *)
| ErrQueryString | ErrQueryParams       (* QuerySerializationError::{StatementString,QueryParameters}Serialization *)
| ErrPrepareString
| ErrExecId | ErrExecMetaId | ErrExecParams
| ErrBatchTooManyStatements (n : N)
| ErrBatchMismatch (n_value_lists n_statements : N)
| ErrBatchStatement (idx : N) (e : stmt_err)
| ErrBadBatch (announced serialized : N)
| ErrStartup | ErrRegister | ErrAuthResponse
| ErrSnap
| ErrBodyTooLong (n : N).           (* CqlRequestSerializationError::BodyTooLong *)

(* SerializedValues::from_closure(|w| for each cell: w.make_cell_writer().set_*()) : the closure
   runs first (cell overflow), then `writer.value_count().try_into::<u16>()`. *)
Definition mk_values (l : list cell) : result ser_err (N * bytes) :=
  match ser_cells l with
  | None => Err ErrCellOverflow
  | Some b => let n := N.of_nat (List.length l) in
              if n <? 65536 then Ok (n, b) else Err ErrValuesTooMany
  end.

(* ---- request/query.rs: QueryParameters::serialize ---------------------------------------- *)

Definition qp_flags (has_values skip page paging serial ts : bool) : N :=
  let flags := 0 in
  let flags := if has_values then N.lor flags 1 else flags in
  let flags := if skip then N.lor flags 2 else flags in
  let flags := if page then N.lor flags 4 else flags in
  let flags := if paging then N.lor flags 8 else flags in
  let flags := if serial then N.lor flags 16 else flags in
  let flags := if ts then N.lor flags 32 else flags in
  flags.

Definition is_some {A} (o : option A) : bool := match o with Some _ => true | None => false end.

(* [sv] = (element_count, serialized_values) of the SerializedValues *)
Definition ser_qparams (p : qparams) (sv : N * bytes) : option bytes :=
  let '(cnt, blob) := sv in
  let nonempty := negb (cnt =? 0) in
  let flags := qp_flags nonempty (qp_skip_metadata p) (is_some (qp_page_size p))
                        (is_some (qp_paging p)) (is_some (qp_serial p)) (is_some (qp_timestamp p)) in
  let buf := write_short (cons_code (qp_consistency p)) ++ [flags] in
  (* SerializedValues::write_to_request *)
  let buf := if nonempty then buf ++ be 2 cnt ++ blob else buf in
  let buf := match qp_page_size p with Some z => buf ++ write_int z | None => buf end in
  match (match qp_paging p with
         | Some ps => match write_bytes ps with Some b => Some (buf ++ b) | None => None end
         | None => Some buf
         end) with
  | None => None                       (* BadPagingState *)
  | Some buf =>
      let buf := match qp_serial p with Some s => buf ++ write_short (serial_code s) | None => buf end in
      let buf := match qp_timestamp p with Some t => buf ++ write_long t | None => buf end in
      Some buf
  end.

(* ---- request/batch.rs -------------------------------------------------------------------- *)

(* serialize_batch_statement *)
Definition ser_stmt (s : stmt) : result stmt_err bytes :=
  match s with
  | SQuery t => match write_long_string t with Some b => Ok (0 :: b) | None => Err StmtString end
  | SPrepared id => match write_short_bytes id with Some b => Ok (1 :: b) | None => Err StmtId end
  end.

(* `buf[pos..pos+2].copy_from_slice(v)` *)
Definition patch2 (pos : nat) (v : bytes) (buf : bytes) : bytes :=
  firstn pos buf ++ v ++ skipn (pos + 2) buf.

(* The `for (idx, statement) in statements.iter().enumerate()` loop.  Returns the bytes written
   by the loop, the value lists the iterator has not consumed, and n_serialized_statements.
   Each statement's chunk is: the statement, two reserved zero bytes, the row; then the count is
   patched over the reserved bytes.  (The code patches at the absolute position in the request
   buffer; the chunk-relative position used here is the same byte.) *)
Fixpoint batch_loop (idx nser nstmts : N) (stmts : list stmt) (vals : list (list cell))
  : result ser_err (bytes * list (list cell) * N) :=
  match stmts with
  | [] => Ok ([], vals, nser)
  | s :: ss =>
      match ser_stmt s with
      | Err e => Err (ErrBatchStatement idx e)
      | Ok sb =>
          match vals with
          | [] => Err (ErrBatchMismatch idx nstmts)          (* serialize_next = None *)
          | v :: vs =>
              match ser_cells v with
              | None => Err (ErrBatchStatement idx StmtValues)
              | Some cb =>
                  let cnt := N.of_nat (List.length v) in       (* row_writer.value_count() *)
                  if cnt <? 65536 then
                    let chunk := patch2 (List.length sb) (be 2 cnt) (sb ++ [0; 0] ++ cb) in
                    match batch_loop (idx + 1) (nser + 1) nstmts ss vs with
                    | Err e => Err e
                    | Ok (rest, unused, n) => Ok (chunk ++ rest, unused, n)
                    end
                  else Err (ErrBatchStatement idx (StmtTooManyValues cnt))
              end
          end
      end
  end.

Definition batch_flags (serial ts : bool) : N :=
  let flags := 0 in
  let flags := if serial then N.lor flags 16 else flags in
  let flags := if ts then N.lor flags 32 else flags in
  flags.

(* Batch::do_serialize *)
Definition ser_batch (bt : batch_type) (stmts : list stmt) (vals : list (list cell))
           (c : consistency) (sc : option serial_consistency) (ts : option Z) : result ser_err bytes :=
  let n := N.of_nat (List.length stmts) in
  if n <? 65536 then
    match batch_loop 0 0 n stmts vals with
    | Err e => Err e
    | Ok (body, unused, nser) =>
        match unused with
        | _ :: rest =>          (* value_lists.skip_next().is_some() *)
            Err (ErrBatchMismatch (nser + 1 + N.of_nat (List.length rest)) nser)
        | [] =>
            if nser =? n then
              Ok ([batch_type_code bt] ++ write_short n ++ body
                  ++ write_short (cons_code c) ++ [batch_flags (is_some sc) (is_some ts)]
                  ++ match sc with Some s => write_short (serial_code s) | None => [] end
                  ++ match ts with Some t => write_long t | None => [] end)
            else Err (ErrBadBatch n nser)
        end
    end
  else Err (ErrBatchTooManyStatements n).

(* ---- SerializableRequest::serialize for every request ------------------------------------ *)

Definition serialize_request (r : request) : result ser_err bytes :=
  match r with
  | Query text p =>
      match mk_values (qp_values p) with          (* building the SerializedValues *)
      | Err e => Err e
      | Ok sv =>
          match write_long_string text with
          | None => Err ErrQueryString
          | Some a => match ser_qparams p sv with Some b => Ok (a ++ b) | None => Err ErrQueryParams end
          end
      end
  | Prepare text =>
      match write_long_string text with Some a => Ok a | None => Err ErrPrepareString end
  | Execute id mid p =>
      match mk_values (qp_values p) with
      | Err e => Err e
      | Ok sv =>
          match write_short_bytes id with
          | None => Err ErrExecId
          | Some a =>
              match (match mid with Some m => write_short_bytes m | None => Some [] end) with
              | None => Err ErrExecMetaId
              | Some m =>
                  match ser_qparams p sv with Some b => Ok (a ++ m ++ b) | None => Err ErrExecParams end
              end
          end
      end
  | Batch bt stmts vals c sc ts => ser_batch bt stmts vals c sc ts
  | Startup opts => match write_string_map opts with Some a => Ok a | None => Err ErrStartup end
  | Register evs =>
      match write_string_list (map event_name evs) with Some a => Ok a | None => Err ErrRegister end
  | Options => Ok []
  | AuthResponse tok => match write_bytes_opt tok with Some a => Ok a | None => Err ErrAuthResponse end
  end.

(* ---- frame/mod.rs ------------------------------------------------------------------------ *)

Inductive comp_alg := Lz4 | Snappy.

(* The external codecs (lz4_flex block format, snap raw format).  They are parameters of every
   function below; the theorems assume [codec_ok] explicitly, the tie validates it. *)
Record codec := mkCodec {
  lz4_compress : bytes -> bytes;
  lz4_decompress : bytes -> N -> option bytes;     (* block, announced uncompressed size *)
  snap_compress : bytes -> option bytes;
  snap_decompress : bytes -> option bytes
}.
Definition codec_ok (cd : codec) : Prop :=
  (forall b, lz4_decompress cd (lz4_compress cd b) (blen b) = Some b) /\
  (forall b c, snap_compress cd b = Some c -> snap_decompress cd c = Some b).

(* compress_append: LZ4 writes `u32::try_from(uncomp_body.len())` (BodyTooLong otherwise) before
   the block; Snappy writes the raw block *)
Definition compress_append (cd : codec) (alg : comp_alg) (body : bytes) : result ser_err bytes :=
  match alg with
  | Lz4 => if blen body <? 4294967296
           then Ok (be 4 (blen body) ++ lz4_compress cd body)
           else Err (ErrBodyTooLong (blen body))
  | Snappy => match snap_compress cd body with Some c => Ok c | None => Err ErrSnap end
  end.

(* decompress *)
Definition decompress (cd : codec) (alg : comp_alg) (b : bytes) : option bytes :=
  match alg with
  | Lz4 => match take 4 b with
           | Some (l, r) => lz4_decompress cd r (be_dec l)
           | None => None
           end
  | Snappy => snap_decompress cd b
  end.

(* header written by SerializedRequest::make around the payload:
   data[0]=4, data[1]=flags, data[2..4]=0 (stream, set later), data[4]=opcode,
   body_size = data.len() - HEADER_SIZE;  data[5..9] = u32::try_from(body_size)?.to_be_bytes(),
   BodyTooLong(body_size) when the size does not fit *)
Definition frame_bytes (flags op : N) (payload : bytes) : bytes :=
  [4; flags; 0; 0; op] ++ be 4 (blen payload) ++ payload.
Definition make_frame (flags op : N) (payload : bytes) : result ser_err bytes :=
  if blen payload <? 4294967296 then Ok (frame_bytes flags op payload)
  else Err (ErrBodyTooLong (blen payload)).

Definition frame_flags (compressed tracing : bool) : N :=
  let flags := 0 in
  let flags := if compressed then N.lor flags 1 else flags in
  let flags := if tracing then N.lor flags 2 else flags in
  flags.

(* SerializedRequest::make(req, compression, tracing).get_data() *)
Definition encode_request (cd : codec) (c : option comp_alg) (tracing : bool) (r : request)
  : result ser_err bytes :=
  match serialize_request r with
  | Err e => Err e
  | Ok body =>
      match c with
      | Some alg =>
          match compress_append cd alg body with
          | Err e => Err e
          | Ok payload => make_frame (frame_flags true tracing) (opcode r) payload
          end
      | None => make_frame (frame_flags false tracing) (opcode r) body
      end
  end.

(* SerializedRequest::set_stream: data[2..4] = stream.to_be_bytes()  (i16) *)
Definition set_stream (s : Z) (f : bytes) : bytes :=
  firstn 2 f ++ sbe 2 s ++ skipn 4 f.

(* ========================================================================================== *)
(* PART 2 — the specification: a parser written from the protocol document                    *)
(* ========================================================================================== *)

Inductive parse_err :=
| PTooShort | PBadVersion | PBadLength | PBadFlags | PNoCompression | PDecompress | PBadOpcode
| PTrailing | PBadConsistency | PBadSerialConsistency | PNegativeLength | PBadValueLength
| PBadUtf8 | PBadQueryFlags | PNonCanonicalFlags | PNamedValues | PBadBatchType | PBadStatementKind | PBadBatchFlags | PBadEvent.

Definition reader (A : Type) : Type := bytes -> result parse_err (A * bytes).
Definition rret {A} (a : A) : reader A := fun b => Ok (a, b).
Definition rfail {A} (e : parse_err) : reader A := fun _ => Err e.
Definition rthen {A B} (r : reader A) (f : A -> reader B) : reader B :=
  fun b => match r b with Ok (a, b') => f a b' | Err e => Err e end.
Notation "x <- r ;; k" := (rthen r (fun x => k)) (at level 61, r at next level, right associativity).

(* exactly n bytes from the front; linear in n, never builds a unary number from the wire *)
Fixpoint takeN (b : bytes) (n : N) : option (bytes * bytes) :=
  if n =? 0 then Some ([], b) else
  match b with
  | [] => None
  | x :: r => match takeN r (N.pred n) with Some (a, r') => Some (x :: a, r') | None => None end
  end.

Definition p_take (n : N) : reader bytes :=
  fun b => match takeN b n with Some (x, r) => Ok (x, r) | None => Err PTooShort end.
Definition p_byte : reader N :=
  fun b => match b with x :: r => Ok (x, r) | [] => Err PTooShort end.
(* §3: [short] 2-byte unsigned, [int] 4-byte signed, [long] 8-byte signed, all big-endian *)
Definition p_short : reader N := x <- p_take 2 ;; rret (be_dec x).
Definition p_int : reader Z := x <- p_take 4 ;; rret (dec_signed x).
Definition p_long : reader Z := x <- p_take 8 ;; rret (dec_signed x).
(* [string] = [short] n + n bytes of UTF-8;  [short bytes] = [short] n + n arbitrary bytes *)
Definition p_utf8 (s : bytes) : reader bytes := if Cql.utf8_valid s then rret s else rfail PBadUtf8.
Definition p_string : reader bytes := n <- p_short ;; s <- p_take n ;; p_utf8 s.
Definition p_short_bytes : reader bytes := n <- p_short ;; p_take n.
(* [long string] = [int] n + n bytes of UTF-8 *)
Definition p_long_string : reader bytes :=
  n <- p_int ;; if (n <? 0)%Z then rfail PNegativeLength else s <- p_take (Z.to_N n) ;; p_utf8 s.
(* [bytes] = [int] n + n bytes, n < 0 means null *)
Definition p_bytes : reader (option bytes) :=
  n <- p_int ;; if (n <? 0)%Z then rret None else x <- p_take (Z.to_N n) ;; rret (Some x).
(* [value] = [int] n: -1 null, -2 not set, < -2 invalid, otherwise n bytes *)
Definition p_value : reader cell :=
  n <- p_int ;;
  if (n =? -1)%Z then rret CNull
  else if (n =? -2)%Z then rret CUnset
  else if (n <? 0)%Z then rfail PBadValueLength
  else x <- p_take (Z.to_N n) ;; rret (CVal x).

Fixpoint p_repeat {A} (r : reader A) (n : nat) : reader (list A) :=
  match n with
  | O => rret []
  | S k => x <- r ;; l <- p_repeat r k ;; rret (x :: l)
  end.
(* <n><value_1>...<value_n> with n a [short] *)
Definition p_values : reader (list cell) := n <- p_short ;; p_repeat p_value (N.to_nat n).

(* §3 [consistency] *)
Definition p_consistency : reader consistency :=
  c <- p_short ;;
  match c with
  | 0 => rret Any | 1 => rret One | 2 => rret Two | 3 => rret Three | 4 => rret Quorum
  | 5 => rret All | 6 => rret LocalQuorum | 7 => rret EachQuorum | 8 => rret Serial
  | 9 => rret LocalSerial | 10 => rret LocalOne
  | _ => rfail PBadConsistency
  end.
(* <serial_consistency>: "can only be either SERIAL or LOCAL_SERIAL" *)
Definition p_serial : reader serial_consistency :=
  c <- p_short ;;
  match c with 8 => rret SSerial | 9 => rret SLocalSerial | _ => rfail PBadSerialConsistency end.

Definition p_opt {A} (b : bool) (r : reader A) : reader (option A) :=
  if b then x <- r ;; rret (Some x) else rret None.

(* §4.1.4 <query_parameters> =
     <consistency><flags>[<n>[name_1]<value_1>...][<result_page_size>][<paging_state>]
     [<serial_consistency>][<timestamp>]
   flags: 0x01 values, 0x02 skip_metadata, 0x04 page_size, 0x08 with_paging_state,
          0x10 with_serial_consistency, 0x20 with_default_timestamp, 0x40 with_names_for_values *)
(* The flag byte must say exactly which optional parts are present ("flags matching the options
   used"): a values flag followed by n = 0, or a paging-state flag followed by a null [bytes],
   would denote the same parameters as the flag being clear.  The protocol text does not forbid
   these encodings, the property does; this parser, being the property's oracle, rejects them. *)
Definition p_values_nonempty : reader (list cell) :=
  vals <- p_values ;; match vals with [] => rfail PNonCanonicalFlags | _ :: _ => rret vals end.
Definition p_bytes_nonnull : reader bytes :=
  o <- p_bytes ;; match o with Some b => rret b | None => rfail PNonCanonicalFlags end.

Definition p_qparams : reader qparams :=
  c <- p_consistency ;;
  fl <- p_byte ;;
  if 128 <=? fl then rfail PBadQueryFlags
  else if N.testbit fl 6 then rfail PNamedValues
  else
    vals <- (if N.testbit fl 0 then p_values_nonempty else rret []) ;;
    ps <- p_opt (N.testbit fl 2) p_int ;;
    pg <- p_opt (N.testbit fl 3) p_bytes_nonnull ;;
    sc <- p_opt (N.testbit fl 4) p_serial ;;
    ts <- p_opt (N.testbit fl 5) p_long ;;
    rret (mkQP c sc ts ps pg (N.testbit fl 1) vals).

Definition bytes_eqb (a b : bytes) : bool := if list_eq_dec N.eq_dec a b then true else false.

(* §4.1.8 event types (+ ScyllaDB's CLIENT_ROUTES_CHANGE) *)
Definition p_event (s : bytes) : option event :=
  if bytes_eqb s (bytes_of_string "TOPOLOGY_CHANGE") then Some EvTopology
  else if bytes_eqb s (bytes_of_string "STATUS_CHANGE") then Some EvStatus
  else if bytes_eqb s (bytes_of_string "SCHEMA_CHANGE") then Some EvSchema
  else if bytes_eqb s (bytes_of_string "CLIENT_ROUTES_CHANGE") then Some EvClientRoutes
  else None.
Fixpoint p_events (l : list bytes) : option (list event) :=
  match l with
  | [] => Some []
  | s :: r => match p_event s, p_events r with
              | Some e, Some es => Some (e :: es)
              | _, _ => None
              end
  end.

(* §4.1.7 <query_i> = <kind><string_or_id><n><value_1>...<value_n> *)
Definition p_batch_query : reader (stmt * list cell) :=
  kind <- p_byte ;;
  s <- (match kind with
        | 0 => t <- p_long_string ;; rret (SQuery t)
        | 1 => i <- p_short_bytes ;; rret (SPrepared i)
        | _ => rfail PBadStatementKind
        end) ;;
  vals <- p_values ;;
  rret (s, vals).

(* §4.1.x request bodies by opcode.  [mid]: the result-metadata-id extension was negotiated. *)
Definition p_request (mid : bool) (op : N) : reader request :=
  match op with
  | 1 =>   (* STARTUP: [string map] *)
      n <- p_short ;;
      l <- p_repeat (k <- p_string ;; v <- p_string ;; rret (k, v)) (N.to_nat n) ;;
      rret (Startup l)
  | 5 => rret Options
  | 7 =>   (* QUERY: <query><query_parameters> *)
      t <- p_long_string ;; p <- p_qparams ;; rret (Query t p)
  | 9 => t <- p_long_string ;; rret (Prepare t)
  | 10 =>  (* EXECUTE: <id>[<result_metadata_id>]<query_parameters> *)
      id <- p_short_bytes ;; m <- p_opt mid p_short_bytes ;; p <- p_qparams ;;
      rret (Execute id m p)
  | 11 =>  (* REGISTER: [string list] *)
      n <- p_short ;;
      l <- p_repeat p_string (N.to_nat n) ;;
      match p_events l with Some evs => rret (Register evs) | None => rfail PBadEvent end
  | 13 =>  (* BATCH: <type><n><query_1>...<query_n><consistency><flags>[<serial_consistency>][<timestamp>] *)
      ty <- p_byte ;;
      bt <- (match ty with
             | 0 => rret Logged | 1 => rret Unlogged | 2 => rret Counter
             | _ => rfail PBadBatchType
             end) ;;
      n <- p_short ;;
      qs <- p_repeat p_batch_query (N.to_nat n) ;;
      c <- p_consistency ;;
      fl <- p_byte ;;
      if negb (N.land fl 207 =? 0) then rfail PBadBatchFlags      (* only 0x10 and 0x20 *)
      else
        sc <- p_opt (N.testbit fl 4) p_serial ;;
        ts <- p_opt (N.testbit fl 5) p_long ;;
        rret (Batch bt (map fst qs) (map snd qs) c sc ts)
  | 15 => t <- p_bytes ;; rret (AuthResponse t)     (* AUTH_RESPONSE: [bytes] *)
  | _ => rfail PBadOpcode
  end.

Record header := mkHeader {
  h_version : N; h_flags : N; h_stream : Z; h_opcode : N; h_length : N
}.

(* §5: the body (not the header) is compressed; LZ4 bodies are prefixed by the 4-byte big-endian
   uncompressed length; Snappy bodies are the raw Snappy block. *)
Definition spec_decompress (cd : codec) (alg : comp_alg) : reader bytes :=
  match alg with
  | Lz4 => n <- p_take 4 ;;
           fun blk => match lz4_decompress cd blk (be_dec n) with
                      | Some b => Ok (b, []) | None => Err PDecompress end
  | Snappy => fun blk => match snap_decompress cd blk with
                         | Some b => Ok (b, []) | None => Err PDecompress end
  end.

(* §2: version (0x04 for a request), flags (0x01 compression, 0x02 tracing; 0x04 custom payload
   and 0x08 warning are not accepted here), stream ([short], signed), opcode, length = body size.
   [alg]: compression negotiated at STARTUP. *)
Definition parse_frame (cd : codec) (alg : option comp_alg) (mid : bool) (f : bytes)
  : result parse_err (header * request) :=
  match f with
  | v :: fl :: s1 :: s2 :: op :: l1 :: l2 :: l3 :: l4 :: body =>
      if negb (v =? 4) then Err PBadVersion else
      let len := be_dec [l1; l2; l3; l4] in
      if negb (len =? blen body) then Err PBadLength else
      if 4 <=? fl then Err PBadFlags else
      match (if N.testbit fl 0
             then match alg with
                  | None => Err PNoCompression
                  | Some a => match spec_decompress cd a body with
                              | Ok (b, _) => Ok b | Err e => Err e end
                  end
             else Ok body) with
      | Err e => Err e
      | Ok body' =>
          match p_request mid op body' with
          | Err e => Err e
          | Ok (r, rest) =>
              match rest with
              | [] => Ok (mkHeader v fl (dec_signed [s1; s2]) op len, r)
              | _ :: _ => Err PTrailing
              end
          end
      end
  | _ => Err PTooShort
  end.

(* ---- oversize inputs, as a decidable predicate ------------------------------------------- *)

Definition cell_oversize (c : cell) : bool :=
  match c with CVal b => 2147483648 <=? blen b | _ => false end.
Definition cells_oversize (l : list cell) : bool :=
  (65536 <=? N.of_nat (List.length l)) || existsb cell_oversize l.
Definition qparams_oversize (p : qparams) : bool :=
  cells_oversize (qp_values p) ||
  match qp_paging p with Some ps => 2147483648 <=? blen ps | None => false end.
Definition stmt_oversize (s : stmt) : bool :=
  match s with SQuery t => 2147483648 <=? blen t | SPrepared id => 65536 <=? blen id end.
Definition oversize (r : request) : bool :=
  match r with
  | Query t p => (2147483648 <=? blen t) || qparams_oversize p
  | Prepare t => 2147483648 <=? blen t
  | Execute id m p =>
      (65536 <=? blen id) || match m with Some x => 65536 <=? blen x | None => false end
      || qparams_oversize p
  | Batch _ stmts vals _ _ _ =>
      (65536 <=? N.of_nat (List.length stmts)) || existsb stmt_oversize stmts
      || existsb cells_oversize vals
  | Startup opts =>
      (65536 <=? N.of_nat (List.length opts))
      || existsb (fun kv => (65536 <=? blen (fst kv)) || (65536 <=? blen (snd kv))) opts
  | Register evs => 65536 <=? N.of_nat (List.length evs)
  | Options => false
  | AuthResponse t => match t with Some b => 2147483648 <=? blen b | None => false end
  end.

(* number of value lists = number of statements (trivially true for the other requests) *)
Definition batch_counts_match (r : request) : bool :=
  match r with
  | Batch _ stmts vals _ _ _ => (List.length stmts =? List.length vals)%nat
  | _ => true
  end.

(* the serialised body does not fit the frame's 32-bit length field *)
Definition body_too_long (r : request) : bool :=
  match serialize_request r with Ok b => 4294967296 <=? blen b | Err _ => false end.

(* ---- sizes of a uniform batch (the tie's `L` cases, bodies around 4 GiB) ---------------------- *)
(* Body size of an uncompressed BATCH of n identical unprepared statements of t bytes each with
   empty value lists, no serial consistency / timestamp, and what make returns for it as far as
   sizes go: Ok body-size, or Err body-size = BodyTooLong (Request_proofs.uniform_batch). *)
Definition batch_body_len (n t : N) : N := 1 + 2 + n * (1 + 4 + t + 2) + 2 + 1.
(* what make does with a payload of [len] bytes, sizes only: Ok len = a frame of 9 + len bytes
   whose length field is len; Err len = BodyTooLong(len)  (Request_proofs.make_sizes) *)
Definition size_outcome (len : N) : result N N := if len <? 4294967296 then Ok len else Err len.
Definition uniform_batch_outcome (n t : N) : result N N := size_outcome (batch_body_len n t).

(* For EXECUTE the parser must be told whether the metadata-id extension is in use. *)
Definition mid_matches (mid : bool) (r : request) : Prop :=
  match r with Execute _ m _ => mid = is_some m | _ => True end.

(* The property as an executable predicate on an observed frame (used by the tie's search):
   the independent parser reads the frame back to exactly the request that was asked for, with
   version 4, the request's opcode, length = body size, flags = compression/tracing, stream s
   (0 as made, the argument of set_stream afterwards). *)
Definition bytes_eq_dec : forall a b : bytes, {a = b} + {a <> b} := list_eq_dec N.eq_dec.
Definition opt_eq_dec {A} (d : forall a b : A, {a = b} + {a <> b})
  : forall a b : option A, {a = b} + {a <> b}.
Proof. decide equality. Defined.
Definition consistency_eq_dec : forall a b : consistency, {a = b} + {a <> b}.
Proof. decide equality. Defined.
Definition serial_eq_dec : forall a b : serial_consistency, {a = b} + {a <> b}.
Proof. decide equality. Defined.
Definition cell_eq_dec : forall a b : cell, {a = b} + {a <> b}.
Proof. decide equality; apply bytes_eq_dec. Defined.
Definition qparams_eq_dec : forall a b : qparams, {a = b} + {a <> b}.
Proof.
  decide equality;
    first [ apply (list_eq_dec cell_eq_dec) | apply Bool.bool_dec | apply (opt_eq_dec bytes_eq_dec)
          | apply (opt_eq_dec Z.eq_dec) | apply (opt_eq_dec serial_eq_dec) | apply consistency_eq_dec ].
Defined.
Definition stmt_eq_dec : forall a b : stmt, {a = b} + {a <> b}.
Proof. decide equality; apply bytes_eq_dec. Defined.
Definition event_eq_dec : forall a b : event, {a = b} + {a <> b}.
Proof. decide equality. Defined.
Definition batch_type_eq_dec : forall a b : batch_type, {a = b} + {a <> b}.
Proof. decide equality. Defined.
Definition pair_eq_dec : forall a b : bytes * bytes, {a = b} + {a <> b}.
Proof. decide equality; apply bytes_eq_dec. Defined.
Definition req_eq_dec : forall a b : request, {a = b} + {a <> b}.
Proof.
  decide equality;
    first [ apply bytes_eq_dec | apply qparams_eq_dec | apply (opt_eq_dec bytes_eq_dec)
          | apply (opt_eq_dec Z.eq_dec) | apply (opt_eq_dec serial_eq_dec) | apply consistency_eq_dec
          | apply (list_eq_dec (list_eq_dec cell_eq_dec)) | apply (list_eq_dec stmt_eq_dec)
          | apply batch_type_eq_dec | apply (list_eq_dec pair_eq_dec) | apply (list_eq_dec event_eq_dec) ].
Defined.

Definition uses_mid (r : request) : bool :=
  match r with Execute _ m _ => is_some m | _ => false end.

Definition frame_says (cd : codec) (c : option comp_alg) (tracing : bool) (s : Z) (r : request) (f : bytes) : bool :=
  match parse_frame cd c (uses_mid r) f with
  | Ok (h, r') =>
      (if req_eq_dec r' r then true else false)
      && (h_version h =? 4) && (h_opcode h =? opcode r)
      && (h_length h + 9 =? blen f)
      && (h_flags h =? frame_flags (is_some c) tracing)
      && (h_stream h =? s)%Z
  | Err _ => false
  end.

(* ========================================================================================== *)
(* PART 3 — binding typed rows to a statement's columns (scylla-cql-core/src/serialize/row.rs)  *)
(* ========================================================================================== *)
(* The built-in SerializeRow impls: (), tuples (arity 1..16), &[T] / Vec<T>, BTreeMap / HashMap
   <String | &str, T> (by name), and the transparent &T / Box<T>.  How ONE value is serialised for
   ONE column type is the value codec's business (C01 / C17): here it is a parameter
   [vser : V -> T -> option cell] (None = SerializeValue::serialize failed). *)
Inductive row_err :=
| WrongColumnCount (rust_cols cql_cols : N)
| ValueMissingForColumn (name : bytes)
| NoColumnWithName (name : bytes)
| ColumnSerializationFailed (name : bytes)
| RowTooManyValues.

(* str's Ord: bytewise lexicographic *)
Fixpoint bytes_ltb (a b : bytes) : bool :=
  match a, b with
  | _, [] => false
  | [], _ :: _ => true
  | x :: a', y :: b' => (x <? y) || ((x =? y) && bytes_ltb a' b')
  end.
Fixpoint min_bytes (l : list bytes) : option bytes :=
  match l with
  | [] => None
  | x :: r => match min_bytes r with
              | None => Some x
              | Some m => Some (if bytes_ltb m x then m else x)
              end
  end.

Section Rows.
  Variables V T : Type.
  Variable vser : V -> T -> option cell.

  Inductive row :=
  | RUnit                               (* () and [u8; 0] *)
  | RSeq (vs : list V)                  (* tuples, &[T], Vec<T> *)
  | RMap (kvs : list (bytes * V)).      (* maps keyed by column name; keys distinct *)

  (* serialize_column over `ctx.columns().iter().zip(self.iter())` / the unrolled tuple fields *)
  Fixpoint ser_columns (cols : list (bytes * T)) (vs : list V) : result row_err (list cell) :=
    match cols, vs with
    | (name, t) :: cs, v :: r =>
        match vser v t with
        | None => Err (ColumnSerializationFailed name)
        | Some c => match ser_columns cs r with Ok l => Ok (c :: l) | Err e => Err e end
        end
    | _, _ => Ok []
    end.

  Fixpoint assoc (k : bytes) (kvs : list (bytes * V)) : option V :=
    match kvs with
    | [] => None
    | (k', v) :: r => if bytes_eqb k k' then Some v else assoc k r
    end.

  (* `for col in ctx.columns.iter() { match self.get(col.name()) .. }` *)
  Fixpoint ser_by_name (kvs : list (bytes * V)) (cols : list (bytes * T)) : result row_err (list cell) :=
    match cols with
    | [] => Ok []
    | (name, t) :: cs =>
        match assoc name kvs with
        | None => Err (ValueMissingForColumn name)
        | Some v =>
            match vser v t with
            | None => Err (ColumnSerializationFailed name)
            | Some c => match ser_by_name kvs cs with Ok l => Ok (c :: l) | Err e => Err e end
            end
        end
    end.

  Definition col_named (cols : list (bytes * T)) (k : bytes) : bool :=
    existsb (fun c => bytes_eqb k (fst c)) cols.

  Definition row_serialize (cols : list (bytes * T)) (r : row) : result row_err (list cell) :=
    match r with
    | RUnit =>
        match cols with
        | [] => Ok []
        | _ :: _ => Err (WrongColumnCount 0 (N.of_nat (List.length cols)))
        end
    | RSeq vs =>
        if (List.length cols =? List.length vs)%nat then ser_columns cols vs
        else Err (WrongColumnCount (N.of_nat (List.length vs)) (N.of_nat (List.length cols)))
    | RMap kvs =>
        match ser_by_name kvs cols with
        | Err e => Err e
        | Ok cells =>
            (* unused_columns: keys that no column removed; the lexicographically first is reported *)
            match min_bytes (filter (fun k => negb (col_named cols k)) (map fst kvs)) with
            | None => Ok cells
            | Some name => Err (NoColumnWithName name)
            end
        end
    end.

  (* SerializedValues::from_serializable = from_closure(|w| row.serialize(ctx, w)), then the
     `value_count().try_into::<u16>()` check *)
  Definition bind_row (cols : list (bytes * T)) (r : row) : result row_err (list cell) :=
    match row_serialize cols r with
    | Err e => Err e
    | Ok cells => if N.of_nat (List.length cells) <? 65536 then Ok cells else Err RowTooManyValues
    end.

  (* ---- specification: "bound values in order" ---- *)
  (* the value the caller supplied for the i-th bind marker, named [name] *)
  Definition supplied (r : row) (i : nat) (name : bytes) : option V :=
    match r with
    | RUnit => None
    | RSeq vs => nth_error vs i
    | RMap kvs => assoc name kvs
    end.
  (* the value list is exactly the caller's values, one per bind marker, in marker order *)
  Definition row_binds (cols : list (bytes * T)) (r : row) (cells : list cell) : Prop :=
    List.length cells = List.length cols /\
    forall i name t, nth_error cols i = Some (name, t) ->
      exists v c, supplied r i name = Some v /\ vser v t = Some c /\ nth_error cells i = Some c.
  (* nothing the caller supplied is dropped *)
  Definition row_complete (cols : list (bytes * T)) (r : row) : Prop :=
    match r with
    | RUnit => True
    | RSeq vs => List.length vs = List.length cols
    | RMap kvs => forall k, In k (map fst kvs) -> col_named cols k = true
    end.
End Rows.
Arguments RUnit {V}.
Arguments RSeq {V} _.
Arguments RMap {V} _.

(* ---- a small concrete value universe for the tie (real i32 / String / Vec<u8> / Option / Unset
   bound to int / text / blob columns); the general theorems do not depend on it ---- *)
Inductive mval := MInt (z : Z) | MText (b : bytes) | MBlob (b : bytes) | MNull | MUnset.
Inductive mty := TInt | TText | TBlob.
Definition mini_ser (v : mval) (t : mty) : option cell :=
  match v, t with
  | MInt z, TInt => Some (CVal (sbe 4 z))        (* exact_type_check!(typ, Int) *)
  (* String / Vec<u8>: type check, then CellWriter::set_value (CellOverflowError from 2^31 bytes on) *)
  | MText b, TText => if blen b <? 2147483648 then Some (CVal b) else None
  | MBlob b, TBlob => if blen b <? 2147483648 then Some (CVal b) else None
  | MNull, _ => Some CNull                       (* Option::None: set_null, no type check *)
  | MUnset, _ => Some CUnset
  | _, _ => None
  end.

(* ---- the 2^31 boundaries ([long string], [bytes], value cells): the tie's `G` cases ------------ *)
(* One component [x] of a request is made huge (untouched zero bytes in the runner); everything
   else is minimal.  [big_outcome k n] is what the code does for |x| = n, sizes only: Ok body-size
   or the refusal class (Request_proofs.int_boundary). *)
Inductive big_kind := BigPrepare | BigQuery | BigAuth | BigCell | BigBatch.
Definition plain_params (vals : list cell) : qparams := mkQP One None None None None false vals.
Definition big_request (k : big_kind) (x : bytes) : request :=
  match k with
  | BigPrepare => Prepare x
  | BigQuery => Query x (plain_params [])
  | BigAuth => AuthResponse (Some x)
  | BigCell => Query [] (plain_params [CVal x])
  | BigBatch => Batch Logged [SQuery x] [[]] One None None
  end.
Definition big_err (k : big_kind) : ser_err :=
  match k with
  | BigPrepare => ErrPrepareString
  | BigQuery => ErrQueryString
  | BigAuth => ErrAuthResponse
  | BigCell => ErrCellOverflow
  | BigBatch => ErrBatchStatement 0 StmtString
  end.
Definition big_body_len (k : big_kind) (n : N) : N :=
  match k with
  | BigPrepare => 4 + n
  | BigQuery => 4 + n + 3
  | BigAuth => 4 + n
  | BigCell => 4 + 3 + 2 + 4 + n
  | BigBatch => batch_body_len 1 n
  end.
Definition big_outcome (k : big_kind) (n : N) : result ser_err N :=
  if n <? 2147483648 then Ok (big_body_len k n) else Err (big_err k).

(* ---- the value codec of C01 (Model/Cql.v) as an instance of [vser] ------------------------------ *)
(* A bind marker of column type t receives a Cql.cell (null / unset / a CqlValue); the contents of
   the resulting [value] are what C01's ser_value writes into a sized CellWriter. *)
Definition c01_vser (c : Cql.cell) (t : Cql.ctype) : option cell :=
  match c with
  | Cql.CNull => Some CNull
  | Cql.CUnset => Some CUnset
  | Cql.CVal v => match Cql.ser_value true t v with Ok b => Some (CVal b) | Err _ => None end
  end.
(* the tie's carriers and column types inside C01's universe *)
Definition mval_cell (v : mval) : Cql.cell :=
  match v with
  | MInt z => Cql.CVal (Cql.CInt z)
  | MText b => Cql.CVal (Cql.CText b)
  | MBlob b => Cql.CVal (Cql.CBlob b)
  | MNull => Cql.CNull
  | MUnset => Cql.CUnset
  end.
Definition mty_ctype (t : mty) : Cql.ctype :=
  Cql.TNative match t with TInt => Cql.NInt | TText => Cql.NText | TBlob => Cql.NBlob end.

(* ========================================================================================== *)
(* UTF-8 specified independently of Cql.utf8_valid (proof only; nothing here is extracted)    *)
(* ========================================================================================== *)
(* RFC 3629 section 4 / Unicode table 3-7 "Well-Formed UTF-8 Byte Sequences", row by row *)
Definition utail (x : N) : Prop := 128 <= x <= 191.
Inductive utf8_wf : bytes -> Prop :=
| wf_nil : utf8_wf []
| wf_ascii x r : x <= 127 -> utf8_wf r -> utf8_wf (x :: r)                                  (* 00..7F *)
| wf_2 x c1 r : 194 <= x <= 223 -> utail c1 -> utf8_wf r -> utf8_wf (x :: c1 :: r)          (* C2..DF 80..BF *)
| wf_e0 c1 c2 r : 160 <= c1 <= 191 -> utail c2 -> utf8_wf r -> utf8_wf (224 :: c1 :: c2 :: r)             (* E0 A0..BF 80..BF *)
| wf_e1 x c1 c2 r : 225 <= x <= 236 -> utail c1 -> utail c2 -> utf8_wf r -> utf8_wf (x :: c1 :: c2 :: r)  (* E1..EC 80..BF 80..BF *)
| wf_ed c1 c2 r : 128 <= c1 <= 159 -> utail c2 -> utf8_wf r -> utf8_wf (237 :: c1 :: c2 :: r)             (* ED 80..9F 80..BF *)
| wf_ee x c1 c2 r : 238 <= x <= 239 -> utail c1 -> utail c2 -> utf8_wf r -> utf8_wf (x :: c1 :: c2 :: r)  (* EE..EF 80..BF 80..BF *)
| wf_f0 c1 c2 c3 r : 144 <= c1 <= 191 -> utail c2 -> utail c3 -> utf8_wf r ->
                     utf8_wf (240 :: c1 :: c2 :: c3 :: r)                                                 (* F0 90..BF 80..BF 80..BF *)
| wf_f1 x c1 c2 c3 r : 241 <= x <= 243 -> utail c1 -> utail c2 -> utail c3 -> utf8_wf r ->
                       utf8_wf (x :: c1 :: c2 :: c3 :: r)                                                 (* F1..F3 80..BF 80..BF 80..BF *)
| wf_f4 c1 c2 c3 r : 128 <= c1 <= 143 -> utail c2 -> utail c3 -> utf8_wf r ->
                     utf8_wf (244 :: c1 :: c2 :: c3 :: r).                                                (* F4 80..8F 80..BF 80..BF *)

(* RFC 3629 section 3, the definition of UTF-8: a sequence of Unicode scalar values (U+0000..U+10FFFF
   without the surrogates U+D800..U+DFFF), each encoded in the shortest of the four forms *)
Definition scalar (c : N) : Prop := c < 55296 \/ (57343 < c /\ c <= 1114111).
Definition utf8_enc (c : N) : bytes :=
  if c <? 128 then [c]                                                      (* 0xxxxxxx *)
  else if c <? 2048 then [192 + c / 64; 128 + c mod 64]                     (* 110xxxxx 10xxxxxx *)
  else if c <? 65536 then [224 + c / 4096; 128 + (c / 64) mod 64; 128 + c mod 64]   (* 1110xxxx 10xxxxxx 10xxxxxx *)
  else [240 + c / 262144; 128 + (c / 4096) mod 64; 128 + (c / 64) mod 64; 128 + c mod 64].
Definition utf8_of (cs : list N) : bytes := List.concat (map utf8_enc cs).
(* "b is the UTF-8 encoding of some text" *)
Definition text_rfc (b : bytes) : Prop := exists cs, Forall scalar cs /\ b = utf8_of cs.

Definition stmt_wf_rfc (s : stmt) : Prop := match s with SQuery t => text_rfc t | SPrepared _ => True end.
(* the texts of a request are UTF-8 in that sense *)
Definition req_texts_rfc (r : request) : Prop :=
  match r with
  | Query t _ => text_rfc t
  | Prepare t => text_rfc t
  | Batch _ stmts _ _ _ _ => Forall stmt_wf_rfc stmts
  | Startup opts => Forall (fun kv => text_rfc (fst kv) /\ text_rfc (snd kv)) opts
  | _ => True
  end.
(* [req_wf] with the independent UTF-8 specification in place of Cql.utf8_valid *)
Definition req_wf_rfc (r : request) : Prop :=
  req_texts_rfc r /\
  match r with
  | Query _ p => qparams_wf p
  | Execute _ _ p => qparams_wf p
  | Batch _ _ _ _ _ ts => opt_ok i64_ok ts
  | _ => True
  end.
