//! Cluster description (nodes, keyspaces, tables) and the synthesised `system.*` /
//! `system_schema.*` tables the driver's control connection reads.
use super::types::*;
use std::collections::BTreeMap;
use std::net::{IpAddr, Ipv4Addr};
use uuid::Uuid;

#[derive(Clone, Debug, PartialEq, Eq)]
pub struct NodeSpec {
    pub host_id: Uuid,
    pub dc: String,
    pub rack: String,
    pub tokens: Vec<i64>,
    /// 0 = the node does not advertise sharding (Cassandra-like); otherwise SCYLLA_NR_SHARDS
    pub nr_shards: u16,
    pub msb_ignore: u8,
    /// per-node override of `ServerOptions.metadata_id_ext` (None = use the cluster-wide option);
    /// for mixed-version clusters
    pub metadata_id_ext: Option<bool>,
}

/// Run-time overrides per node that are not part of `NodeSpec` (kept apart so that `NodeSpec` literals in
/// existing runners keep compiling): see `MockCluster::{remove_node, set_node_location}`.
#[derive(Clone, Debug, Default, PartialEq, Eq)]
pub struct NodeOverride {
    /// the node left the cluster: the other nodes' `system.peers` omit it
    pub hidden: bool,
    /// `data_center` is a null cell in system.local / system.peers
    pub null_dc: bool,
    /// `rack` is a null cell in system.local / system.peers
    pub null_rack: bool,
}

impl NodeSpec {
    pub fn new(idx: usize, dc: &str, rack: &str, tokens: Vec<i64>, nr_shards: u16) -> NodeSpec {
        NodeSpec { host_id: host_id_for(idx), dc: dc.into(), rack: rack.into(), tokens, nr_shards, msb_ignore: 12, metadata_id_ext: None }
    }
    pub fn with_metadata_id_ext(mut self, on: bool) -> NodeSpec {
        self.metadata_id_ext = Some(on);
        self
    }
}

/// Deterministic host id of node `idx` (so that traces are comparable between runs).
pub fn host_id_for(idx: usize) -> Uuid {
    Uuid::from_u128(0x4d4f434b_0000_4000_8000_000000000000u128 + idx as u128 + 1)
}

#[derive(Clone, Copy, Debug, PartialEq, Eq)]
pub enum ColumnKind {
    PartitionKey,
    Clustering,
    Regular,
    Static,
}
impl ColumnKind {
    pub fn as_str(&self) -> &'static str {
        match self {
            ColumnKind::PartitionKey => "partition_key",
            ColumnKind::Clustering => "clustering",
            ColumnKind::Regular => "regular",
            ColumnKind::Static => "static",
        }
    }
}

#[derive(Clone, Debug, PartialEq, Eq)]
pub struct ColumnDef {
    pub name: String,
    pub kind: ColumnKind,
    /// position inside the partition / clustering key; -1 for regular and static columns
    pub position: i32,
    pub typ: CqlType,
}

#[derive(Clone, Debug, PartialEq, Eq)]
pub struct TableDef {
    pub name: String,
    pub columns: Vec<ColumnDef>,
    /// `system_schema.scylla_tables.partitioner` (None = null = default murmur3)
    pub partitioner: Option<String>,
    /// Some(base) makes it a materialized view of `base` (listed in system_schema.views)
    pub view_of: Option<String>,
}

impl TableDef {
    /// Table with the given partition key, clustering key and regular columns (in this order).
    pub fn new(name: &str, pk: &[(&str, CqlType)], ck: &[(&str, CqlType)], regular: &[(&str, CqlType)]) -> TableDef {
        let mut columns = Vec::new();
        for (i, (n, t)) in pk.iter().enumerate() {
            columns.push(ColumnDef { name: n.to_string(), kind: ColumnKind::PartitionKey, position: i as i32, typ: t.clone() });
        }
        for (i, (n, t)) in ck.iter().enumerate() {
            columns.push(ColumnDef { name: n.to_string(), kind: ColumnKind::Clustering, position: i as i32, typ: t.clone() });
        }
        for (n, t) in regular {
            columns.push(ColumnDef { name: n.to_string(), kind: ColumnKind::Regular, position: -1, typ: t.clone() });
        }
        TableDef { name: name.into(), columns, partitioner: None, view_of: None }
    }
    pub fn col_spec(&self, keyspace: &str, column: &str) -> Option<ColSpec> {
        self.columns.iter().find(|c| c.name == column).map(|c| ColSpec::new(keyspace, &self.name, &c.name, c.typ.clone()))
    }
    /// A PreparedSpec for a statement on this table binding `bind` columns (in marker order) and
    /// returning `result` columns; pk indexes are computed from the table's partition key (empty
    /// when some partition key column is not bound).
    pub fn prepared(&self, keyspace: &str, bind: &[&str], result: &[&str]) -> PreparedSpec {
        let bind_columns: Vec<ColSpec> = bind.iter().filter_map(|c| self.col_spec(keyspace, c)).collect();
        let result_columns: Vec<ColSpec> = result.iter().filter_map(|c| self.col_spec(keyspace, c)).collect();
        let mut pk: Vec<&ColumnDef> = self.columns.iter().filter(|c| c.kind == ColumnKind::PartitionKey).collect();
        pk.sort_by_key(|c| c.position);
        let mut pk_indexes = Vec::new();
        for c in &pk {
            match bind.iter().position(|b| *b == c.name) {
                Some(i) => pk_indexes.push(i as u16),
                None => {
                    pk_indexes.clear();
                    break;
                }
            }
        }
        PreparedSpec { bind_columns, pk_indexes, result_columns, ..Default::default() }
    }
}

#[derive(Clone, Debug, PartialEq, Eq)]
pub struct UdtDef {
    pub name: String,
    pub fields: Vec<(String, CqlType)>,
}

#[derive(Clone, Debug, PartialEq, Eq)]
pub struct KeyspaceDef {
    pub name: String,
    /// the `replication` map of system_schema.keyspaces, including "class"
    pub replication: Vec<(String, String)>,
    pub durable_writes: bool,
    /// Some(n) = tablet-based keyspace (`system_schema.scylla_keyspaces.initial_tablets`)
    pub initial_tablets: Option<i32>,
    pub tables: Vec<TableDef>,
    pub udts: Vec<UdtDef>,
}

impl KeyspaceDef {
    pub fn simple(name: &str, rf: u32) -> KeyspaceDef {
        KeyspaceDef {
            name: name.into(),
            replication: vec![
                ("class".into(), "org.apache.cassandra.locator.SimpleStrategy".into()),
                ("replication_factor".into(), rf.to_string()),
            ],
            durable_writes: true,
            initial_tablets: None,
            tables: vec![],
            udts: vec![],
        }
    }
    pub fn nts(name: &str, dc_rf: &[(&str, u32)]) -> KeyspaceDef {
        let mut replication = vec![("class".to_string(), "org.apache.cassandra.locator.NetworkTopologyStrategy".to_string())];
        for (dc, rf) in dc_rf {
            replication.push((dc.to_string(), rf.to_string()));
        }
        KeyspaceDef { name: name.into(), replication, durable_writes: true, initial_tablets: None, tables: vec![], udts: vec![] }
    }
    pub fn with_table(mut self, t: TableDef) -> KeyspaceDef {
        self.tables.push(t);
        self
    }
    pub fn with_tablets(mut self, initial: i32) -> KeyspaceDef {
        self.initial_tablets = Some(initial);
        self
    }
    pub fn table(&self, name: &str) -> Option<&TableDef> {
        self.tables.iter().find(|t| t.name == name)
    }
}

/// What the nodes advertise in SUPPORTED and how they listen.
#[derive(Clone, Debug, PartialEq, Eq)]
pub struct ServerOptions {
    /// plain CQL port (the same on every node: the driver connects to peers on the contact point's port)
    pub port: u16,
    /// shard-aware port; None = not advertised, not listened on
    pub shard_aware_port: Option<u16>,
    /// advertise SCYLLA_LWT_ADD_METADATA_MARK with this mask
    pub lwt_mark: Option<u32>,
    /// advertise TABLETS_ROUTING_V1
    pub tablets_ext: bool,
    /// advertise SCYLLA_USE_METADATA_ID
    pub metadata_id_ext: bool,
    /// advertise SCYLLA_RATE_LIMIT_ERROR with this error code
    pub rate_limit_error: Option<i32>,
    /// COMPRESSION list of SUPPORTED. NOTE: the mock cannot (de)compress; leave empty unless the
    /// client is configured without compression.
    pub compression: Vec<String>,
    pub partitioner: String,
    /// false = `system_schema.scylla_tables` / `scylla_keyspaces` do not exist (answer Invalid), as on Cassandra
    pub scylla_tables: bool,
    /// extra SUPPORTED entries (override the generated ones)
    pub extra_supported: Vec<(String, Vec<String>)>,
    /// frames with a body longer than this are refused
    pub max_body: usize,
}

impl Default for ServerOptions {
    fn default() -> Self {
        ServerOptions {
            port: 9042,
            shard_aware_port: Some(19042),
            lwt_mark: Some(0x8000_0000),
            tablets_ext: true,
            metadata_id_ext: false,
            rate_limit_error: None,
            compression: vec![],
            partitioner: "org.apache.cassandra.dht.Murmur3Partitioner".into(),
            scylla_tables: true,
            extra_supported: vec![],
            max_body: 64 << 20,
        }
    }
}

/// An additional table answered like the system tables (SELECT with column projection).
#[derive(Clone, Debug, PartialEq, Eq)]
pub struct ExtraTable {
    /// qualified lower-case name, e.g. "system.client_routes"
    pub name: String,
    pub columns: Vec<(String, CqlType)>,
    pub rows: Vec<Vec<Cell>>,
}

#[derive(Clone, Debug, PartialEq, Eq)]
pub struct ClusterSpec {
    pub name: String,
    /// third octet of the nodes' addresses 127.0.<cluster_id>.<node+1>; None = pick a free one
    pub cluster_id: Option<u8>,
    pub nodes: Vec<NodeSpec>,
    pub keyspaces: Vec<KeyspaceDef>,
    pub options: ServerOptions,
    pub schema_version: Uuid,
    pub extra_tables: Vec<ExtraTable>,
}

impl ClusterSpec {
    /// `dcs` = list of (dc name, number of nodes); every node gets `tokens_per_node` evenly spread
    /// tokens, rack "r1".."r<racks>" round-robin and `nr_shards` shards.
    pub fn uniform(name: &str, dcs: &[(&str, usize)], racks: usize, tokens_per_node: usize, nr_shards: u16) -> ClusterSpec {
        let total: usize = dcs.iter().map(|d| d.1).sum();
        let mut nodes = Vec::new();
        let mut idx = 0usize;
        let slots = (total * tokens_per_node).max(1) as i128;
        for (dc, n) in dcs {
            for k in 0..*n {
                let tokens = (0..tokens_per_node)
                    .map(|t| {
                        let slot = (t * total + idx) as i128;
                        (i64::MIN as i128 + 1 + slot * ((1i128 << 64) - 2) / slots) as i64
                    })
                    .collect();
                nodes.push(NodeSpec::new(idx, dc, &format!("r{}", k % racks.max(1) + 1), tokens, nr_shards));
                idx += 1;
            }
        }
        ClusterSpec {
            name: name.into(),
            cluster_id: None,
            nodes,
            keyspaces: vec![],
            options: ServerOptions::default(),
            schema_version: Uuid::from_u128(0x5c4e3a00_0000_4000_8000_000000000001),
            extra_tables: vec![],
        }
    }
    pub fn with_keyspace(mut self, ks: KeyspaceDef) -> ClusterSpec {
        self.keyspaces.push(ks);
        self
    }
    pub fn keyspace(&self, name: &str) -> Option<&KeyspaceDef> {
        self.keyspaces.iter().find(|k| k.name == name)
    }
    pub fn node_ip(cluster_id: u8, node: usize) -> IpAddr {
        IpAddr::V4(Ipv4Addr::new(127, 0, cluster_id, (node + 1) as u8))
    }
}

// ------------------------------------------------------------------------------------------
// system tables
// ------------------------------------------------------------------------------------------

pub struct SysTable {
    pub keyspace: String,
    pub table: String,
    pub columns: Vec<(String, CqlType)>,
    pub rows: Vec<Vec<Cell>>,
}

fn tokens_cell(tokens: &[i64]) -> Cell {
    cell::text_list(&tokens.iter().map(|t| t.to_string()).collect::<Vec<_>>())
}

/// The system table `qualified` ("system.local", ...) as seen from node `node`; `None` = unknown.
pub fn system_table(spec: &ClusterSpec, cluster_id: u8, node: usize, qualified: &str, ov: &[NodeOverride]) -> Option<SysTable> {
    use CqlType::*;
    let q = qualified.to_ascii_lowercase();
    let (ks, tb) = q.split_once('.')?;
    let t = |columns: Vec<(&str, CqlType)>, rows: Vec<Vec<Cell>>| {
        Some(SysTable {
            keyspace: ks.to_string(),
            table: tb.to_string(),
            columns: columns.into_iter().map(|(n, t)| (n.to_string(), t)).collect(),
            rows,
        })
    };
    let o = |i: usize| ov.get(i).cloned().unwrap_or_default();
    match q.as_str() {
        "system.local" => {
            let n = &spec.nodes[node];
            let ip = ClusterSpec::node_ip(cluster_id, node);
            t(
                vec![
                    ("key", Text),
                    ("host_id", Uuid),
                    ("rpc_address", Inet),
                    ("broadcast_address", Inet),
                    ("listen_address", Inet),
                    ("data_center", Text),
                    ("rack", Text),
                    ("tokens", CqlType::set(Text)),
                    ("cluster_name", Text),
                    ("schema_version", Uuid),
                    ("partitioner", Text),
                    ("release_version", Text),
                    ("cql_version", Text),
                    ("native_protocol_version", Text),
                    ("bootstrapped", Text),
                ],
                vec![vec![
                    cell::text("local"),
                    cell::uuid(n.host_id),
                    cell::inet(ip),
                    cell::inet(ip),
                    cell::inet(ip),
                    if o(node).null_dc { None } else { cell::text(&n.dc) },
                    if o(node).null_rack { None } else { cell::text(&n.rack) },
                    tokens_cell(&n.tokens),
                    cell::text(&spec.name),
                    cell::uuid(spec.schema_version),
                    cell::text(&spec.options.partitioner),
                    cell::text("3.0.8"),
                    cell::text("3.3.1"),
                    cell::text("4"),
                    cell::text("COMPLETED"),
                ]],
            )
        }
        "system.peers" => {
            let mut rows = Vec::new();
            for (i, n) in spec.nodes.iter().enumerate() {
                if i == node || o(i).hidden {
                    continue;
                }
                let ip = ClusterSpec::node_ip(cluster_id, i);
                rows.push(vec![
                    cell::inet(ip),
                    cell::uuid(n.host_id),
                    cell::inet(ip),
                    cell::inet(ip),
                    if o(i).null_dc { None } else { cell::text(&n.dc) },
                    if o(i).null_rack { None } else { cell::text(&n.rack) },
                    tokens_cell(&n.tokens),
                    cell::uuid(spec.schema_version),
                    cell::text("3.0.8"),
                ]);
            }
            t(
                vec![
                    ("peer", Inet),
                    ("host_id", Uuid),
                    ("rpc_address", Inet),
                    ("preferred_ip", Inet),
                    ("data_center", Text),
                    ("rack", Text),
                    ("tokens", CqlType::set(Text)),
                    ("schema_version", Uuid),
                    ("release_version", Text),
                ],
                rows,
            )
        }
        "system_schema.keyspaces" => t(
            vec![("keyspace_name", Text), ("durable_writes", Boolean), ("replication", CqlType::map(Text, Text))],
            spec.keyspaces
                .iter()
                .map(|k| vec![cell::text(&k.name), cell::boolean(k.durable_writes), cell::text_map(&k.replication)])
                .collect(),
        ),
        "system_schema.tables" => t(
            vec![("keyspace_name", Text), ("table_name", Text)],
            spec.keyspaces
                .iter()
                .flat_map(|k| k.tables.iter().filter(|t| t.view_of.is_none()).map(move |tb| vec![cell::text(&k.name), cell::text(&tb.name)]))
                .collect(),
        ),
        "system_schema.views" => t(
            vec![("keyspace_name", Text), ("view_name", Text), ("base_table_name", Text)],
            spec.keyspaces
                .iter()
                .flat_map(|k| {
                    k.tables
                        .iter()
                        .filter_map(move |tb| tb.view_of.as_ref().map(|b| vec![cell::text(&k.name), cell::text(&tb.name), cell::text(b)]))
                })
                .collect(),
        ),
        "system_schema.columns" => t(
            vec![
                ("keyspace_name", Text),
                ("table_name", Text),
                ("column_name", Text),
                ("clustering_order", Text),
                ("kind", Text),
                ("position", Int),
                ("type", Text),
            ],
            spec.keyspaces
                .iter()
                .flat_map(|k| {
                    k.tables.iter().flat_map(move |tb| {
                        tb.columns.iter().map(move |c| {
                            vec![
                                cell::text(&k.name),
                                cell::text(&tb.name),
                                cell::text(&c.name),
                                cell::text(if c.kind == ColumnKind::Clustering { "asc" } else { "none" }),
                                cell::text(c.kind.as_str()),
                                cell::int(c.position),
                                cell::text(&c.typ.cql_name()),
                            ]
                        })
                    })
                })
                .collect(),
        ),
        "system_schema.types" => t(
            vec![
                ("keyspace_name", Text),
                ("type_name", Text),
                ("field_names", CqlType::list(Text)),
                ("field_types", CqlType::list(Text)),
            ],
            spec.keyspaces
                .iter()
                .flat_map(|k| {
                    k.udts.iter().map(move |u| {
                        vec![
                            cell::text(&k.name),
                            cell::text(&u.name),
                            cell::text_list(&u.fields.iter().map(|f| f.0.clone()).collect::<Vec<_>>()),
                            cell::text_list(&u.fields.iter().map(|f| f.1.cql_name()).collect::<Vec<_>>()),
                        ]
                    })
                })
                .collect(),
        ),
        "system_schema.scylla_tables" if spec.options.scylla_tables => t(
            vec![("keyspace_name", Text), ("table_name", Text), ("partitioner", Text)],
            spec.keyspaces
                .iter()
                .flat_map(|k| {
                    k.tables.iter().map(move |tb| {
                        vec![cell::text(&k.name), cell::text(&tb.name), tb.partitioner.as_deref().map(|p| p.as_bytes().to_vec())]
                    })
                })
                .collect(),
        ),
        "system_schema.scylla_keyspaces" if spec.options.scylla_tables => t(
            vec![("keyspace_name", Text), ("initial_tablets", Int)],
            spec.keyspaces.iter().map(|k| vec![cell::text(&k.name), k.initial_tablets.and_then(cell::int)]).collect(),
        ),
        "system.client_routes" => t(
            vec![("connection_id", Text), ("host_id", Uuid), ("address", Text), ("port", Int), ("tls_port", Int)],
            vec![],
        ),
        _ => None,
    }
}

/// A parsed `SELECT <cols> FROM <ks.table> [WHERE ...]`.
#[derive(Clone, Debug, PartialEq, Eq)]
pub struct Select {
    pub columns: Vec<String>,
    /// lower-case qualified table name
    pub table: String,
    /// lower-case remainder after the table name (WHERE clause etc.)
    pub rest: String,
    /// number of `?` markers
    pub markers: usize,
}

/// Strips the ` USING TIMEOUT <n>ms` suffix the control connection appends on ScyllaDB.
pub fn strip_using_timeout(text: &str) -> &str {
    if let Some(i) = text.rfind(" USING TIMEOUT ") {
        let tail = &text[i + " USING TIMEOUT ".len()..];
        if tail.ends_with("ms") && tail[..tail.len() - 2].chars().all(|c| c.is_ascii_digit()) {
            return &text[..i];
        }
    }
    text
}

pub fn parse_select(text: &str) -> Option<Select> {
    let t = strip_using_timeout(text.trim());
    let lower = t.to_ascii_lowercase();
    if !lower.starts_with("select ") {
        return None;
    }
    let from = lower.find(" from ")?;
    let cols: Vec<String> = t[7..from].split(',').map(|c| c.trim().to_string()).filter(|c| !c.is_empty()).collect();
    let after = lower[from + 6..].trim_start();
    let end = after.find(|c: char| c.is_whitespace()).unwrap_or(after.len());
    let table = after[..end].to_string();
    let rest = after[end..].trim().to_string();
    Some(Select { columns: cols, table, markers: rest.matches('?').count(), rest })
}

/// Bind-marker metadata of the driver's filtered metadata statements.
pub fn system_bind_columns(sel: &Select) -> Vec<ColSpec> {
    let (ks, tb) = sel.table.split_once('.').unwrap_or(("", &sel.table));
    let mut out = Vec::new();
    let rest = sel.rest.as_str();
    // markers in textual order
    let mut pos: Vec<(usize, ColSpec)> = Vec::new();
    for (pat, name, typ) in [
        ("keyspace_name in ?", "keyspace_name", CqlType::list(CqlType::Text)),
        ("connection_id in ?", "connection_id", CqlType::list(CqlType::Text)),
        ("host_id in ?", "host_id", CqlType::list(CqlType::Uuid)),
    ] {
        if let Some(i) = rest.find(pat) {
            pos.push((i, ColSpec::new(ks, tb, &format!("in({})", name), typ)));
        }
    }
    pos.sort_by_key(|p| p.0);
    for (_, c) in pos {
        out.push(c);
    }
    while out.len() < sel.markers {
        out.push(ColSpec::new(ks, tb, &format!("p{}", out.len()), CqlType::Blob));
    }
    out
}

/// Result of answering a SELECT on a system table.
pub enum SysAnswer {
    Rows { columns: Vec<ColSpec>, rows: Vec<Vec<Cell>> },
    /// table does not exist on this kind of server (scylla_* on Cassandra): Invalid
    NoSuchTable,
}

/// Answers `sel` from the cluster description (projection + the IN filters the driver uses).
/// Unknown tables in the system keyspaces give an empty result whose columns are typed `text`.
pub fn answer_system_select(
    spec: &ClusterSpec,
    cluster_id: u8,
    node: usize,
    sel: &Select,
    values: &[super::wire::Value],
    ov: &[NodeOverride],
) -> Option<SysAnswer> {
    let (ks, tb) = sel.table.split_once('.')?;
    if ks != "system" && ks != "system_schema" {
        // extra tables may live anywhere
        let x = spec.extra_tables.iter().find(|x| x.name == sel.table)?;
        return Some(project(ks, tb, &x.columns, &x.rows, sel, values));
    }
    if let Some(x) = spec.extra_tables.iter().find(|x| x.name == sel.table) {
        return Some(project(ks, tb, &x.columns, &x.rows, sel, values));
    }
    if !spec.options.scylla_tables && (sel.table == "system_schema.scylla_tables" || sel.table == "system_schema.scylla_keyspaces") {
        return Some(SysAnswer::NoSuchTable);
    }
    match system_table(spec, cluster_id, node, &sel.table, ov) {
        Some(t) => Some(project(ks, tb, &t.columns, &t.rows, sel, values)),
        None => Some(SysAnswer::Rows {
            columns: sel.columns.iter().map(|c| ColSpec::new(ks, tb, c, CqlType::Text)).collect(),
            rows: vec![],
        }),
    }
}

fn project(ks: &str, tb: &str, columns: &[(String, CqlType)], rows: &[Vec<Cell>], sel: &Select, values: &[super::wire::Value]) -> SysAnswer {
    // filters
    let binds = system_bind_columns(sel);
    let mut filters: Vec<(usize, Vec<Vec<u8>>)> = Vec::new();
    for (i, b) in binds.iter().enumerate() {
        if let Some(name) = b.name.strip_prefix("in(").and_then(|n| n.strip_suffix(')')) {
            if let (Some(ci), Some(v)) = (columns.iter().position(|c| c.0 == name), values.get(i).and_then(|v| v.as_bytes())) {
                if let Some(l) = uncell::bytes_list(v) {
                    filters.push((ci, l));
                }
            }
        }
    }
    let star = sel.columns.len() == 1 && sel.columns[0] == "*";
    let idx: Vec<Option<usize>> = if star {
        (0..columns.len()).map(Some).collect()
    } else {
        sel.columns.iter().map(|c| columns.iter().position(|x| x.0.eq_ignore_ascii_case(c))).collect()
    };
    let out_cols: Vec<ColSpec> = if star {
        columns.iter().map(|c| ColSpec::new(ks, tb, &c.0, c.1.clone())).collect()
    } else {
        sel.columns
            .iter()
            .zip(&idx)
            .map(|(name, i)| match i {
                Some(i) => ColSpec::new(ks, tb, &columns[*i].0, columns[*i].1.clone()),
                None => ColSpec::new(ks, tb, name, CqlType::Text),
            })
            .collect()
    };
    let out_rows = rows
        .iter()
        .filter(|r| filters.iter().all(|(ci, allowed)| r[*ci].as_ref().is_some_and(|v| allowed.iter().any(|a| a == v))))
        .map(|r| idx.iter().map(|i| i.and_then(|i| r[i].clone())).collect())
        .collect();
    SysAnswer::Rows { columns: out_cols, rows: out_rows }
}

/// SUPPORTED options of a connection of `node` whose server-side shard is `shard`.
pub fn supported_options(spec: &ClusterSpec, node: usize, shard: u16) -> BTreeMap<String, Vec<String>> {
    let o = &spec.options;
    let n = &spec.nodes[node];
    let mut m: BTreeMap<String, Vec<String>> = BTreeMap::new();
    m.insert("CQL_VERSION".into(), vec!["3.3.1".into()]);
    m.insert("COMPRESSION".into(), o.compression.clone());
    if n.nr_shards > 0 {
        m.insert("SCYLLA_SHARD".into(), vec![shard.to_string()]);
        m.insert("SCYLLA_NR_SHARDS".into(), vec![n.nr_shards.to_string()]);
        m.insert("SCYLLA_SHARDING_IGNORE_MSB".into(), vec![n.msb_ignore.to_string()]);
        m.insert("SCYLLA_PARTITIONER".into(), vec![o.partitioner.clone()]);
        m.insert("SCYLLA_SHARDING_ALGORITHM".into(), vec!["biased-token-round-robin".into()]);
        if let Some(p) = o.shard_aware_port {
            m.insert("SCYLLA_SHARD_AWARE_PORT".into(), vec![p.to_string()]);
        }
    }
    if let Some(mask) = o.lwt_mark {
        m.insert("SCYLLA_LWT_ADD_METADATA_MARK".into(), vec![format!("LWT_OPTIMIZATION_META_BIT_MASK={}", mask)]);
    }
    if o.tablets_ext {
        m.insert("TABLETS_ROUTING_V1".into(), vec!["".into()]);
    }
    if n.metadata_id_ext.unwrap_or(o.metadata_id_ext) {
        m.insert("SCYLLA_USE_METADATA_ID".into(), vec!["".into()]);
    }
    if let Some(c) = o.rate_limit_error {
        m.insert("SCYLLA_RATE_LIMIT_ERROR".into(), vec![format!("ERROR_CODE={}", c)]);
    }
    for (k, v) in &o.extra_supported {
        m.insert(k.clone(), v.clone());
    }
    m
}
