//! mocknode's OWN CQL v4 wire layer: frame reader/writer, primitive encoders/decoders and
//! decoders for the request bodies (STARTUP, REGISTER, QUERY, PREPARE, EXECUTE, BATCH).
//!
//! Nothing in this file uses scylla-cql: it is written from the native protocol v4 specification
//! (+ the ScyllaDB extensions) so that a misconception in the driver's codec cannot cancel out.
use std::collections::BTreeMap;
use tokio::io::{AsyncRead, AsyncReadExt};

pub const HEADER_LEN: usize = 9;

pub mod op {
    pub const ERROR: u8 = 0x00;
    pub const STARTUP: u8 = 0x01;
    pub const READY: u8 = 0x02;
    pub const AUTHENTICATE: u8 = 0x03;
    pub const OPTIONS: u8 = 0x05;
    pub const SUPPORTED: u8 = 0x06;
    pub const QUERY: u8 = 0x07;
    pub const RESULT: u8 = 0x08;
    pub const PREPARE: u8 = 0x09;
    pub const EXECUTE: u8 = 0x0A;
    pub const REGISTER: u8 = 0x0B;
    pub const EVENT: u8 = 0x0C;
    pub const BATCH: u8 = 0x0D;
    pub const AUTH_CHALLENGE: u8 = 0x0E;
    pub const AUTH_RESPONSE: u8 = 0x0F;
    pub const AUTH_SUCCESS: u8 = 0x10;

    pub fn name(o: u8) -> &'static str {
        match o {
            ERROR => "ERROR",
            STARTUP => "STARTUP",
            READY => "READY",
            AUTHENTICATE => "AUTHENTICATE",
            OPTIONS => "OPTIONS",
            SUPPORTED => "SUPPORTED",
            QUERY => "QUERY",
            RESULT => "RESULT",
            PREPARE => "PREPARE",
            EXECUTE => "EXECUTE",
            REGISTER => "REGISTER",
            EVENT => "EVENT",
            BATCH => "BATCH",
            AUTH_CHALLENGE => "AUTH_CHALLENGE",
            AUTH_RESPONSE => "AUTH_RESPONSE",
            AUTH_SUCCESS => "AUTH_SUCCESS",
            _ => "?",
        }
    }
}

/// Frame header flags.
pub mod flag {
    pub const COMPRESSION: u8 = 0x01;
    pub const TRACING: u8 = 0x02;
    pub const CUSTOM_PAYLOAD: u8 = 0x04;
    pub const WARNING: u8 = 0x08;
}

/// Version byte of a response frame of protocol v4 (direction bit set).
pub const VERSION_RESPONSE: u8 = 0x84;
/// Version byte of a request frame of protocol v4.
pub const VERSION_REQUEST: u8 = 0x04;

#[derive(Clone, Debug, PartialEq, Eq)]
pub struct Frame {
    pub version: u8,
    pub flags: u8,
    pub stream: i16,
    pub opcode: u8,
    pub body: Vec<u8>,
}

impl Frame {
    pub fn response(stream: i16, opcode: u8, body: Vec<u8>) -> Frame {
        Frame { version: VERSION_RESPONSE, flags: 0, stream, opcode, body }
    }
    /// header (9 bytes) + body
    pub fn encode(&self) -> Vec<u8> {
        let mut v = Vec::with_capacity(HEADER_LEN + self.body.len());
        v.push(self.version);
        v.push(self.flags);
        v.extend_from_slice(&self.stream.to_be_bytes());
        v.push(self.opcode);
        v.extend_from_slice(&(self.body.len() as u32).to_be_bytes());
        v.extend_from_slice(&self.body);
        v
    }
}

/// Reads one frame. `Ok(None)` = the peer closed the stream cleanly before the first header byte.
/// Frames longer than `max_body` are refused (InvalidData) instead of allocated.
pub async fn read_frame<R: AsyncRead + Unpin>(r: &mut R, max_body: usize) -> std::io::Result<Option<Frame>> {
    let mut h = [0u8; HEADER_LEN];
    let mut got = 0;
    while got < HEADER_LEN {
        let n = r.read(&mut h[got..]).await?;
        if n == 0 {
            if got == 0 {
                return Ok(None);
            }
            return Err(std::io::Error::new(std::io::ErrorKind::UnexpectedEof, "eof inside frame header"));
        }
        got += n;
    }
    let len = u32::from_be_bytes([h[5], h[6], h[7], h[8]]) as usize;
    if len > max_body {
        return Err(std::io::Error::new(std::io::ErrorKind::InvalidData, "frame body too large"));
    }
    let mut body = vec![0u8; len];
    r.read_exact(&mut body).await?;
    Ok(Some(Frame { version: h[0], flags: h[1], stream: i16::from_be_bytes([h[2], h[3]]), opcode: h[4], body }))
}

// ------------------------------------------------------------------------------------------
// primitive writer
// ------------------------------------------------------------------------------------------

/// Append-only body writer with the notations of the protocol specification.
#[derive(Default, Clone, Debug)]
pub struct W(pub Vec<u8>);

impl W {
    pub fn new() -> W {
        W(Vec::new())
    }
    pub fn done(self) -> Vec<u8> {
        self.0
    }
    pub fn u8(&mut self, v: u8) -> &mut Self {
        self.0.push(v);
        self
    }
    /// [short]
    pub fn short(&mut self, v: u16) -> &mut Self {
        self.0.extend_from_slice(&v.to_be_bytes());
        self
    }
    /// [int]
    pub fn int(&mut self, v: i32) -> &mut Self {
        self.0.extend_from_slice(&v.to_be_bytes());
        self
    }
    /// [long]
    pub fn long(&mut self, v: i64) -> &mut Self {
        self.0.extend_from_slice(&v.to_be_bytes());
        self
    }
    pub fn raw(&mut self, b: &[u8]) -> &mut Self {
        self.0.extend_from_slice(b);
        self
    }
    /// [string]
    pub fn string(&mut self, s: &str) -> &mut Self {
        self.short(s.len() as u16);
        self.raw(s.as_bytes())
    }
    /// [long string]
    pub fn long_string(&mut self, s: &str) -> &mut Self {
        self.int(s.len() as i32);
        self.raw(s.as_bytes())
    }
    /// [bytes] (None = null, length -1)
    pub fn bytes(&mut self, b: Option<&[u8]>) -> &mut Self {
        match b {
            None => self.int(-1),
            Some(b) => {
                self.int(b.len() as i32);
                self.raw(b)
            }
        }
    }
    /// [short bytes]
    pub fn short_bytes(&mut self, b: &[u8]) -> &mut Self {
        self.short(b.len() as u16);
        self.raw(b)
    }
    /// [string list]
    pub fn string_list(&mut self, l: &[String]) -> &mut Self {
        self.short(l.len() as u16);
        for s in l {
            self.string(s);
        }
        self
    }
    /// [string multimap]
    pub fn string_multimap(&mut self, m: &BTreeMap<String, Vec<String>>) -> &mut Self {
        self.short(m.len() as u16);
        for (k, v) in m {
            self.string(k);
            self.string_list(v);
        }
        self
    }
    /// [bytes map]
    pub fn bytes_map(&mut self, m: &[(String, Vec<u8>)]) -> &mut Self {
        self.short(m.len() as u16);
        for (k, v) in m {
            self.string(k);
            self.bytes(Some(v));
        }
        self
    }
    /// [inet] = address size byte, address, int port
    pub fn inet(&mut self, ip: std::net::IpAddr, port: i32) -> &mut Self {
        match ip {
            std::net::IpAddr::V4(a) => {
                self.u8(4);
                self.raw(&a.octets());
            }
            std::net::IpAddr::V6(a) => {
                self.u8(16);
                self.raw(&a.octets());
            }
        }
        self.int(port)
    }
}

// ------------------------------------------------------------------------------------------
// primitive reader
// ------------------------------------------------------------------------------------------

#[derive(Clone, Debug, PartialEq, Eq)]
pub struct DecodeError(pub String);
impl std::fmt::Display for DecodeError {
    fn fmt(&self, f: &mut std::fmt::Formatter<'_>) -> std::fmt::Result {
        write!(f, "decode error: {}", self.0)
    }
}
impl std::error::Error for DecodeError {}
type DR<T> = Result<T, DecodeError>;
fn derr<T>(s: &str) -> DR<T> {
    Err(DecodeError(s.to_string()))
}

pub struct Rd<'a> {
    pub b: &'a [u8],
}
impl<'a> Rd<'a> {
    pub fn new(b: &'a [u8]) -> Rd<'a> {
        Rd { b }
    }
    pub fn remaining(&self) -> usize {
        self.b.len()
    }
    pub fn take(&mut self, n: usize) -> DR<&'a [u8]> {
        if self.b.len() < n {
            return derr("short buffer");
        }
        let (x, y) = self.b.split_at(n);
        self.b = y;
        Ok(x)
    }
    pub fn u8(&mut self) -> DR<u8> {
        Ok(self.take(1)?[0])
    }
    pub fn short(&mut self) -> DR<u16> {
        let x = self.take(2)?;
        Ok(u16::from_be_bytes([x[0], x[1]]))
    }
    pub fn int(&mut self) -> DR<i32> {
        let x = self.take(4)?;
        Ok(i32::from_be_bytes([x[0], x[1], x[2], x[3]]))
    }
    pub fn long(&mut self) -> DR<i64> {
        let x = self.take(8)?;
        let mut a = [0u8; 8];
        a.copy_from_slice(x);
        Ok(i64::from_be_bytes(a))
    }
    pub fn string(&mut self) -> DR<String> {
        let n = self.short()? as usize;
        let x = self.take(n)?;
        String::from_utf8(x.to_vec()).or_else(|_| derr("bad utf8 in [string]"))
    }
    pub fn long_string(&mut self) -> DR<String> {
        let n = self.int()?;
        if n < 0 {
            return derr("negative [long string] length");
        }
        let x = self.take(n as usize)?;
        String::from_utf8(x.to_vec()).or_else(|_| derr("bad utf8 in [long string]"))
    }
    pub fn short_bytes(&mut self) -> DR<Vec<u8>> {
        let n = self.short()? as usize;
        Ok(self.take(n)?.to_vec())
    }
    /// [bytes]: None for a negative length
    pub fn bytes(&mut self) -> DR<Option<Vec<u8>>> {
        let n = self.int()?;
        if n < 0 {
            return Ok(None);
        }
        Ok(Some(self.take(n as usize)?.to_vec()))
    }
    /// [value]: length -1 = null, -2 = unset
    pub fn value(&mut self) -> DR<Value> {
        let n = self.int()?;
        match n {
            -1 => Ok(Value::Null),
            -2 => Ok(Value::Unset),
            n if n < 0 => derr("bad [value] length"),
            n => Ok(Value::Bytes(self.take(n as usize)?.to_vec())),
        }
    }
    pub fn string_list(&mut self) -> DR<Vec<String>> {
        let n = self.short()?;
        (0..n).map(|_| self.string()).collect()
    }
    pub fn string_map(&mut self) -> DR<BTreeMap<String, String>> {
        let n = self.short()?;
        let mut m = BTreeMap::new();
        for _ in 0..n {
            let k = self.string()?;
            let v = self.string()?;
            m.insert(k, v);
        }
        Ok(m)
    }
}

// ------------------------------------------------------------------------------------------
// request bodies
// ------------------------------------------------------------------------------------------

/// A bound value of a request.
#[derive(Clone, Debug, PartialEq, Eq)]
pub enum Value {
    Null,
    Unset,
    Bytes(Vec<u8>),
}
impl Value {
    pub fn as_bytes(&self) -> Option<&[u8]> {
        match self {
            Value::Bytes(b) => Some(b),
            _ => None,
        }
    }
}

/// `<query_parameters>` of QUERY and EXECUTE.
#[derive(Clone, Debug, PartialEq, Eq, Default)]
pub struct QueryParams {
    pub consistency: u16,
    pub flags: u8,
    pub values: Vec<Value>,
    /// names of the values when flag 0x40 is set
    pub names: Vec<String>,
    pub skip_metadata: bool,
    pub page_size: Option<i32>,
    pub paging_state: Option<Vec<u8>>,
    pub serial_consistency: Option<u16>,
    pub timestamp: Option<i64>,
}

pub mod qflag {
    pub const VALUES: u8 = 0x01;
    pub const SKIP_METADATA: u8 = 0x02;
    pub const PAGE_SIZE: u8 = 0x04;
    pub const PAGING_STATE: u8 = 0x08;
    pub const SERIAL_CONSISTENCY: u8 = 0x10;
    pub const TIMESTAMP: u8 = 0x20;
    pub const NAMES: u8 = 0x40;
}

pub fn decode_query_params(r: &mut Rd) -> DR<QueryParams> {
    let mut p = QueryParams { consistency: r.short()?, flags: r.u8()?, ..Default::default() };
    if p.flags & qflag::VALUES != 0 {
        let n = r.short()?;
        for _ in 0..n {
            if p.flags & qflag::NAMES != 0 {
                p.names.push(r.string()?);
            }
            p.values.push(r.value()?);
        }
    }
    p.skip_metadata = p.flags & qflag::SKIP_METADATA != 0;
    if p.flags & qflag::PAGE_SIZE != 0 {
        p.page_size = Some(r.int()?);
    }
    if p.flags & qflag::PAGING_STATE != 0 {
        p.paging_state = r.bytes()?;
    }
    if p.flags & qflag::SERIAL_CONSISTENCY != 0 {
        p.serial_consistency = Some(r.short()?);
    }
    if p.flags & qflag::TIMESTAMP != 0 {
        p.timestamp = Some(r.long()?);
    }
    Ok(p)
}

#[derive(Clone, Debug, PartialEq, Eq)]
pub struct QueryReq {
    pub text: String,
    pub params: QueryParams,
}
/// Body of QUERY: `<long string><query_parameters>`.
pub fn decode_query(body: &[u8]) -> DR<QueryReq> {
    let mut r = Rd::new(body);
    let text = r.long_string()?;
    let params = decode_query_params(&mut r)?;
    if r.remaining() != 0 {
        return derr("trailing bytes after QUERY");
    }
    Ok(QueryReq { text, params })
}

/// Body of PREPARE: `<long string>`.
pub fn decode_prepare(body: &[u8]) -> DR<String> {
    let mut r = Rd::new(body);
    let text = r.long_string()?;
    if r.remaining() != 0 {
        return derr("trailing bytes after PREPARE");
    }
    Ok(text)
}

#[derive(Clone, Debug, PartialEq, Eq)]
pub struct ExecuteReq {
    pub id: Vec<u8>,
    /// present iff the connection negotiated SCYLLA_USE_METADATA_ID
    pub result_metadata_id: Option<Vec<u8>>,
    pub params: QueryParams,
}
/// Body of EXECUTE: `<short bytes id>[<short bytes result_metadata_id>]<query_parameters>`.
pub fn decode_execute(body: &[u8], metadata_id_ext: bool) -> DR<ExecuteReq> {
    let mut r = Rd::new(body);
    let id = r.short_bytes()?;
    let result_metadata_id = if metadata_id_ext { Some(r.short_bytes()?) } else { None };
    let params = decode_query_params(&mut r)?;
    if r.remaining() != 0 {
        return derr("trailing bytes after EXECUTE");
    }
    Ok(ExecuteReq { id, result_metadata_id, params })
}

#[derive(Clone, Debug, PartialEq, Eq)]
pub enum BatchStmt {
    Query { text: String, values: Vec<Value> },
    Prepared { id: Vec<u8>, values: Vec<Value> },
}
#[derive(Clone, Debug, PartialEq, Eq)]
pub struct BatchReq {
    /// 0 logged, 1 unlogged, 2 counter
    pub batch_type: u8,
    pub statements: Vec<BatchStmt>,
    pub consistency: u16,
    pub flags: u8,
    pub serial_consistency: Option<u16>,
    pub timestamp: Option<i64>,
}
/// Body of BATCH.
pub fn decode_batch(body: &[u8]) -> DR<BatchReq> {
    let mut r = Rd::new(body);
    let batch_type = r.u8()?;
    let n = r.short()?;
    let mut statements = Vec::new();
    for _ in 0..n {
        let kind = r.u8()?;
        let head = match kind {
            0 => Ok(r.long_string()?),
            1 => Err(r.short_bytes()?),
            _ => return derr("bad batch statement kind"),
        };
        let nv = r.short()?;
        let mut values = Vec::new();
        for _ in 0..nv {
            values.push(r.value()?);
        }
        statements.push(match head {
            Ok(text) => BatchStmt::Query { text, values },
            Err(id) => BatchStmt::Prepared { id, values },
        });
    }
    let consistency = r.short()?;
    let flags = r.u8()?;
    let serial_consistency = if flags & qflag::SERIAL_CONSISTENCY != 0 { Some(r.short()?) } else { None };
    let timestamp = if flags & qflag::TIMESTAMP != 0 { Some(r.long()?) } else { None };
    if r.remaining() != 0 {
        return derr("trailing bytes after BATCH");
    }
    Ok(BatchReq { batch_type, statements, consistency, flags, serial_consistency, timestamp })
}

/// Body of STARTUP: `[string map]`.
pub fn decode_startup(body: &[u8]) -> DR<BTreeMap<String, String>> {
    Rd::new(body).string_map()
}
/// Body of REGISTER: `[string list]`.
pub fn decode_register(body: &[u8]) -> DR<Vec<String>> {
    Rd::new(body).string_list()
}

// ------------------------------------------------------------------------------------------
// response bodies that need no schema knowledge
// ------------------------------------------------------------------------------------------

pub fn body_supported(options: &BTreeMap<String, Vec<String>>) -> Vec<u8> {
    let mut w = W::new();
    w.string_multimap(options);
    w.done()
}

pub fn body_result_void() -> Vec<u8> {
    let mut w = W::new();
    w.int(1);
    w.done()
}

pub fn body_result_set_keyspace(ks: &str) -> Vec<u8> {
    let mut w = W::new();
    w.int(3).string(ks);
    w.done()
}

/// RESULT/SchemaChange body: `<change_type><target><options>`.
pub fn body_result_schema_change(change: &str, target: &str, keyspace: &str, object: Option<&str>) -> Vec<u8> {
    let mut w = W::new();
    w.int(5).string(change).string(target).string(keyspace);
    if let Some(o) = object {
        w.string(o);
    }
    w.done()
}

/// EVENT bodies.
pub fn body_event_status_change(up: bool, ip: std::net::IpAddr, port: i32) -> Vec<u8> {
    let mut w = W::new();
    w.string("STATUS_CHANGE").string(if up { "UP" } else { "DOWN" }).inet(ip, port);
    w.done()
}
pub fn body_event_topology_change(new_node: bool, ip: std::net::IpAddr, port: i32) -> Vec<u8> {
    let mut w = W::new();
    w.string("TOPOLOGY_CHANGE").string(if new_node { "NEW_NODE" } else { "REMOVED_NODE" }).inet(ip, port);
    w.done()
}
pub fn body_event_schema_change(change: &str, target: &str, keyspace: &str, object: Option<&str>) -> Vec<u8> {
    let mut w = W::new();
    w.string("SCHEMA_CHANGE").string(change).string(target).string(keyspace);
    if let Some(o) = object {
        w.string(o);
    }
    w.done()
}

/// Prefix a response body with a custom payload ([bytes map]); the frame must carry
/// `flag::CUSTOM_PAYLOAD`.
pub fn with_custom_payload(payload: &[(String, Vec<u8>)], body: &[u8]) -> Vec<u8> {
    let mut w = W::new();
    w.bytes_map(payload);
    w.raw(body);
    w.done()
}
