//! The mock cluster: one listener pair per node on 127.0.<cluster>.<node+1>, per-connection
//! request handling, scripts, trace.
use super::cluster::*;
use super::script::*;
use super::types::*;
use super::wire::{self, Frame, Value, op};
use futures::stream::{FuturesUnordered, StreamExt};
use std::collections::HashMap;
use std::future::Future;
use std::net::{IpAddr, SocketAddr};
use std::pin::Pin;
use std::sync::atomic::{AtomicBool, AtomicU64, Ordering};
use std::sync::{Arc, Mutex};
use std::time::{Duration, Instant};
use tokio::io::AsyncWriteExt;
use tokio::net::{TcpListener, TcpStream};
use tokio::sync::mpsc;
use tokio::task::JoinHandle;

/// Longest time a `Reorder`ed reply is held back.
const REORDER_MAX_HOLD: Duration = Duration::from_secs(2);

/// Information about a live connection.
#[derive(Clone, Debug, PartialEq, Eq)]
pub struct ConnInfo {
    pub node: usize,
    pub conn_id: u64,
    pub shard: u16,
    pub shard_aware_port: bool,
    pub peer_port: u16,
    /// keyspace acknowledged by the last RESULT/SetKeyspace WRITTEN COMPLETELY on this connection
    /// (a delayed, held, cut or stalled reply does not acknowledge anything until/unless it is written)
    pub keyspace: Option<String>,
    /// keyspace of the last USE request handled (answered with SetKeyspace), whether or not the reply
    /// has been written yet
    pub requested_keyspace: Option<String>,
    /// event types of the last REGISTER (non-empty = the driver's control connection)
    pub registered: Vec<String>,
    /// number of requests received after the handshake
    pub requests: u64,
}

enum ConnCmd {
    Close(CutKind),
    Event(Vec<u8>),
}

struct ConnEntry {
    info: ConnInfo,
    ctl: mpsc::UnboundedSender<ConnCmd>,
}

struct NodeState {
    rr: AtomicU64,
    /// statement ids this node "has in its cache": id -> statement text
    prepared: Mutex<HashMap<Vec<u8>, String>>,
    conns: Mutex<HashMap<u64, ConnEntry>>,
    down: AtomicBool,
    listeners: Mutex<Vec<JoinHandle<()>>>,
}

struct Shared {
    spec: Mutex<ClusterSpec>,
    cluster_id: u8,
    /// never accepted from: holds 127.0.<cluster_id>.250:<port> for the whole lifetime of the cluster,
    /// so that the cluster id stays ours also while nodes are stopped (`stop_node(0)`) or being torn down
    _reservation: std::net::TcpListener,
    scripts: Mutex<Scripts>,
    trace: Mutex<Vec<TraceEvent>>,
    t0: Instant,
    seq: AtomicU64,
    conn_seq: AtomicU64,
    client_ips: AtomicU64,
    overrides: Mutex<Vec<NodeOverride>>,
    nodes: Mutex<Vec<Arc<NodeState>>>,
}

impl Shared {
    fn log(&self, node: usize, conn_id: u64, shard: u16, ev: Ev) {
        let t_ns = self.t0.elapsed().as_nanos() as u64;
        self.trace.lock().unwrap().push(TraceEvent { t_ns, node, conn_id, shard, ev });
    }
    fn node(&self, i: usize) -> Arc<NodeState> {
        self.nodes.lock().unwrap()[i].clone()
    }
}

/// A running mock cluster. Dropping it stops all listeners and connections.
pub struct MockCluster {
    sh: Arc<Shared>,
}

impl MockCluster {
    /// Binds the listeners of every node and starts serving. With `spec.cluster_id == None` a free
    /// third address octet is searched (so concurrent clusters, also of other processes, do not collide).
    pub async fn start(spec: ClusterSpec) -> std::io::Result<MockCluster> {
        assert!(!spec.nodes.is_empty() && spec.nodes.len() < 249, "1..248 nodes (address .250 is the reservation)");
        let candidates: Vec<u8> = match spec.cluster_id {
            Some(c) => vec![c],
            None => {
                let start = (std::process::id() as u64 * 7 + (Instant::now().elapsed().subsec_nanos() as u64)) % 250;
                let salt = NEXT_CLUSTER.fetch_add(1, Ordering::Relaxed);
                (0..250u64).map(|i| (1 + (start + salt * 13 + i) % 250) as u8).collect()
            }
        };
        let mut last_err = std::io::Error::other("no cluster id candidates");
        for cid in candidates {
            // the reservation comes first: whoever holds it owns the cluster id
            let reservation = match std::net::TcpListener::bind(SocketAddr::new(
                IpAddr::V4(std::net::Ipv4Addr::new(127, 0, cid, 250)),
                spec.options.port,
            )) {
                Ok(l) => l,
                Err(e) => {
                    last_err = e;
                    continue;
                }
            };
            match Self::try_bind_all(&spec, cid).await {
                Ok(listeners) => {
                    let sh = Arc::new(Shared {
                        spec: Mutex::new(spec.clone()),
                        cluster_id: cid,
                        _reservation: reservation,
                        scripts: Mutex::new(Scripts::default()),
                        trace: Mutex::new(Vec::new()),
                        t0: Instant::now(),
                        seq: AtomicU64::new(0),
                        conn_seq: AtomicU64::new(0),
                        client_ips: AtomicU64::new(0),
                        overrides: Mutex::new(Vec::new()),
                        nodes: Mutex::new(Vec::new()),
                    });
                    for (node, ls) in listeners.into_iter().enumerate() {
                        let ns = Arc::new(new_node_state());
                        sh.nodes.lock().unwrap().push(ns.clone());
                        for (l, sa) in ls {
                            let h = tokio::spawn(accept_loop(sh.clone(), node, l, sa));
                            ns.listeners.lock().unwrap().push(h);
                        }
                    }
                    return Ok(MockCluster { sh });
                }
                Err(e) => last_err = e,
            }
        }
        Err(last_err)
    }

    async fn try_bind_all(spec: &ClusterSpec, cid: u8) -> std::io::Result<Vec<Vec<(TcpListener, bool)>>> {
        let mut all = Vec::new();
        for node in 0..spec.nodes.len() {
            all.push(bind_node(spec, cid, node).await?);
        }
        Ok(all)
    }

    /// A loopback address for the CLIENT side of this cluster, different on every call:
    /// 127.1.<cluster_id>.<k>. Give it to `SessionBuilder::local_ip_address(Some(ip))`: sockets bound
    /// to their own local address have their own ephemeral port space, so a run that opens and closes
    /// thousands of connections (TIME_WAIT on 127.0.0.1) cannot run into EADDRINUSE, neither by itself
    /// nor because of other processes doing the same.
    pub fn client_ip(&self) -> IpAddr {
        let k = self.sh.client_ips.fetch_add(1, Ordering::SeqCst);
        IpAddr::V4(std::net::Ipv4Addr::new(127, 1 + (k / 250 % 100) as u8, self.sh.cluster_id, (1 + k % 250) as u8))
    }
    /// Nanoseconds since the cluster was started (the clock of `TraceEvent.t_ns`).
    pub fn now_ns(&self) -> u64 {
        self.sh.t0.elapsed().as_nanos() as u64
    }
    pub fn cluster_id(&self) -> u8 {
        self.sh.cluster_id
    }
    pub fn node_count(&self) -> usize {
        self.sh.nodes.lock().unwrap().len()
    }
    /// IP address of node `node`.
    pub fn ip(&self, node: usize) -> IpAddr {
        ClusterSpec::node_ip(self.sh.cluster_id, node)
    }
    /// Address of the plain CQL port of node `node` (use with `SessionBuilder::known_node_addr`).
    pub fn contact_point(&self, node: usize) -> SocketAddr {
        SocketAddr::new(self.ip(node), self.sh.spec.lock().unwrap().options.port)
    }
    /// Index of the node with this address.
    pub fn node_of_ip(&self, ip: IpAddr) -> Option<usize> {
        (0..self.node_count()).find(|n| self.ip(*n) == ip)
    }
    pub fn spec(&self) -> ClusterSpec {
        self.sh.spec.lock().unwrap().clone()
    }
    /// Changes the cluster description in place (keyspaces, tables, tokens, options). The system
    /// tables reflect the change on the next read. Do not change the number of nodes here (see `add_node`).
    pub fn update_spec(&self, f: impl FnOnce(&mut ClusterSpec)) {
        let mut s = self.sh.spec.lock().unwrap();
        let n = s.nodes.len();
        f(&mut s);
        assert_eq!(n, s.nodes.len(), "use add_node to add nodes");
    }

    // ---- scripts -------------------------------------------------------------------------

    /// Appends `actions` to the script of (node, key). Each matching request consumes modifiers up
    /// to and including one reply action.
    pub fn script(&self, node: impl Into<NodeSel>, key: impl Into<Key>, actions: Vec<Action>) {
        let key = norm_key(key.into());
        self.sh.scripts.lock().unwrap().queues.entry((node.into(), key)).or_default().extend(actions);
    }
    /// What (node, key) answers when its script queue is empty (modifiers + one reply).
    pub fn set_default(&self, node: impl Into<NodeSel>, key: impl Into<Key>, actions: Vec<Action>) {
        let key = norm_key(key.into());
        self.sh.scripts.lock().unwrap().defaults.insert((node.into(), key), actions);
    }
    /// Removes all script queues and defaults (registered PreparedSpecs and the handler stay).
    pub fn clear_scripts(&self) {
        let mut s = self.sh.scripts.lock().unwrap();
        s.queues.clear();
        s.defaults.clear();
    }
    /// Number of unconsumed actions in the script queue of (node, key).
    pub fn script_len(&self, node: impl Into<NodeSel>, key: impl Into<Key>) -> usize {
        let key = norm_key(key.into());
        self.sh.scripts.lock().unwrap().queues.get(&(node.into(), key)).map_or(0, |q| q.len())
    }
    /// Installs the dynamic responder (consulted after the script queues, before defaults).
    pub fn set_handler(&self, h: Option<Handler>) {
        self.sh.scripts.lock().unwrap().handler = h;
    }
    /// Registers what PREPARE of `text` answers (on every node).
    pub fn on_prepare(&self, text: &str, spec: PreparedSpec) {
        self.sh.scripts.lock().unwrap().prepared.insert(strip_using_timeout(text).to_string(), spec);
    }
    /// The statement id PREPARE of `text` returns.
    pub fn prepared_id(&self, text: &str) -> Vec<u8> {
        let t = strip_using_timeout(text);
        match self.sh.scripts.lock().unwrap().prepared.get(t) {
            Some(p) if !p.id.is_empty() => p.id.clone(),
            _ => digest16(t.as_bytes()),
        }
    }
    /// Makes `node` forget a prepared statement (next EXECUTE of it answers UNPREPARED).
    /// `None` = forget all.
    pub fn evict_prepared(&self, node: usize, id: Option<&[u8]>) {
        let ns = self.sh.node(node);
        let mut p = ns.prepared.lock().unwrap();
        match id {
            Some(id) => {
                p.remove(id);
            }
            None => p.clear(),
        }
    }
    /// Statement ids `node` currently knows.
    pub fn prepared_on(&self, node: usize) -> Vec<(Vec<u8>, String)> {
        self.sh.node(node).prepared.lock().unwrap().iter().map(|(k, v)| (k.clone(), v.clone())).collect()
    }

    // ---- trace ---------------------------------------------------------------------------

    /// Takes all trace events recorded so far.
    pub fn drain_trace(&self) -> Vec<TraceEvent> {
        std::mem::take(&mut *self.sh.trace.lock().unwrap())
    }
    /// Copy of the trace without draining it.
    pub fn trace_snapshot(&self) -> Vec<TraceEvent> {
        self.sh.trace.lock().unwrap().clone()
    }

    // ---- connections, topology -------------------------------------------------------------

    /// Live connections of `node` (None = all nodes), ordered by conn_id.
    pub fn connections(&self, node: Option<usize>) -> Vec<ConnInfo> {
        let nodes = self.sh.nodes.lock().unwrap().clone();
        let mut v: Vec<ConnInfo> = nodes
            .iter()
            .enumerate()
            .filter(|(i, _)| node.is_none_or(|n| n == *i))
            .flat_map(|(_, ns)| ns.conns.lock().unwrap().values().map(|c| c.info.clone()).collect::<Vec<_>>())
            .collect();
        v.sort_by_key(|c| c.conn_id);
        v
    }
    /// Cuts one connection.
    pub fn close_connection(&self, node: usize, conn_id: u64, how: CutKind) -> bool {
        let ns = self.sh.node(node);
        let c = ns.conns.lock().unwrap();
        c.get(&conn_id).is_some_and(|e| e.ctl.send(ConnCmd::Close(how)).is_ok())
    }
    /// Cuts every live connection of `node`; returns how many.
    pub fn kill_connections(&self, node: usize, how: CutKind) -> usize {
        let ns = self.sh.node(node);
        let c = ns.conns.lock().unwrap();
        c.values().filter(|e| e.ctl.send(ConnCmd::Close(how)).is_ok()).count()
    }
    /// Stops listening on `node` (new connections are refused) and cuts its connections.
    pub fn stop_node(&self, node: usize, how: CutKind) {
        let ns = self.sh.node(node);
        ns.down.store(true, Ordering::SeqCst);
        for h in ns.listeners.lock().unwrap().drain(..) {
            h.abort();
        }
        self.kill_connections(node, how);
    }
    /// Listens again on a stopped node.
    pub async fn start_node(&self, node: usize) -> std::io::Result<()> {
        let ns = self.sh.node(node);
        if !ns.down.load(Ordering::SeqCst) {
            return Ok(());
        }
        let spec = self.spec();
        let mut last = None;
        for _ in 0..50 {
            match bind_node(&spec, self.sh.cluster_id, node).await {
                Ok(ls) => {
                    for (l, sa) in ls {
                        let h = tokio::spawn(accept_loop(self.sh.clone(), node, l, sa));
                        ns.listeners.lock().unwrap().push(h);
                    }
                    ns.down.store(false, Ordering::SeqCst);
                    return Ok(());
                }
                Err(e) => {
                    last = Some(e);
                    tokio::time::sleep(Duration::from_millis(20)).await;
                }
            }
        }
        Err(last.unwrap())
    }
    /// Removes a node from the cluster: it stops listening, its connections are cut, and it disappears
    /// from the other nodes' `system.peers` (`NodeSpec.hidden`). Its index stays valid (indexes of the
    /// other nodes do not change). Combine with `push_event(.., body_event_topology_change(false, ip, port))`
    /// or wait for / trigger the driver's metadata refresh.
    pub fn remove_node(&self, node: usize, how: CutKind) {
        self.stop_node(node, how);
        self.node_override(node, |o| o.hidden = true);
    }
    /// `dc = false` / `rack = false`: the node's `data_center` / `rack` cells in system.local and system.peers
    /// are null (the driver's `Node::datacenter` / `rack` become `None`); `true` = the value of the `NodeSpec`.
    pub fn set_node_location(&self, node: usize, dc: bool, rack: bool) {
        self.node_override(node, |o| {
            o.null_dc = !dc;
            o.null_rack = !rack;
        });
    }
    fn node_override(&self, node: usize, f: impl FnOnce(&mut NodeOverride)) {
        let mut ov = self.sh.overrides.lock().unwrap();
        if ov.len() <= node {
            ov.resize(node + 1, NodeOverride::default());
        }
        f(&mut ov[node]);
    }
    pub fn is_down(&self, node: usize) -> bool {
        self.sh.node(node).down.load(Ordering::SeqCst)
    }
    /// Adds a node at run time: binds its listeners, adds it to the description (so it shows up in
    /// `system.peers` of the others). Returns its index. Combine with `push_event` (NEW_NODE) or wait
    /// for the driver's periodic metadata refresh.
    pub async fn add_node(&self, node: NodeSpec) -> std::io::Result<usize> {
        let idx = {
            let mut s = self.sh.spec.lock().unwrap();
            s.nodes.push(node);
            s.nodes.len() - 1
        };
        let spec = self.spec();
        match bind_node(&spec, self.sh.cluster_id, idx).await {
            Ok(ls) => {
                let ns = Arc::new(new_node_state());
                self.sh.nodes.lock().unwrap().push(ns.clone());
                for (l, sa) in ls {
                    let h = tokio::spawn(accept_loop(self.sh.clone(), idx, l, sa));
                    ns.listeners.lock().unwrap().push(h);
                }
                Ok(idx)
            }
            Err(e) => {
                self.sh.spec.lock().unwrap().nodes.pop();
                Err(e)
            }
        }
    }
    /// Sends an EVENT frame (stream -1) with this body on every connection of `node` that REGISTERed
    /// (None = all nodes). Bodies: `wire::body_event_*`. Returns the number of connections reached.
    pub fn push_event(&self, node: Option<usize>, body: Vec<u8>) -> usize {
        let nodes = self.sh.nodes.lock().unwrap().clone();
        let mut n = 0;
        for (i, ns) in nodes.iter().enumerate() {
            if node.is_some_and(|x| x != i) {
                continue;
            }
            for e in ns.conns.lock().unwrap().values() {
                if !e.info.registered.is_empty() && e.ctl.send(ConnCmd::Event(body.clone())).is_ok() {
                    n += 1;
                }
            }
        }
        n
    }
    /// Stops everything.
    pub fn shutdown(&self) {
        let nodes = self.sh.nodes.lock().unwrap().clone();
        for (i, ns) in nodes.iter().enumerate() {
            ns.down.store(true, Ordering::SeqCst);
            for h in ns.listeners.lock().unwrap().drain(..) {
                h.abort();
            }
            self.kill_connections(i, CutKind::Rst);
        }
    }
}

impl Drop for MockCluster {
    fn drop(&mut self) {
        self.shutdown();
    }
}

static NEXT_CLUSTER: AtomicU64 = AtomicU64::new(0);

fn new_node_state() -> NodeState {
    NodeState {
        rr: AtomicU64::new(0),
        prepared: Mutex::new(HashMap::new()),
        conns: Mutex::new(HashMap::new()),
        down: AtomicBool::new(false),
        listeners: Mutex::new(Vec::new()),
    }
}

fn norm_key(k: Key) -> Key {
    match k {
        Key::Stmt(s) => Key::Stmt(strip_using_timeout(&s).to_string()),
        Key::Prepare(s) => Key::Prepare(strip_using_timeout(&s).to_string()),
        k => k,
    }
}

async fn bind_node(spec: &ClusterSpec, cid: u8, node: usize) -> std::io::Result<Vec<(TcpListener, bool)>> {
    let ip = ClusterSpec::node_ip(cid, node);
    let mut v = vec![(TcpListener::bind(SocketAddr::new(ip, spec.options.port)).await?, false)];
    if let (Some(p), true) = (spec.options.shard_aware_port, spec.nodes[node].nr_shards > 0) {
        v.push((TcpListener::bind(SocketAddr::new(ip, p)).await?, true));
    }
    Ok(v)
}

async fn accept_loop(sh: Arc<Shared>, node: usize, l: TcpListener, shard_aware: bool) {
    loop {
        match l.accept().await {
            Ok((stream, peer)) => {
                let _ = stream.set_nodelay(true);
                tokio::spawn(serve_conn(sh.clone(), node, stream, peer, shard_aware));
            }
            Err(_) => tokio::time::sleep(Duration::from_millis(5)).await,
        }
    }
}

// ------------------------------------------------------------------------------------------
// one connection
// ------------------------------------------------------------------------------------------

/// What is eventually written for one request.
enum Out {
    Frame(Frame),
    Raw(Vec<u8>),
    Fill { head: Vec<u8>, fill_len: u64, seed: u8, inserts: Vec<(u64, Vec<u8>)>, tail: Vec<u8> },
    Stall,
    Close(CutKind),
    Nothing,
}
struct Job {
    out: Out,
    cut: Option<(usize, CutKind)>,
    reorder: usize,
    delay_ms: u64,
    /// internal: the max-hold timer of a held reply fired
    release_held: Option<u64>,
    /// write the frame in pieces split at these offsets, pausing this many ms in between
    chunks: Option<(Vec<usize>, u64)>,
    /// keyspace that becomes the connection's ACKED keyspace when this reply has been written
    /// completely (RESULT/SetKeyspace)
    ack_ks: Option<String>,
}

struct Conn {
    sh: Arc<Shared>,
    ns: Arc<NodeState>,
    node: usize,
    conn_id: u64,
    shard: u16,
    started: bool,
    metadata_id_ext: bool,
    keyspace: Option<String>,
    /// keyspace of the last USE handled (its reply may not be written yet)
    requested_keyspace: Option<String>,
    /// set by `handle`/`builtin` for the reply under construction
    pending_ack: Option<String>,
    stalled: bool,
    sent: usize,
    held: Vec<(u64, usize, Job)>,
    held_seq: u64,
}

type Pending = FuturesUnordered<Pin<Box<dyn Future<Output = Job> + Send>>>;

async fn serve_conn(sh: Arc<Shared>, node: usize, stream: TcpStream, peer: SocketAddr, shard_aware: bool) {
    let ns = sh.node(node);
    let (nr_shards, max_body) = {
        let s = sh.spec.lock().unwrap();
        (s.nodes[node].nr_shards, s.options.max_body)
    };
    let shard = if nr_shards == 0 {
        0
    } else if shard_aware {
        peer.port() % nr_shards
    } else {
        (ns.rr.fetch_add(1, Ordering::SeqCst) % nr_shards as u64) as u16
    };
    let conn_id = sh.conn_seq.fetch_add(1, Ordering::SeqCst) + 1;
    let (ctl_tx, mut ctl_rx) = mpsc::unbounded_channel();
    ns.conns.lock().unwrap().insert(
        conn_id,
        ConnEntry {
            info: ConnInfo {
                node,
                conn_id,
                shard,
                shard_aware_port: shard_aware,
                peer_port: peer.port(),
                keyspace: None,
                requested_keyspace: None,
                registered: vec![],
                requests: 0,
            },
            ctl: ctl_tx,
        },
    );
    sh.log(node, conn_id, shard, Ev::Open { peer_port: peer.port(), shard_aware_port: shard_aware });

    let (mut rd, mut wr) = stream.into_split();
    let (ftx, mut frx) = mpsc::unbounded_channel::<Option<Frame>>();
    let reader = tokio::spawn(async move {
        loop {
            match wire::read_frame(&mut rd, max_body).await {
                Ok(Some(f)) => {
                    if ftx.send(Some(f)).is_err() {
                        break;
                    }
                }
                _ => {
                    let _ = ftx.send(None);
                    break;
                }
            }
        }
        // keep the read half alive until aborted/dropped so that the socket is closed by the main task
        rd
    });

    let mut c = Conn {
        sh: sh.clone(),
        ns: ns.clone(),
        node,
        conn_id,
        shard,
        started: false,
        metadata_id_ext: false,
        keyspace: None,
        requested_keyspace: None,
        pending_ack: None,
        stalled: false,
        sent: 0,
        held: Vec::new(),
        held_seq: 0,
    };
    let mut pending: Pending = FuturesUnordered::new();
    let mut client_gone = false;

    let by: CloseBy = 'main: loop {
        tokio::select! {
            cmd = ctl_rx.recv() => match cmd {
                Some(ConnCmd::Close(k)) => { break 'main cut(&c.lg(), &mut wr, k).await; }
                Some(ConnCmd::Event(body)) => {
                    let f = Frame::response(-1, op::EVENT, body);
                    if let Some(k) = c.write_job(&mut wr, Job { out: Out::Frame(f), cut: None, reorder: 0, delay_ms: 0, release_held: None, ack_ks: None, chunks: None }, &mut pending).await {
                        break 'main k;
                    }
                }
                None => { break 'main CloseBy::Shutdown; }
            },
            f = frx.recv() => match f {
                Some(Some(frame)) => {
                    let job = c.handle(frame);
                    if job.delay_ms > 0 {
                        let d = job.delay_ms;
                        pending.push(Box::pin(async move { tokio::time::sleep(Duration::from_millis(d)).await; job }));
                    } else if let Some(k) = c.write_job(&mut wr, job, &mut pending).await {
                        break 'main k;
                    }
                }
                _ => { client_gone = true; break 'main CloseBy::Client; }
            },
            Some(job) = pending.next(), if !pending.is_empty() => {
                if let Some(k) = c.write_job(&mut wr, job, &mut pending).await {
                    break 'main k;
                }
            }
        }
    };
    // the trace entry comes before the connection disappears from `connections()`; a cut by the
    // mock was already logged (before it was performed)
    if !matches!(by, CloseBy::MockFin | CloseBy::MockRst) {
        sh.log(node, conn_id, shard, Ev::Close { by: by.clone() });
    }
    ns.conns.lock().unwrap().remove(&conn_id);
    match by {
        CloseBy::MockFin if !client_gone => {
            // FIN was sent; drain what the client still sends (tracing it) until it closes, so that
            // the kernel does not turn our close into a RST because of unread data.
            let deadline = tokio::time::Instant::now() + Duration::from_secs(5);
            loop {
                match tokio::time::timeout_at(deadline, frx.recv()).await {
                    Ok(Some(Some(f))) => sh.log(
                        node,
                        conn_id,
                        shard,
                        Ev::In { version: f.version, flags: f.flags, stream: f.stream, opcode: f.opcode, body: f.body },
                    ),
                    _ => break,
                }
            }
            reader.abort();
        }
        _ => {
            reader.abort();
        }
    }
    let _ = reader.await;
    drop(wr);
}

/// Performs the cut on the write half; the socket itself is closed when both halves are dropped.
async fn cut(lg: &ConnLog, wr: &mut tokio::net::tcp::OwnedWriteHalf, k: CutKind) -> CloseBy {
    match k {
        CutKind::Fin => {
            // logged BEFORE the act, so that the client's reaction comes later in the trace
            lg.log(Ev::Close { by: CloseBy::MockFin });
            let _ = wr.shutdown().await;
            CloseBy::MockFin
        }
        CutKind::Rst => {
            lg.log(Ev::Close { by: CloseBy::MockRst });
            #[allow(deprecated)]
            let _ = wr.as_ref().set_linger(Some(Duration::ZERO));
            CloseBy::MockRst
        }
    }
}

/// What is needed to append to the trace on behalf of one connection.
struct ConnLog {
    sh: Arc<Shared>,
    node: usize,
    conn_id: u64,
    shard: u16,
}
impl ConnLog {
    fn log(&self, ev: Ev) {
        self.sh.log(self.node, self.conn_id, self.shard, ev);
    }
}

impl Conn {
    fn log(&self, ev: Ev) {
        self.sh.log(self.node, self.conn_id, self.shard, ev);
    }
    fn lg(&self) -> ConnLog {
        ConnLog { sh: self.sh.clone(), node: self.node, conn_id: self.conn_id, shard: self.shard }
    }

    /// Writes (or holds) one job; returns Some(close reason) when the connection has to end.
    async fn write_job(&mut self, wr: &mut tokio::net::tcp::OwnedWriteHalf, job: Job, pending: &mut Pending) -> Option<CloseBy> {
        if let Some(hid) = job.release_held {
            // max-hold timer: release that held job if it is still held
            if let Some(i) = self.held.iter().position(|h| h.0 == hid) {
                let (_, _, j) = self.held.remove(i);
                return self.write_now(wr, j, pending).await;
            }
            return None;
        }
        if job.reorder > 0 {
            let hid = self.held_seq;
            self.held_seq += 1;
            let target = self.sent + job.reorder;
            let mut j = job;
            j.reorder = 0;
            self.held.push((hid, target, j));
            pending.push(Box::pin(async move {
                tokio::time::sleep(REORDER_MAX_HOLD).await;
                Job { out: Out::Nothing, cut: None, reorder: 0, delay_ms: 0, release_held: Some(hid), ack_ks: None, chunks: None }
            }));
            return None;
        }
        self.write_now(wr, job, pending).await
    }

    async fn write_now(&mut self, wr: &mut tokio::net::tcp::OwnedWriteHalf, job: Job, _pending: &mut Pending) -> Option<CloseBy> {
        let mut queue = vec![job];
        while let Some(job) = queue.pop() {
            if self.stalled {
                continue;
            }
            let ack = job.ack_ks.clone();
            match job.out {
                Out::Nothing => {}
                Out::Stall => {
                    self.stalled = true;
                    self.log(Ev::Stalled);
                }
                Out::Close(k) => return Some(cut(&self.lg(), wr, k).await),
                Out::Fill { head, fill_len, seed, inserts, tail } => {
                    self.log(Ev::RawFillOut {
                        head: head.clone(),
                        fill_len,
                        seed,
                        inserts: inserts.clone(),
                        tail: tail.clone(),
                    });
                    let mut ok = wr.write_all(&head).await.is_ok();
                    let mut off: u64 = 0;
                    let mut chunk = vec![0u8; 64 * 1024];
                    while ok && off < fill_len {
                        let n = ((fill_len - off) as usize).min(chunk.len());
                        for (i, b) in chunk[..n].iter_mut().enumerate() {
                            *b = ((off + i as u64 + seed as u64) % 251) as u8;
                        }
                        for (at, bytes) in &inserts {
                            // overlap of [at, at+len) with [off, off+n)
                            let (a, e) = (*at, *at + bytes.len() as u64);
                            let (lo, hi) = (a.max(off), e.min(off + n as u64));
                            if lo < hi {
                                chunk[(lo - off) as usize..(hi - off) as usize]
                                    .copy_from_slice(&bytes[(lo - a) as usize..(hi - a) as usize]);
                            }
                        }
                        ok = wr.write_all(&chunk[..n]).await.is_ok();
                        off += n as u64;
                    }
                    if ok {
                        ok = wr.write_all(&tail).await.is_ok();
                    }
                    let _ = wr.flush().await;
                    if !ok {
                        return Some(CloseBy::Client);
                    }
                    if let Some((_, k)) = job.cut {
                        return Some(cut(&self.lg(), wr, k).await);
                    }
                    self.sent += 1;
                }
                Out::Raw(bytes) => {
                    // logged BEFORE the write: whatever the client does in reaction to these bytes is
                    // then guaranteed to come later in the trace
                    self.log(Ev::RawOut { bytes: bytes.clone() });
                    let r = wr.write_all(&bytes).await;
                    if r.is_err() {
                        return Some(CloseBy::Client);
                    }
                    if let Some((_, k)) = job.cut {
                        return Some(cut(&self.lg(), wr, k).await);
                    }
                    self.sent += 1;
                }
                Out::Frame(f) => {
                    let enc = f.encode();
                    let n = match job.cut {
                        Some((off, _)) => off.min(enc.len()),
                        None => enc.len(),
                    };
                    // logged BEFORE the write (see above)
                    self.log(Ev::Out { version: f.version, flags: f.flags, stream: f.stream, opcode: f.opcode, body: f.body, written: n });
                    let r = match &job.chunks {
                        None => wr.write_all(&enc[..n]).await,
                        Some((offs, pause)) => {
                            let mut cuts: Vec<usize> = offs.iter().copied().filter(|o| *o > 0 && *o < n).collect();
                            cuts.sort();
                            cuts.dedup();
                            cuts.push(n);
                            let mut at = 0;
                            let mut r = Ok(());
                            for c in cuts {
                                r = wr.write_all(&enc[at..c]).await;
                                let _ = wr.flush().await;
                                if r.is_err() {
                                    break;
                                }
                                at = c;
                                if at < n {
                                    tokio::time::sleep(Duration::from_millis(*pause)).await;
                                }
                            }
                            r
                        }
                    };
                    let _ = wr.flush().await;
                    if r.is_err() {
                        return Some(CloseBy::Client);
                    }
                    if n == enc.len() {
                        // the SetKeyspace reply is on the wire in full: from now on the keyspace is acked
                        if let Some(ks) = ack {
                            self.ack_keyspace(ks);
                        }
                    }
                    if let Some((_, k)) = job.cut {
                        return Some(cut(&self.lg(), wr, k).await);
                    }
                    self.sent += 1;
                }
            }
            // release held replies whose turn has come (in holding order)
            let mut i = 0;
            let mut released = Vec::new();
            while i < self.held.len() {
                if self.held[i].1 <= self.sent {
                    released.push(self.held.remove(i).2);
                } else {
                    i += 1;
                }
            }
            released.reverse();
            queue.extend(released);
        }
        None
    }

    /// Decides the answer to one request frame.
    fn handle(&mut self, f: Frame) -> Job {
        self.pending_ack = None;
        let seq = self.sh.seq.fetch_add(1, Ordering::SeqCst);
        self.log(Ev::In { version: f.version, flags: f.flags, stream: f.stream, opcode: f.opcode, body: f.body.clone() });
        let stream = f.stream;
        let plain = |out: Out| Job { out, cut: None, reorder: 0, delay_ms: 0, release_held: None, ack_ks: None, chunks: None };
        let frame = |opcode: u8, body: Vec<u8>| Out::Frame(Frame::response(stream, opcode, body));
        let perr = |msg: &str| frame(op::ERROR, body_error(&ErrorSpec::new(DbErr::ProtocolError, msg)));
        if f.flags & wire::flag::COMPRESSION != 0 {
            return plain(perr("mocknode cannot decompress request bodies"));
        }

        // ---- handshake frames are never scripted (OPTIONS after STARTUP is: it is the keepalive) ----
        match f.opcode {
            op::STARTUP => {
                let opts = wire::decode_startup(&f.body).unwrap_or_default();
                self.started = true;
                // the extension is in use iff the node advertises it and the client opted in
                let advertised = {
                    let sp = self.sh.spec.lock().unwrap();
                    sp.nodes[self.node].metadata_id_ext.unwrap_or(sp.options.metadata_id_ext)
                };
                self.metadata_id_ext = advertised && opts.contains_key("SCYLLA_USE_METADATA_ID");
                return plain(frame(op::READY, vec![]));
            }
            op::OPTIONS if !self.started => return plain(self.supported(stream)),
            op::REGISTER => {
                let evs = wire::decode_register(&f.body).unwrap_or_default();
                if let Some(e) = self.ns.conns.lock().unwrap().get_mut(&self.conn_id) {
                    e.info.registered = evs;
                }
                return plain(frame(op::READY, vec![]));
            }
            op::AUTH_RESPONSE => {
                let mut w = wire::W::new();
                w.bytes(None);
                return plain(frame(op::AUTH_SUCCESS, w.done()));
            }
            _ => {}
        }
        if let Some(e) = self.ns.conns.lock().unwrap().get_mut(&self.conn_id) {
            e.info.requests += 1;
        }

        // ---- decode ----
        let mut ctx = ReqCtx {
            seq,
            node: self.node,
            conn_id: self.conn_id,
            shard: self.shard,
            stream,
            opcode: f.opcode,
            text: None,
            prepared_id: None,
            result_metadata_id: None,
            params: None,
            batch: None,
            keyspace: self.keyspace.clone(),
            requested_keyspace: self.requested_keyspace.clone(),
            is_system: false,
        };
        let key = match f.opcode {
            op::OPTIONS => Key::Options,
            op::QUERY => match wire::decode_query(&f.body) {
                Ok(q) => {
                    ctx.text = Some(q.text.clone());
                    ctx.params = Some(q.params);
                    Key::Stmt(strip_using_timeout(&q.text).to_string())
                }
                Err(e) => return plain(perr(&e.0)),
            },
            op::PREPARE => match wire::decode_prepare(&f.body) {
                Ok(t) => {
                    ctx.text = Some(t.clone());
                    Key::Prepare(strip_using_timeout(&t).to_string())
                }
                Err(e) => return plain(perr(&e.0)),
            },
            op::EXECUTE => match wire::decode_execute(&f.body, self.metadata_id_ext) {
                Ok(x) => {
                    let text = self.ns.prepared.lock().unwrap().get(&x.id).cloned();
                    ctx.prepared_id = Some(x.id);
                    ctx.result_metadata_id = x.result_metadata_id;
                    ctx.params = Some(x.params);
                    match text {
                        Some(t) => {
                            ctx.text = Some(t.clone());
                            Key::Stmt(strip_using_timeout(&t).to_string())
                        }
                        None => {
                            // unknown id on this node: UNPREPARED, like a server whose cache lost it
                            let id = ctx.prepared_id.clone().unwrap();
                            return plain(frame(
                                op::ERROR,
                                body_error(&ErrorSpec::new(DbErr::Unprepared { id }, "mocknode: statement id not prepared on this node")),
                            ));
                        }
                    }
                }
                Err(e) => return plain(perr(&e.0)),
            },
            op::BATCH => match wire::decode_batch(&f.body) {
                Ok(b) => {
                    let unknown = b.statements.iter().find_map(|s| match s {
                        wire::BatchStmt::Prepared { id, .. } if !self.ns.prepared.lock().unwrap().contains_key(id) => Some(id.clone()),
                        _ => None,
                    });
                    ctx.batch = Some(b);
                    if let Some(id) = unknown {
                        return plain(frame(
                            op::ERROR,
                            body_error(&ErrorSpec::new(DbErr::Unprepared { id }, "mocknode: batch statement id not prepared on this node")),
                        ));
                    }
                    Key::Batch
                }
                Err(e) => return plain(perr(&e.0)),
            },
            _ => return plain(perr("mocknode: unexpected opcode")),
        };
        let sel = ctx.text.as_deref().and_then(parse_select);
        ctx.is_system = sel.as_ref().is_some_and(|s| {
            s.table.starts_with("system.") || s.table.starts_with("system_schema.") || {
                let sp = self.sh.spec.lock().unwrap();
                sp.extra_tables.iter().any(|x| x.name == s.table)
            }
        });

        // ---- choose the actions ----
        let user = matches!(f.opcode, op::QUERY | op::EXECUTE | op::BATCH) && !ctx.is_system;
        let actions: Vec<Action> = {
            let mut sc = self.sh.scripts.lock().unwrap();
            let mut a = sc.pop(self.node, &key);
            if a.is_none() {
                if let Some(h) = sc.handler.clone() {
                    drop(sc);
                    a = h(&ctx);
                    sc = self.sh.scripts.lock().unwrap();
                }
            }
            if a.is_none() {
                a = sc.default_for(self.node, &key);
            }
            if a.is_none() && user {
                a = sc.pop(self.node, &Key::AnyUser);
            }
            if a.is_none() && user {
                a = sc.default_for(self.node, &Key::AnyUser);
            }
            a.unwrap_or_else(|| vec![Action::Default])
        };

        // ---- build the job ----
        let mut job = plain(Out::Nothing);
        let mut out_stream = stream;
        let mut payload: Option<Vec<u8>> = None;
        let mut warnings: Option<Vec<String>> = None;
        let mut version = wire::VERSION_RESPONSE;
        let mut reply: Option<Out> = None;
        let skip = ctx.params.as_ref().is_some_and(|p| p.skip_metadata);
        for a in actions {
            match a {
                Action::Delay(ms) => job.delay_ms += ms,
                Action::Reorder(k) => job.reorder = k,
                Action::CutAt(off, k) => job.cut = Some((off, k)),
                Action::UnsolicitedStream(s) => out_stream = s,
                Action::TabletPayload(b) => payload = Some(b),
                Action::Warnings(w) => warnings = Some(w),
                Action::FrameVersion(v) => version = v,
                Action::Chunked(offs, pause) => job.chunks = Some((offs, pause)),
                Action::Rows(spec) => reply = Some(frame(op::RESULT, body_result_rows(&spec, skip))),
                Action::Error(e) => reply = Some(frame(op::ERROR, body_error(&e))),
                Action::Unprepared => {
                    let id = ctx.prepared_id.clone().unwrap_or_default();
                    reply = Some(frame(op::ERROR, body_error(&ErrorSpec::new(DbErr::Unprepared { id }, "mocknode: scripted UNPREPARED"))));
                }
                Action::Void => reply = Some(frame(op::RESULT, wire::body_result_void())),
                Action::SetKeyspace(ks) => {
                    self.set_keyspace(&ks);
                    reply = Some(frame(op::RESULT, wire::body_result_set_keyspace(&ks)));
                }
                Action::SchemaChange { change, target, keyspace, object } => {
                    reply = Some(frame(op::RESULT, wire::body_result_schema_change(&change, &target, &keyspace, object.as_deref())));
                }
                Action::Prepared(p) => {
                    // only a real PREPARE makes the node remember the statement
                    reply = Some(self.reply_prepared(stream, ctx.text.as_deref().unwrap_or(""), &p, ctx.opcode == op::PREPARE))
                }
                Action::RawBody { opcode, body } => reply = Some(frame(opcode, body)),
                Action::NoReply => reply = Some(Out::Nothing),
                Action::Garbage(b) => reply = Some(Out::Raw(b)),
                Action::RawFill { head, fill_len, seed, inserts, tail } => {
                    reply = Some(Out::Fill { head, fill_len, seed, inserts, tail })
                }
                Action::Stall => reply = Some(Out::Stall),
                Action::Close(k) => reply = Some(Out::Close(k)),
                Action::Default => reply = Some(self.builtin(&ctx, sel.as_ref())),
            }
            if reply.is_some() {
                break;
            }
        }
        let mut out = reply.unwrap_or_else(|| self.builtin(&ctx, sel.as_ref()));
        if let Out::Frame(fr) = &mut out {
            fr.stream = out_stream;
            fr.version = version;
            if let Some(p) = payload {
                fr.flags |= wire::flag::CUSTOM_PAYLOAD;
                fr.body = wire::with_custom_payload(&[(TABLETS_PAYLOAD_KEY.to_string(), p)], &fr.body);
            }
            if let Some(wl) = warnings {
                fr.flags |= wire::flag::WARNING;
                let mut w = wire::W::new();
                w.string_list(&wl).raw(&fr.body);
                fr.body = w.done();
            }
        }
        job.out = out;
        // only a frame acknowledges (a scripted NoReply/Garbage/Stall after SetKeyspace does not)
        job.ack_ks = match &job.out {
            Out::Frame(_) => self.pending_ack.take(),
            _ => {
                self.pending_ack = None;
                None
            }
        };
        job
    }

    /// A USE was handled: remember what the reply under construction will acknowledge.
    fn set_keyspace(&mut self, ks: &str) {
        self.requested_keyspace = Some(ks.to_string());
        self.pending_ack = Some(ks.to_string());
        if let Some(e) = self.ns.conns.lock().unwrap().get_mut(&self.conn_id) {
            e.info.requested_keyspace = Some(ks.to_string());
        }
    }
    /// The SetKeyspace reply has been written completely: the keyspace is acknowledged.
    fn ack_keyspace(&mut self, ks: String) {
        if let Some(e) = self.ns.conns.lock().unwrap().get_mut(&self.conn_id) {
            e.info.keyspace = Some(ks.clone());
        }
        self.keyspace = Some(ks);
    }

    fn supported(&self, stream: i16) -> Out {
        let sp = self.sh.spec.lock().unwrap();
        Out::Frame(Frame::response(stream, op::SUPPORTED, wire::body_supported(&supported_options(&sp, self.node, self.shard))))
    }

    /// The PreparedSpec PREPARE of `text` answers with, when nothing is scripted.
    fn prepared_spec_for(&self, text: &str) -> PreparedSpec {
        let t = strip_using_timeout(text);
        if let Some(p) = self.sh.scripts.lock().unwrap().prepared.get(t) {
            return p.clone();
        }
        if let Some(sel) = parse_select(t) {
            let sp = self.sh.spec.lock().unwrap();
            let nulls: Vec<Value> = vec![];
            if let Some(SysAnswer::Rows { columns, .. }) = answer_system_select(&sp, self.sh.cluster_id, self.node, &sel, &nulls, &self.sh.overrides.lock().unwrap()) {
                return PreparedSpec { bind_columns: system_bind_columns(&sel), result_columns: columns, ..Default::default() };
            }
        }
        let markers = t.matches('?').count();
        PreparedSpec {
            bind_columns: (0..markers).map(|i| ColSpec::new("mock", "mock", &format!("p{}", i), CqlType::Blob)).collect(),
            ..Default::default()
        }
    }

    fn reply_prepared(&self, stream: i16, text: &str, p: &PreparedSpec, remember: bool) -> Out {
        let t = strip_using_timeout(text);
        let id = if p.id.is_empty() { digest16(t.as_bytes()) } else { p.id.clone() };
        let rid = if p.result_metadata_id.is_empty() {
            let mut w = wire::W::new();
            for c in &p.result_columns {
                w.string(&c.keyspace).string(&c.table).string(&c.name);
                c.typ.encode(&mut w);
            }
            digest16(&w.done())
        } else {
            p.result_metadata_id.clone()
        };
        // the node now has the statement in its cache (under the full text, timeout suffix included)
        if remember {
            self.ns.prepared.lock().unwrap().insert(id.clone(), text.to_string());
        }
        let lwt_mask = self.sh.spec.lock().unwrap().options.lwt_mark;
        let body = body_result_prepared(p, &id, if self.metadata_id_ext { Some(&rid) } else { None }, lwt_mask);
        Out::Frame(Frame::response(stream, op::RESULT, body))
    }

    /// Unscripted behaviour.
    fn builtin(&mut self, ctx: &ReqCtx, sel: Option<&Select>) -> Out {
        let stream = ctx.stream;
        let frame = |opcode: u8, body: Vec<u8>| Out::Frame(Frame::response(stream, opcode, body));
        match ctx.opcode {
            op::OPTIONS => self.supported(stream),
            op::PREPARE => {
                let text = ctx.text.clone().unwrap_or_default();
                if let Some(s) = sel {
                    let sp = self.sh.spec.lock().unwrap();
                    if let Some(SysAnswer::NoSuchTable) = answer_system_select(&sp, self.sh.cluster_id, self.node, s, &[], &self.sh.overrides.lock().unwrap()) {
                        return frame(op::ERROR, body_error(&ErrorSpec::new(DbErr::Invalid, &format!("unconfigured table {}", s.table))));
                    }
                }
                let p = self.prepared_spec_for(&text);
                self.reply_prepared(stream, &text, &p, true)
            }
            op::BATCH => frame(op::RESULT, wire::body_result_void()),
            op::QUERY | op::EXECUTE => {
                let text = ctx.text.clone().unwrap_or_default();
                let t = strip_using_timeout(text.trim());
                let lower = t.to_ascii_lowercase();
                if let Some(rest) = lower.strip_prefix("use ") {
                    let raw = t[4..].trim().trim_end_matches(';').trim();
                    let _ = rest;
                    let ks = if raw.starts_with('"') && raw.ends_with('"') && raw.len() >= 2 {
                        raw[1..raw.len() - 1].to_string()
                    } else {
                        raw.to_ascii_lowercase()
                    };
                    let exists = {
                        let sp = self.sh.spec.lock().unwrap();
                        sp.keyspaces.iter().any(|k| k.name == ks) || ks == "system" || ks == "system_schema"
                    };
                    if !exists {
                        return frame(op::ERROR, body_error(&ErrorSpec::new(DbErr::Invalid, &format!("Keyspace '{}' does not exist", ks))));
                    }
                    self.set_keyspace(&ks);
                    return frame(op::RESULT, wire::body_result_set_keyspace(&ks));
                }
                if let (Some(s), true) = (sel, ctx.is_system) {
                    let params = ctx.params.clone().unwrap_or_default();
                    let ans = {
                        let sp = self.sh.spec.lock().unwrap();
                        answer_system_select(&sp, self.sh.cluster_id, self.node, s, &params.values, &self.sh.overrides.lock().unwrap())
                    };
                    match ans {
                        Some(SysAnswer::NoSuchTable) => {
                            return frame(op::ERROR, body_error(&ErrorSpec::new(DbErr::Invalid, &format!("unconfigured table {}", s.table))));
                        }
                        Some(SysAnswer::Rows { columns, rows }) => {
                            // paging: state = big-endian u32 offset
                            let off = params
                                .paging_state
                                .as_ref()
                                .and_then(|p| p.as_slice().try_into().ok().map(u32::from_be_bytes))
                                .unwrap_or(0) as usize;
                            let off = off.min(rows.len());
                            let page = params.page_size.filter(|p| *p > 0).map(|p| p as usize).unwrap_or(usize::MAX);
                            let end = off.saturating_add(page).min(rows.len());
                            let mut spec = RowsSpec::new(columns, rows[off..end].to_vec());
                            if end < rows.len() {
                                spec.paging_state = Some((end as u32).to_be_bytes().to_vec());
                            }
                            return frame(op::RESULT, body_result_rows(&spec, params.skip_metadata));
                        }
                        None => {}
                    }
                }
                frame(op::RESULT, wire::body_result_void())
            }
            _ => frame(op::ERROR, body_error(&ErrorSpec::new(DbErr::ProtocolError, "mocknode: unexpected opcode"))),
        }
    }
}
