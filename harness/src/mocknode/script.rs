//! Scenario scripts: what a mock node answers to user statements, and the shared frame trace.
use super::types::*;
use super::wire::{BatchReq, QueryParams};
use std::collections::{HashMap, VecDeque};
use std::sync::Arc;

/// How a connection is cut.
#[derive(Clone, Copy, Debug, PartialEq, Eq)]
pub enum CutKind {
    /// orderly shutdown of the sending direction (the client reads EOF)
    Fin,
    /// abortive close (SO_LINGER 0): the client gets ECONNRESET
    Rst,
}

/// One step of a script. *Modifiers* (Delay, Reorder, CutAt, UnsolicitedStream, TabletPayload,
/// Warnings, FrameVersion, Chunked) apply to the next *reply* action (Rows, Error, Unprepared, Void,
/// SetKeyspace, SchemaChange, Prepared, Default, RawBody, NoReply, Garbage, Stall, Close);
/// one request consumes modifiers up to and including one reply.
#[derive(Clone, Debug, PartialEq, Eq)]
pub enum Action {
    // ---- replies ----
    /// RESULT/Rows
    Rows(RowsSpec),
    /// ERROR
    Error(ErrorSpec),
    /// ERROR Unprepared carrying the id of the EXECUTE being answered (for QUERY: empty id)
    Unprepared,
    /// RESULT/Void
    Void,
    /// RESULT/SetKeyspace; also records the keyspace as the connection's acked keyspace
    SetKeyspace(String),
    /// RESULT/SchemaChange (change type, target, keyspace, object)
    SchemaChange { change: String, target: String, keyspace: String, object: Option<String> },
    /// answer a PREPARE with this spec (instead of the registered / derived one)
    Prepared(PreparedSpec),
    /// whatever the mock would answer without a script (system tables, USE, registered defaults)
    Default,
    /// a response frame with this opcode and raw body
    RawBody { opcode: u8, body: Vec<u8> },
    /// never answer this request (the connection keeps working)
    NoReply,
    /// write these raw bytes into the response stream instead of a response frame
    Garbage(Vec<u8>),
    /// streamed raw reply that is never materialised: write `head`, then `fill_len` bytes where byte i
    /// (0-based, counted from the first fill byte) = ((i + seed) % 251) as u8 with `inserts`
    /// (offset into the fill, bytes) overriding the pattern, then `tail`; written in <= 64 KiB chunks.
    /// Traced as `Ev::RawFillOut` (the description, not the bytes). Counts as one written response.
    RawFill { head: Vec<u8>, fill_len: u64, seed: u8, inserts: Vec<(u64, Vec<u8>)>, tail: Vec<u8> },
    /// from now on the connection is silent: requests are read and traced, nothing is ever written
    Stall,
    /// close the connection instead of answering
    Close(CutKind),
    // ---- modifiers ----
    /// answer after this many milliseconds (other requests of the connection are served meanwhile)
    Delay(u64),
    /// hold the reply until `k` further responses were written on the connection (or 2 s passed)
    Reorder(usize),
    /// write only the first `offset` bytes of the reply frame (header = 9 bytes), then cut the connection.
    /// An offset >= the frame length writes the whole frame and then cuts ("between frames").
    CutAt(usize, CutKind),
    /// send the reply on this stream id instead of the request's
    UnsolicitedStream(i16),
    /// attach the custom payload entry `tablets-routing-v1` = these bytes (see `tablet_payload_value`)
    TabletPayload(Vec<u8>),
    /// attach warnings (frame flag 0x08)
    Warnings(Vec<String>),
    /// override the version byte of the reply frame (default 0x84)
    FrameVersion(u8),
    /// write the reply frame in pieces: split at these byte offsets of the encoded frame (header = 9
    /// bytes), flushing and pausing `pause_ms` between pieces, so that the client reads a header or a
    /// body in several chunks. No fault: the whole frame is delivered. (Traced as one `Ev::Out`.)
    Chunked(Vec<usize>, u64),
}

impl Action {
    pub fn is_modifier(&self) -> bool {
        matches!(
            self,
            Action::Delay(_)
                | Action::Reorder(_)
                | Action::CutAt(..)
                | Action::UnsolicitedStream(_)
                | Action::TabletPayload(_)
                | Action::Warnings(_)
                | Action::FrameVersion(_)
                | Action::Chunked(..)
        )
    }
}

/// Which requests a script entry applies to.
#[derive(Clone, Debug, PartialEq, Eq, Hash)]
pub enum Key {
    /// QUERY with this text, or EXECUTE of a statement prepared from this text
    /// (a ` USING TIMEOUT <n>ms` suffix is ignored)
    Stmt(String),
    /// PREPARE of this text
    Prepare(String),
    /// any BATCH
    Batch,
    /// OPTIONS after the handshake (the driver's keepalive)
    Options,
    /// any QUERY/EXECUTE/BATCH that is not a system-table read (lowest priority)
    AnyUser,
}
impl From<&str> for Key {
    fn from(s: &str) -> Key {
        Key::Stmt(s.to_string())
    }
}
impl From<String> for Key {
    fn from(s: String) -> Key {
        Key::Stmt(s)
    }
}

/// Node selector for scripts.
#[derive(Clone, Copy, Debug, PartialEq, Eq, Hash)]
pub enum NodeSel {
    Node(usize),
    Any,
}
impl From<usize> for NodeSel {
    fn from(n: usize) -> NodeSel {
        NodeSel::Node(n)
    }
}

/// Everything the mock knows about a request when it decides the answer; handed to handlers.
#[derive(Clone, Debug)]
pub struct ReqCtx {
    /// cluster-wide arrival number of this request (handshake frames included)
    pub seq: u64,
    pub node: usize,
    pub conn_id: u64,
    pub shard: u16,
    pub stream: i16,
    pub opcode: u8,
    /// statement text: QUERY text, PREPARE text, or the text an EXECUTE's id was prepared from
    pub text: Option<String>,
    /// id of an EXECUTE
    pub prepared_id: Option<Vec<u8>>,
    /// result metadata id sent with an EXECUTE (metadata-id extension)
    pub result_metadata_id: Option<Vec<u8>>,
    /// parameters of QUERY / EXECUTE
    pub params: Option<QueryParams>,
    pub batch: Option<BatchReq>,
    /// ACKED keyspace of the connection at the moment this request frame is handled: the keyspace of
    /// the last RESULT/SetKeyspace that was written completely (not merely requested)
    pub keyspace: Option<String>,
    /// keyspace of the last USE handled on the connection (its reply may still be delayed/held)
    pub requested_keyspace: Option<String>,
    /// true when the statement reads a system table the mock synthesises
    pub is_system: bool,
}

/// Dynamic responder: return `Some(actions)` to answer the request (same semantics as a script
/// entry), `None` to fall through to the built-in behaviour.
pub type Handler = Arc<dyn Fn(&ReqCtx) -> Option<Vec<Action>> + Send + Sync>;

#[derive(Default)]
pub struct Scripts {
    pub queues: HashMap<(NodeSel, Key), VecDeque<Action>>,
    pub defaults: HashMap<(NodeSel, Key), Vec<Action>>,
    pub prepared: HashMap<String, PreparedSpec>,
    pub handler: Option<Handler>,
}

impl Scripts {
    /// Pops modifiers + one reply from the queue of (node|Any, key), if any.
    pub fn pop(&mut self, node: usize, key: &Key) -> Option<Vec<Action>> {
        for sel in [NodeSel::Node(node), NodeSel::Any] {
            if let Some(q) = self.queues.get_mut(&(sel, key.clone())) {
                if q.is_empty() {
                    continue;
                }
                let mut out = Vec::new();
                while let Some(a) = q.pop_front() {
                    let m = a.is_modifier();
                    out.push(a);
                    if !m {
                        break;
                    }
                }
                return Some(out);
            }
        }
        None
    }
    pub fn default_for(&self, node: usize, key: &Key) -> Option<Vec<Action>> {
        for sel in [NodeSel::Node(node), NodeSel::Any] {
            if let Some(d) = self.defaults.get(&(sel, key.clone())) {
                return Some(d.clone());
            }
        }
        None
    }
}

// ------------------------------------------------------------------------------------------
// trace
// ------------------------------------------------------------------------------------------

#[derive(Clone, Debug, PartialEq, Eq)]
pub enum CloseBy {
    /// the client closed or reset the connection
    Client,
    /// the mock cut it (script CutAt / Close / kill_connections)
    MockFin,
    MockRst,
    /// the mock node was stopped or the cluster shut down
    Shutdown,
}

#[derive(Clone, Debug, PartialEq, Eq)]
pub enum Ev {
    /// a connection was accepted
    Open { peer_port: u16, shard_aware_port: bool },
    /// a frame received from the client
    In { version: u8, flags: u8, stream: i16, opcode: u8, body: Vec<u8> },
    /// a response frame; `written` = number of bytes of the encoded frame (9 + body) that were
    /// really written (smaller than the frame when the script cut inside it)
    Out { version: u8, flags: u8, stream: i16, opcode: u8, body: Vec<u8>, written: usize },
    /// raw bytes written into the response stream (Action::Garbage)
    RawOut { bytes: Vec<u8> },
    /// a streamed raw reply (Action::RawFill): its description, not its bytes
    RawFillOut { head: Vec<u8>, fill_len: u64, seed: u8, inserts: Vec<(u64, Vec<u8>)>, tail: Vec<u8> },
    /// the connection went silent (Action::Stall)
    Stalled,
    Close { by: CloseBy },
}

#[derive(Clone, Debug, PartialEq, Eq)]
pub struct TraceEvent {
    /// nanoseconds since the cluster was started
    pub t_ns: u64,
    pub node: usize,
    /// cluster-wide connection number in order of acceptance (starting at 1)
    pub conn_id: u64,
    /// server-side shard of the connection
    pub shard: u16,
    pub ev: Ev,
}

impl TraceEvent {
    pub fn is_in(&self, opcode: u8) -> bool {
        matches!(&self.ev, Ev::In { opcode: o, .. } if *o == opcode)
    }
}
