//! Scripted CQL v4 mock node(s) on loopback for the end-to-end ties (see docs/mocknode.md).
