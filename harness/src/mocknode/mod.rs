//! Scripted CQL v4 mock node(s) on loopback for the end-to-end ties (see docs/mocknode.md).
//!
//! * `wire`    — own frame reader/writer, primitive codecs, request body decoders
//! * `types`   — CQL types, cell encoders, RESULT/ERROR body encoders, PreparedSpec, RowsSpec
//! * `cluster` — cluster description and the synthesised system tables
//! * `script`  — script actions, keys, handler type, trace events
//! * `server`  — `MockCluster`: listeners, connections, script execution
pub mod cluster;
pub mod script;
pub mod server;
pub mod types;
pub mod wire;

pub use cluster::{ClusterSpec, ColumnDef, ColumnKind, ExtraTable, KeyspaceDef, NodeOverride, NodeSpec, ServerOptions, TableDef, UdtDef, host_id_for};
pub use script::{Action, CloseBy, CutKind, Ev, Handler, Key, NodeSel, ReqCtx, TraceEvent};
pub use server::{ConnInfo, MockCluster};
pub use types::{Cell, ColSpec, CqlType, DbErr, ErrorSpec, MetaMode, PreparedSpec, RowsSpec, cell, tablet_payload_value, uncell};
pub use wire::{BatchReq, BatchStmt, ExecuteReq, Frame, QueryParams, QueryReq, Value, op};
